"""C05 structural reads of the dumped expansion (syntactic frame conditions; not proofs)."""
import re
from .rustscan import Scan
from .decl import Decl


def scan(d: Decl, dump: str):
    """-> list of (what, ok, detail)"""
    out = []
    X = re.escape(d.name)
    sc = Scan(dump)
    mod, inner = sc.module()
    if mod is None:
        return [('module found', False, '')]
    # 1. the inner field is private
    st = [it for it in inner if it.kind == 'struct' and re.search(r'\bstruct ' + X + r'\b', it.head)]
    if len(st) != 1:
        out.append(('the tuple field is private', False, 'struct not found'))
    else:
        text = dump[st[0].head_start:st[0].end]
        po = text.find('(')
        field = text[po + 1:].lstrip() if po >= 0 else 'pub'
        out.append(('the tuple field is private', po >= 0 and not re.match(r'pub\b', field), text[:120]))
    # 2. no mutable views
    bad = []
    for it in inner:
        if it.kind == 'impl':
            if re.search(r'\b(DerefMut|AsMut|BorrowMut|IndexMut)\b', it.head):
                bad.append(it.head[:80])
            for fn in it.fns:
                params = dump[fn.params_open:fn.params_close + 1]
                ret = dump[fn.ret_start:fn.ret_end] if fn.ret_start else ''
                if re.search(r'&\s*(\'[a-z_]+\s+)?mut\s+self\b', params) or re.search(r'self\s*:\s*&\s*(\'[a-z_]+\s+)?mut\b', params) or re.search(r'&\s*(\'[a-z_]+\s+)?mut\b', ret):
                    bad.append('%s :: fn %s' % (it.head[:50], fn.name))
    out.append(('no DerefMut/AsMut/BorrowMut impl, no `&mut self` method, no `&mut` return', not bad, '; '.join(bad)))
    # 3. new_unchecked exists iff the flag is given, and is unsafe
    fns = [(it, fn) for it in inner if it.kind == 'impl' for fn in it.fns if fn.name == 'new_unchecked']
    if d.new_unchecked:
        ok = len(fns) == 1 and re.search(r'\bunsafe\b', fns[0][1].quals) is not None
        out.append(('new_unchecked exists (flag given) and is `unsafe fn`', ok, fns[0][1].quals if fns else 'absent'))
    else:
        out.append(('no new_unchecked without the flag', not fns, ''))
    # 4. items Verus does not see (Display / Error impls): their signatures (`fmt -> fmt::Result`,
    #    `source -> Option<&dyn Error>`) cannot hand out a value of the newtype, so nothing about
    #    constructor calls has to be read from their text; only `unsafe` would matter (item 5).
    # 4b. the type and its generated error types are re-exported with exactly the declared visibility
    top = sc.items(0, len(dump))
    uses = [it for it in top if it.kind == 'use' and '__nutype_' in it.head]
    bad = []
    for it in uses:
        m = re.match(r'^(pub(?:\([^)]*\))?)?\s*use __nutype_', it.head)
        vis = (m.group(1) or '').strip() if m else '?'
        if vis.replace(' ', '') != d.vis.replace(' ', ''):
            bad.append('%s (declared `%s`)' % (it.head[:70], d.vis or 'private'))
    out.append(('re-exports of the type / error types carry exactly the declared visibility', bool(uses) and not bad, '; '.join(bad) or ('%d re-exports' % len(uses))))
    # 5. nothing in the module is `unsafe` except new_unchecked
    n_unsafe = len(re.findall(r'\bunsafe\b', dump))
    out.append(('UNDECIDED-IF-FALSE no `unsafe` in the expansion except the sanctioned new_unchecked', n_unsafe == (1 if d.new_unchecked and fns else 0), 'occurrences: %d' % n_unsafe))
    return out
