"""Kani side (stub; filled in below)."""


def kani_part(out, prop, tier, seed):
    return


def warm():
    return
