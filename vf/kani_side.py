"""Kani side: contract harnesses over the REAL macro invocations (nothing is extracted here).

One generated crate per property under /verif/work/kani_<prop>; the declarations are ordinary
`#[nutype(..)]` items compiled by Kani's rustc with `nutype = { path = "/repo/nutype" }`.  Every
harness states requires (kani::assume) / ensures (assert) of one real function against the
executable reference generated from the abstract declaration, over kani::any() inputs; the
functions are loop-free (or fully unwound with unwinding assertions), so a passing harness is a
complete proof for all inputs, not a bounded one, unless it is labelled bounded.
"""
import json
import os
import re
import shutil
import time

from . import aux, pipeline, report
from .catalogue import mk, camel
from .decl import Decl, Sanitizer, Validator, Bound, Custom, INT_TYPES, FLOAT_TYPES, VARIANT, int_min, int_max
from .refgen import ref_module, concrete_inner, concrete_self
from .annotate import Undecided

KANI_FLAGS = ['-Z', 'function-contracts', '-Z', 'stubbing', '-Z', 'unstable-options', '--harness-timeout', os.environ.get('VERIF_KANI_HARNESS_TIMEOUT', '600')]
REJECTED_INFO = {}
NATIVE_STRING_SERDE = {}


class Harness:
    def __init__(self, decl: Decl, what: str, props, body: str, attrs='', clause='', bounded=None, should_panic=False):
        self.decl = decl
        self.what = what
        self.props = props
        self.body = body
        self.attrs = attrs
        self.clause = clause
        self.bounded = bounded       # None or a string describing the bound
        self.should_panic = should_panic
        self.name = 'k_%s__%s' % (decl.id, re.sub(r'[^A-Za-z0-9_]', '_', what))
        self.key = '%s::%s' % (decl.id, what)

    def text(self):
        sp = '#[kani::should_panic]\n    ' if self.should_panic else ''
        return '    #[kani::proof]\n    %s%sfn %s() {\n%s\n        kani::cover!(true, "reached");\n    }\n' % (
            sp, self.attrs, self.name, self.body)


def sym_setup(d: Decl):
    out = ''
    for n in d.aux:
        m = re.match(r'sym_(lo|hi)_([a-z0-9]+)$', n)
        if m:
            out += '        unsafe { SYM_%s_%s = kani::any(); }\n' % (m.group(1).upper(), m.group(2).upper())
        if n in ('sym_len_lo', 'sym_len_hi'):
            out += '        unsafe { %s = kani::any(); }\n' % n.upper()
    return out


def bits(d: Decl, e: str):
    return '%s.to_bits()' % e if d.family == 'float' else e


def anyval(d: Decl, var='raw'):
    I = concrete_inner(d)
    if I == 'Point':
        return '        let %s = Point { x: kani::any(), y: kani::any() };\n' % var
    return '        let %s: %s = kani::any();\n' % (var, I)


def mapbits(d):
    return '.map(|v| v.to_bits())' if d.family == 'float' else ''


# ------------------------------------------------------------------------------ harness templates
def h_ctor(d: Decl, props):
    S = concrete_self(d)
    R = 'ref_' + d.id
    if d.has_validation:
        body = (sym_setup(d) + anyval(d) +
                '        let real = %s::try_new(raw).map(|v| %s);\n' % (S, bits(d, 'v.into_inner()')) +
                '        let expect = %s::try_new(raw)%s;\n' % (R, mapbits(d)) +
                '        assert!(real == expect, "try_new(raw) == spec_try_new(raw)");\n')
        return Harness(d, 'try_new', props, body, clause='try_new(raw) == validate(sanitize(raw)) ? Ok(sanitize(raw)) : Err(first violated), bit-exact, no panic')
    body = (sym_setup(d) + anyval(d) +
            '        let real = %s;\n' % bits(d, '%s::new(raw).into_inner()' % S) +
            '        let expect = %s;\n' % bits(d, '%s::sanitize(raw)' % R) +
            '        assert!(real == expect, "new(raw).into_inner() == spec_sanitize(raw)");\n')
    return Harness(d, 'new', props, body, clause='new(raw).into_inner() == sanitize(raw), bit-exact, no panic')


def h_ctor_c07(d: Decl, props):
    """C07 clause only: when the constructor rejects, the error is the variant of the first validator
    (written order) that the sanitized value violates."""
    S = concrete_self(d)
    R = 'ref_' + d.id
    body = (sym_setup(d) + anyval(d) +
            '        if let Err(e) = %s::try_new(raw) {\n' % S +
            '            let expect = %s::validate(&%s::sanitize(raw));\n' % (R, R) +
            '            assert!(expect == Err(e), "a rejection reports the first violated validator");\n'
            '        }\n')
    return Harness(d, 'try_new#C07', props, body, clause='try_new(raw) == Err(e)  ==>  validate(sanitize(raw)) == Err(e)  (first violated validator in written order)')


def h_accept_set(d: Decl, props):
    """for a declaration that mixes built-in validators with `with`/`error` (normally rejected): should it
    be accepted, a value is accepted exactly when EVERY written rule accepts it"""
    S = concrete_self(d)
    conds = ' && '.join(d.ref_accepts(v, 'v') for v in d.validators)
    body = (sym_setup(d) + anyval(d) +
            '        let v = raw;\n'
            '        let every_rule = %s && %s(&v).is_ok();\n' % (conds, d.custom_validation.name) +
            '        let accepted = %s::try_new(raw).is_ok();\n' % S +
            '        assert!(accepted == every_rule, "accepted exactly when every written rule (built-in and custom) accepts");\n')
    return Harness(d, 'try_new (accept set)', props, body, clause='try_new(x) is Ok <=> every written rule accepts x')


def h_try_from(d: Decl, props):
    S = concrete_self(d)
    R = 'ref_' + d.id
    if d.has_validation:
        body = (sym_setup(d) + anyval(d) +
                '        let real = <%s as ::core::convert::TryFrom<%s>>::try_from(raw).map(|v| %s);\n' % (S, concrete_inner(d), bits(d, 'v.into_inner()')) +
                '        let expect = %s::try_new(raw)%s;\n' % (R, mapbits(d)) +
                '        assert!(real == expect, "try_from(raw) == spec_try_new(raw)");\n')
    else:
        body = (sym_setup(d) + anyval(d) +
                '        let real = <%s as ::core::convert::TryFrom<%s>>::try_from(raw).map(|v| %s);\n' % (S, concrete_inner(d), bits(d, 'v.into_inner()')) +
                '        match real { Ok(v) => assert!(v == %s, "try_from(raw) == Ok(new(raw))"), Err(_) => assert!(false, "infallible TryFrom returned Err") }\n' % bits(d, '%s::sanitize(raw)' % R))
    return Harness(d, 'TryFrom::try_from', props, body, clause='try_from(raw) == spec_try_new(raw)')


def h_from(d: Decl, props):
    S = concrete_self(d)
    R = 'ref_' + d.id
    body = (sym_setup(d) + anyval(d) +
            '        let real = %s;\n' % bits(d, '<%s as ::core::convert::From<%s>>::from(raw).into_inner()' % (S, concrete_inner(d))) +
            '        assert!(real == %s, "from(raw).into_inner() == spec_sanitize(raw)");\n' % bits(d, '%s::sanitize(raw)' % R))
    return Harness(d, 'From::from', props, body, clause='from(raw).into_inner() == sanitize(raw)')


def h_default(d: Decl, props, valid=True):
    S = concrete_self(d)
    R = 'ref_' + d.id
    dv = d.default_ref if d.default_ref is not None else d.default
    clause = 'default() == try_new(default expr).unwrap(); panics when the constructor rejects the default expression'
    if not valid and d.note == 'invalid-default-second-instantiation':
        body = ('        let ok = <%s::<i32> as Default>::default();\n        assert!(ok.into_inner() == 5);\n'
                '        let _v = <%s::<u8> as Default>::default();   // 7 is rejected by the predicate: must panic\n' % (d.name, d.name))
        return Harness(d, 'Default::default(valid instantiation first, then an invalid one => panic)', props, body, should_panic=True, clause=clause)
    if not valid:
        # single-path harness (literal default): passes iff default() panics; nothing else can panic here
        body = '        let _v = <%s as Default>::default();\n' % S
        return Harness(d, 'Default::default(invalid => panic)', props, body, should_panic=True, clause=clause)
    if d.family == 'string':
        cmp_real = '<%s as Default>::default().into_inner()' % S
        if d.has_validation:
            body = ('        let expect = %s::try_new(String::from(%s));\n' % (R, dv) +
                    '        let real = %s;\n' % cmp_real +
                    '        assert!(Ok(real) == expect, "default() == try_new(default_expr).unwrap()");\n')
        else:
            body = ('        let real = %s;\n        assert!(real == %s::sanitize(String::from(%s)), "default() == new(default_expr)");\n' % (cmp_real, R, dv))
        return Harness(d, 'Default::default', props, sym_setup(d) + body, clause=clause)
    if d.has_validation:
        body = (sym_setup(d) +
                '        let dv: %s = %s;\n' % (concrete_inner(d), dv) +
                '        let expect = %s::try_new(dv)%s;\n' % (R, mapbits(d)) +
                '        kani::assume(expect.is_ok());\n'
                '        let real = %s;\n' % bits(d, '<%s as Default>::default().into_inner()' % S) +
                '        assert!(Ok(real) == expect, "default() == try_new(default_expr).unwrap()");\n')
    else:
        body = (sym_setup(d) +
                '        let dv: %s = %s;\n' % (concrete_inner(d), dv) +
                '        let real = %s;\n' % bits(d, '<%s as Default>::default().into_inner()' % S) +
                '        assert!(real == %s, "default() == new(default_expr)");\n' % bits(d, '%s::sanitize(dv)' % R))
    return Harness(d, 'Default::default', props, body, clause=clause)


def obtain(d: Decl, var, src):
    """code that obtains a value `var` of the newtype from a symbolic inner `src` (assume accepted)"""
    S = concrete_self(d)
    if d.has_validation:
        return ('        let %s_r = %s::try_new(%s);\n        kani::assume(%s_r.is_ok());\n        let %s = %s_r.unwrap();\n'
                % (var, S, src, var, var, var))
    return '        let %s = %s::new(%s);\n' % (var, S, src)


def h_canonical(d: Decl, props):
    """C11: try_new(v.into_inner()) == Ok(v)"""
    S = concrete_self(d)
    body = (sym_setup(d) + anyval(d) + obtain(d, 'v', 'raw') +
            '        let i = v.into_inner();\n')
    if d.has_validation:
        body += '        let again = %s::try_new(i).map(|w| %s);\n        assert!(again == Ok(%s), "try_new(v.into_inner()) == Ok(v)");\n' % (S, bits(d, 'w.into_inner()'), bits(d, 'i'))
    else:
        body += '        let again = %s;\n        assert!(again == %s, "new(v.into_inner()) == v");\n' % (bits(d, '%s::new(i).into_inner()' % S), bits(d, 'i'))
    return Harness(d, 'canonical', props, body, clause='forall obtainable v: try_new(v.into_inner()) == Ok(v)')


def h_canonical_via(d: Decl, props, entry):
    """C11 for values obtained through another safe entry point: v := entry(raw) (when it succeeds);
    then try_new(v.into_inner()) == Ok(v)."""
    S = concrete_self(d)
    I = concrete_inner(d)
    attrs = ''
    if entry == 'TryFrom':
        get = '        let got = <%s as ::core::convert::TryFrom<%s>>::try_from(raw).ok();\n' % (S, I)
    elif entry == 'FromStr':
        t = d.inner
        attrs = '#[kani::stub(<%s as ::core::str::FromStr>::from_str, stub_parse_%s)]\n    ' % (t, t)
        get = ('        unsafe { P_OK = true; P_VAL_%s = raw; P_CALLS = 0; }\n' % t.upper() +
               '        let got = <%s as ::core::str::FromStr>::from_str("?").ok();\n' % S)
    elif entry == 'Deserialize':
        get = ('        unsafe { sfmt::EXPECT_NAME = "%s"; }\n' % d.name +
               '        let got = <%s as serde::Deserialize>::deserialize(sfmt::Fmt { v: raw, ok: true, mode: 0 }).ok();\n' % S)
    elif entry == 'Default':
        get = '        let got = Some(<%s as Default>::default());\n' % S
    else:
        raise ValueError(entry)
    body = (sym_setup(d) + anyval(d) + get +
            '        if let Some(v) = got {\n'
            '            let i = v.into_inner();\n')
    if d.has_validation:
        body += '            let again = %s::try_new(i).map(|w| %s);\n            assert!(again == Ok(%s), "try_new(v.into_inner()) == Ok(v) for v obtained via %s");\n' % (S, bits(d, 'w.into_inner()'), bits(d, 'i'), entry)
    else:
        body += '            let again = %s;\n            assert!(again == %s, "new(v.into_inner()) == v for v obtained via %s");\n' % (bits(d, '%s::new(i).into_inner()' % S), bits(d, 'i'), entry)
    body += '        }\n'
    return Harness(d, 'canonical via ' + entry, props, body, attrs=attrs,
                   clause='forall v obtainable through %s: try_new(v.into_inner()) == Ok(v)' % entry)


def h_valid_via(d: Decl, props, entry):
    """C05(a): a value obtained through a safe entry point satisfies every declared validator."""
    S = concrete_self(d)
    I = concrete_inner(d)
    attrs = ''
    pre = sym_setup(d)
    if entry == 'TryFrom':
        get = anyval(d) + '        let got = <%s as ::core::convert::TryFrom<%s>>::try_from(raw).ok();\n' % (S, I)
    elif entry == 'FromStr':
        t = d.inner
        attrs = '#[kani::stub(<%s as ::core::str::FromStr>::from_str, stub_parse_%s)]\n    ' % (t, t)
        get = (anyval(d) + '        unsafe { P_OK = true; P_VAL_%s = raw; P_CALLS = 0; }\n' % t.upper() +
               '        let got = <%s as ::core::str::FromStr>::from_str("?").ok();\n' % S)
    elif entry == 'Deserialize':
        get = (anyval(d) + '        unsafe { sfmt::EXPECT_NAME = "%s"; }\n' % d.name +
               '        let mode: u8 = kani::any();\n'
               '        let got = <%s as serde::Deserialize>::deserialize(sfmt::Fmt { v: raw, ok: true, mode }).ok();\n' % S)
    elif entry == 'Arbitrary':
        sz = (INT_BITS_OF[d.inner] // 8) if d.family == 'int' else (4 if d.inner == 'f32' else 8)
        n = sz + 1 if d.family == 'int' else 2 * sz + 1
        attrs = '#[kani::unwind(%d)]\n    ' % (n + 3)
        if d.family == 'int':
            pre += int_valid_range_code(d)
        elif any(n.startswith('sym_') for n in d.aux):
            pre += '        kani::assume(sym_lo_%s().is_finite() && sym_hi_%s().is_finite() && { let w: %s = kani::any(); !w.is_nan() && ref_%s::valid(&w) });\n' % (d.inner, d.inner, d.inner, d.id)
        get = ('        let bytes: [u8; %d] = kani::any();\n        let len: usize = kani::any();\n        kani::assume(len <= %d);\n' % (n, n) +
               '        let mut u = arbitrary::Unstructured::new(&bytes[..len]);\n'
               '        let got = <%s as arbitrary::Arbitrary>::arbitrary(&mut u).ok();\n' % S)
    else:
        raise ValueError(entry)
    body = (pre + get +
            '        if let Some(v) = got { let i = v.into_inner(); assert!(ref_%s::valid(&i), "a value obtained through %s satisfies every declared validator");\n' % (d.id, entry))
    if entry != 'Arbitrary':
        body += '            assert!(%s == %s, "the stored value went through the declared sanitizers");\n' % (bits(d, 'i'), bits(d, 'ref_%s::sanitize(raw)' % d.id))
    body += '        }\n'
    return Harness(d, 'guards run: ' + entry, props, body, attrs=attrs,
                   clause='forall inputs: %s yields only values that satisfy every declared validator (the guards cannot be bypassed)' % entry)


def guard_decls(tier='quick'):
    out = []
    types = ['i32', 'u8', 'i64', 'f32', 'f64'] if tier == 'quick' else [t for t in INT_TYPES + FLOAT_TYPES if t not in ('usize', 'isize', 'i128', 'u128')]
    der = ['Debug', 'TryFrom', 'FromStr', 'Serialize', 'Deserialize', 'Arbitrary']
    for t in types:
        fl = t in FLOAT_TYPES
        fam = 'float' if fl else 'int'
        bl, n1 = aux.sym_bound('lo', t)
        bu, n2 = aux.sym_bound('hi', t)
        vals = [Validator('greater_or_equal', bl), Validator('less', bu)]
        if fl:
            vals = [Validator('finite')] + vals
        out.append(mk('grd_%s_val' % t, fam, t, validators=vals, aux=[n1, n2], derives=der))
        s, n5 = aux.custom('san', t)
        out.append(mk('grd_%s_san_val' % t, fam, t, sanitizers=[Sanitizer('with', s)], validators=vals, aux=[n1, n2, n5],
                      derives=[x for x in der if x != 'Arbitrary']))
        out.append(mk('grd_%s_san_nov' % t, fam, t, sanitizers=[Sanitizer('with', s)], aux=[n5],
                      derives=[x for x in der if x not in ('Arbitrary',)]))
        s3, n6 = aux.custom('san3', t)
        out.append(mk('grd_%s_san3_val' % t, fam, t, sanitizers=[Sanitizer('with', s3)], validators=vals, aux=[n1, n2, n6],
                      derives=[x for x in der if x != 'Arbitrary']))
    for d in out:
        d.verus = False
        d.kani = True
    return out


DISPLAY_SPECS = ['{}', '{:>8}', '{:<5}', '{:^7}', '{:.2}', '{:+}', '{:08}', '{:#}', '{:*>6.1}', '{:-}']


def h_display(d: Decl, props, spec, idx):
    """C13: Display of the newtype hands the SAME formatter (width, precision, flags, fill, alignment)
    to the inner value's Display exactly once and writes nothing else."""
    S = concrete_self(d)
    body = '        let p = Probe(kani::any());\n' + obtain(d, 'v', 'p')
    body += ('        unsafe { PROBE_LOG = [0; 8]; }\n'
             '        let mut w1 = CountWriter { n: 0, acc: 0 };\n'
             '        let r1 = ::core::fmt::write(&mut w1, format_args!("%s", v));\n' % spec +
             '        let log1 = unsafe { PROBE_LOG };\n'
             '        unsafe { PROBE_LOG = [0; 8]; }\n'
             '        let mut w2 = CountWriter { n: 0, acc: 0 };\n'
             '        let r2 = ::core::fmt::write(&mut w2, format_args!("%s", p));\n' % spec +
             '        let log2 = unsafe { PROBE_LOG };\n'
             '        assert!(log1[0] == 1 && log2[0] == 1 && log1[1] == log2[1] && log1[2] == log2[2] && log1[3] == log2[3] && log1[4] == log2[4] && log1[5] == log2[5] && log1[6] == log2[6], "Display passes the caller\'s formatter unchanged to the inner value, once");\n'
             '        assert!(r1.is_ok() == r2.is_ok() && w1.n == w2.n && w1.acc == w2.acc, "Display writes exactly what the inner value writes");\n')
    return Harness(d, 'Display::fmt[%d: %s]' % (idx, spec), props, body, attrs='#[kani::unwind(12)]\n    ',
                   bounded='one of %d enumerated format specs; the inner type is a probe whose Display records the Formatter it is handed; other inner types share the generated text' % len(DISPLAY_SPECS),
                   clause='Display::fmt(&x, f) == Display::fmt(&x.inner, f) for the same Formatter f: same width/precision/flags/fill/alignment, one call, same output')


def h_into_iter(d: Decl, props):
    S = concrete_self(d)
    body = ('        let raw: [i32; 3] = kani::any();\n' + obtain(d, 'v', 'raw') +
            '        let inner = ref_%s::sanitize(raw);\n' % d.id +
            '        { let mut n = 0usize; for x in &v { assert!(n < 3 && *x == inner[n], "by-reference iteration yields exactly the stored elements, in order"); n += 1; } assert!(n == 3, "by-reference iteration yields every element"); }\n'
            '        { let mut n = 0usize; for x in v { assert!(n < 3 && x == inner[n], "by-value iteration yields exactly the stored elements, in order"); n += 1; } assert!(n == 3, "by-value iteration yields every element"); }\n')
    return Harness(d, 'IntoIterator::into_iter (by value and by reference)', props, body, attrs='#[kani::unwind(5)]\n    ',
                   clause='iteration over x / &x yields exactly the elements of the stored inner collection (inner type [i32; 3], symbolic elements)')


def h_string_hash_ord(d: Decl, props, a, b):
    S = concrete_self(d)
    body = (obtain(d, 'x', 'String::from(%s)' % a) + obtain(d, 'y', 'String::from(%s)' % b) +
            '        use ::core::hash::Hash;\n'
            '        let sx = ref_%s::sanitize(String::from(%s)); let sy = ref_%s::sanitize(String::from(%s));\n' % (d.id, a, d.id, b) +
            '        let mut h1 = RecHasher::new(); let mut h2 = RecHasher::new(); let mut h3 = RecHasher::new();\n'
            '        x.hash(&mut h1);\n'
            '        { let s: &str = ::core::borrow::Borrow::borrow(&x); s.hash(&mut h2); assert!(s == sx.as_str(), "Borrow<str> exposes the stored value"); }\n'
            '        { let s: &String = ::core::borrow::Borrow::borrow(&x); s.hash(&mut h3); assert!(s == &sx, "Borrow<String> exposes the stored value"); }\n'
            '        assert!(h1.n == h2.n && h1.n < 9 && h1.n == h3.n, "Hash feeds the hasher as the borrowed forms do");\n'
            '        let mut i = 0; while i < h1.n && i < 8 { assert!(h1.log[i] == h2.log[i] && h1.log[i] == h3.log[i], "Hash feeds the hasher exactly what the borrowed str/String feed"); i += 1; }\n'
            '        assert!((x == y) == (sx == sy) && x.partial_cmp(&y) == sx.partial_cmp(&sy) && x.cmp(&y) == sx.cmp(&sy), "comparisons agree with the inner strings");\n'
            '        assert!((x != y) == (sx != sy) && (x < y) == (sx < sy) && (x <= y) == (sx <= sy) && (x > y) == (sx > sy) && (x >= y) == (sx >= sy), "every comparison operator agrees with the inner strings");\n'
            '        assert!(x >= x && x <= x && !(x < x) && !(x > x) && x == x, "comparison of a value with itself");\n'
            '        assert!(x.clone() == x, "clone is equal");\n')
    return Harness(d, 'String Hash/Borrow/Ord (%s, %s)' % (a, b), props, body, attrs='#[kani::unwind(12)]\n    ',
                   bounded='concrete strings only (symbolic strings do not finish in CBMC)',
                   clause='hash(x) == hash(borrow(x)) for Borrow<str> and Borrow<String>; ==, partial_cmp, cmp agree with the inner strings')


def view_extra_decls(tier='quick'):
    pa = Custom(name='pred_arr', src='pred_arr', spec='')
    sa = Custom(name='san_arr', src='san_arr', spec='')
    out = [mk('iter_arr_nov', 'any', '[i32; 3]', derives=['Debug', 'IntoIterator']),
           mk('iter_arr_san_pred', 'any', '[i32; 3]', sanitizers=[Sanitizer('with', sa)], validators=[Validator('predicate', fn=pa)],
              aux=['arr_fns'], derives=['Debug', 'IntoIterator']),
           mk('strv_tr_ne', 'string', 'String', sanitizers=[Sanitizer('trim')], validators=[Validator('not_empty')],
              derives=['Debug', 'Clone', 'PartialEq', 'Eq', 'PartialOrd', 'Ord', 'Hash', 'Borrow']),
           # other-family newtype around an inner type whose == is not reflexive (NaN inside)
           mk('cmp_any_arrf', 'any', '[f32; 2]', derives=['Debug', 'Clone', 'PartialEq', 'PartialOrd'])]
    for d in out:
        d.verus = False
        d.kani = True
    return out


def h_display_concrete(d: Decl, props, spec, idx, lit):
    """String / integer families (their Display impl is generated by family-specific code paths):
    formatting a concrete value with an enumerated spec writes exactly what the inner value writes."""
    S = concrete_self(d)
    I = concrete_inner(d)
    mkraw = 'String::from(%s)' % lit if d.family == 'string' else '(%s as %s)' % (lit, I)
    body = ('        let raw: %s = %s;\n' % (I, mkraw) + obtain(d, 'v', 'raw.clone()') +
            '        let inner: %s = ref_%s::sanitize(raw);\n' % (I, d.id) +
            '        let mut w1 = CountWriter { n: 0, acc: 0 };\n        let mut w2 = CountWriter { n: 0, acc: 0 };\n'
            '        let r1 = ::core::fmt::write(&mut w1, format_args!("%s", v));\n' % spec +
            '        let r2 = ::core::fmt::write(&mut w2, format_args!("%s", inner));\n' % spec +
            '        assert!(r1.is_ok() == r2.is_ok() && w1.n == w2.n && w1.acc == w2.acc, "Display writes exactly what the inner value writes (padding, precision, sign, fill included)");\n')
    return Harness(d, 'Display::fmt[%d: %s]' % (idx, spec), props, body, attrs='#[kani::unwind(14)]\n    ',
                   bounded='concrete value %s, one of the enumerated format specs' % lit,
                   clause='format!(spec, x) == format!(spec, x.inner)')


def display_decls(tier='quick'):
    out = [mk('disp_probe_nov', 'any', 'Probe', aux=['Probe'], derives=['Debug', 'Display']),
           mk('disp_str_tr', 'string', 'String', sanitizers=[Sanitizer('trim')], validators=[Validator('not_empty')], aux=['Probe'], derives=['Debug', 'Display']),
           mk('disp_i32_le', 'int', 'i32', validators=[Validator('less_or_equal', aux.lit_bound(100, 'i32'))], aux=['Probe'], derives=['Debug', 'Display'])]
    for d in out:
        d.verus = False
        d.kani = True
    return out


def canonical_decls(tier='quick'):
    """numeric declarations with an IDEMPOTENT custom sanitizer (san_* = clamp / abs) and every value-creating derive"""
    out = []
    types = ['i32', 'u8', 'i64', 'f32', 'f64'] if tier == 'quick' else [t for t in INT_TYPES + FLOAT_TYPES if t not in ('usize', 'isize', 'i128', 'u128')]
    der = ['Debug', 'TryFrom', 'FromStr', 'Serialize', 'Deserialize']
    for t in types:
        fl = t in FLOAT_TYPES
        fam = 'float' if fl else 'int'
        bu, n2 = aux.sym_bound('hi', t)
        s, n5 = aux.custom('san', t)
        s.idempotent = True
        vals = [Validator('less_or_equal', bu)]
        if fl:
            vals = [Validator('finite')] + vals
        out.append(mk('can_%s_san_val' % t, fam, t, sanitizers=[Sanitizer('with', s)], validators=vals, aux=[n2, n5], derives=der))
        out.append(mk('can_%s_san_nov' % t, fam, t, sanitizers=[Sanitizer('with', s)], aux=[n5], derives=der))
        out.append(mk('can_%s_val' % t, fam, t, validators=vals, aux=[n2], derives=der))
    for d in out:
        d.verus = False
        d.kani = True
    return out


def h_views(d: Decl, props):
    S = concrete_self(d)
    I = concrete_inner(d)
    body = sym_setup(d) + anyval(d) + obtain(d, 'v', 'raw') + '        let inner = %s;\n' % bits(d, 'ref_%s::sanitize(raw)' % d.id)
    if 'AsRef' in d.derives:
        body += '        { let r: &%s = v.as_ref(); assert!(%s == inner, "as_ref() exposes the stored value"); }\n' % (I, bits(d, '(*r)'))
    if 'Deref' in d.derives:
        body += '        { let r: &%s = &*v; assert!(%s == inner, "deref() exposes the stored value"); }\n' % (I, bits(d, '(*r)'))
    if 'Borrow' in d.derives:
        body += '        { let r: &%s = ::core::borrow::Borrow::borrow(&v); assert!(%s == inner, "borrow() exposes the stored value"); }\n' % (I, bits(d, '(*r)'))
    if 'Clone' in d.derives:
        body += '        { let c = v.clone(); assert!(%s == inner, "clone() is an equal value"); }\n' % bits(d, 'c.into_inner()')
    if 'Into' in d.derives:
        body += '        { let r: %s = v.into(); assert!(%s == inner, "into() is the stored value"); }\n' % (I, bits(d, 'r'))
    else:
        body += '        assert!(%s == inner, "into_inner() is the stored value");\n' % bits(d, 'v.into_inner()')
    return Harness(d, 'views', props, body, clause='AsRef/Deref/Borrow/Clone/Into expose exactly the stored (sanitized) inner value')


def h_cmp(d: Decl, props):
    """derived PartialEq/PartialOrd/Ord agree with the inner values"""
    S = concrete_self(d)
    body = (sym_setup(d) + anyval(d, 'ra') + anyval(d, 'rb') + obtain(d, 'a', 'ra') + obtain(d, 'b', 'rb') +
            '        let ia = ref_%s::sanitize(ra); let ib = ref_%s::sanitize(rb);\n' % (d.id, d.id))
    if 'PartialEq' in d.derives:
        body += '        assert!((a == b) == (ia == ib), "== agrees with the inner values");\n        assert!((a != b) == (ia != ib), "!= agrees with the inner values");\n'
        body += '        assert!((a == a) == (ia == ia), "== of a value with itself agrees with the inner value (also where the inner == is not reflexive)");\n'
    if 'PartialOrd' in d.derives:
        body += '        assert!(a.partial_cmp(&a) == ia.partial_cmp(&ia), "partial_cmp of a value with itself agrees with the inner value");\n'
        body += ('        assert!(a.partial_cmp(&b) == ia.partial_cmp(&ib), "partial_cmp agrees with the inner values");\n'
                 '        assert!((a < b) == (ia < ib) && (a <= b) == (ia <= ib) && (a > b) == (ia > ib) && (a >= b) == (ia >= ib), "comparison operators agree");\n')
    if 'Ord' in d.derives:
        body += '        assert!(a.cmp(&a) == ::core::cmp::Ordering::Equal, "cmp of a value with itself is Equal");\n'
    if 'Ord' in d.derives and d.family != 'float':
        body += '        assert!(a.cmp(&b) == ia.cmp(&ib), "cmp agrees with the inner values");\n'
    if 'Ord' in d.derives and d.family == 'float':
        body += '        assert!(Some(a.cmp(&b)) == ia.partial_cmp(&ib), "cmp agrees with the comparison of the inner floats (incl. -0.0 vs 0.0)");\n'
    return Harness(d, 'comparisons', props, body, clause='PartialEq/PartialOrd/Ord of two obtainable values == the same on the inner values')


HASHER = '''
    pub struct RecHasher { pub log: [u64; 8], pub n: usize }
    impl RecHasher { pub fn new() -> Self { RecHasher { log: [0; 8], n: 0 } } fn push(&mut self, tag: u64, v: u64) { if self.n + 1 < 8 { self.log[self.n] = tag; self.log[self.n + 1] = v; self.n += 2; } else { self.n = 99; } } }
    impl ::core::hash::Hasher for RecHasher {
        fn finish(&self) -> u64 { 0 }
        fn write(&mut self, bytes: &[u8]) { let mut acc = 0u64; let mut i = 0; while i < bytes.len() && i < 16 { acc = acc.wrapping_mul(257).wrapping_add(bytes[i] as u64); i += 1; } self.push(1000 + bytes.len() as u64, acc); }
        fn write_u8(&mut self, i: u8) { self.push(1, i as u64); }
        fn write_u16(&mut self, i: u16) { self.push(2, i as u64); }
        fn write_u32(&mut self, i: u32) { self.push(3, i as u64); }
        fn write_u64(&mut self, i: u64) { self.push(4, i); }
        fn write_u128(&mut self, i: u128) { self.push(5, i as u64); self.push(55, (i >> 64) as u64); }
        fn write_usize(&mut self, i: usize) { self.push(6, i as u64); }
        fn write_i8(&mut self, i: i8) { self.push(7, i as u64); }
        fn write_i16(&mut self, i: i16) { self.push(8, i as u64); }
        fn write_i32(&mut self, i: i32) { self.push(9, i as u64); }
        fn write_i64(&mut self, i: i64) { self.push(10, i as u64); }
        fn write_i128(&mut self, i: i128) { self.push(11, i as u64); self.push(111, ((i as u128) >> 64) as u64); }
        fn write_isize(&mut self, i: isize) { self.push(12, i as u64); }
    }
'''


def h_hash(d: Decl, props):
    S = concrete_self(d)
    body = (sym_setup(d) + anyval(d) + obtain(d, 'v', 'raw') +
            '        use ::core::hash::Hash;\n'
            '        let mut h1 = RecHasher::new(); let mut h2 = RecHasher::new();\n'
            '        v.hash(&mut h1);\n'
            '        let b: &%s = ::core::borrow::Borrow::borrow(&v);\n' % concrete_inner(d) +
            '        b.hash(&mut h2);\n'
            '        assert!(h1.n == h2.n && h1.n < 9 && h1.log == h2.log, "Hash feeds the hasher exactly what the borrowed inner value feeds");\n')
    return Harness(d, 'hash', props, body, clause='the Hasher call sequence of v equals that of Borrow::borrow(&v)')


def h_float_ord(d: Decl, props):
    """C12: lawful Eq / total Ord on obtainable values"""
    S = concrete_self(d)
    body = (sym_setup(d) + anyval(d, 'ra') + anyval(d, 'rb') + anyval(d, 'rc') +
            obtain(d, 'a', 'ra') + obtain(d, 'b', 'rb') + obtain(d, 'c', 'rc') +
            '        let (ia, ib, ic) = (a.into_inner(), b.into_inner(), c.into_inner());\n'
            '        assert!(ia.is_finite() && ib.is_finite() && ic.is_finite(), "only finite values are obtainable");\n'
            '        use ::core::cmp::Ordering;\n'
            '        assert!(a == a, "== is reflexive");\n'
            '        let ab = a.cmp(&b); let ba = b.cmp(&a); let bc = b.cmp(&c); let ac = a.cmp(&c);\n'
            '        assert!(ab == ba.reverse(), "cmp is antisymmetric");\n'
            '        assert!(Some(ab) == ia.partial_cmp(&ib), "cmp agrees with partial_cmp of the inner floats");\n'
            '        assert!((ab == Ordering::Equal) == (a == b), "cmp == Equal iff ==");\n'
            '        if ab != Ordering::Greater && bc != Ordering::Greater { assert!(ac != Ordering::Greater, "cmp is transitive (<=)"); }\n'
            '        if ab == Ordering::Equal && bc == Ordering::Equal { assert!(ac == Ordering::Equal, "equality is transitive"); }\n'
            '        assert!(a.partial_cmp(&b) == Some(ab), "PartialOrd agrees with Ord");\n')
    return Harness(d, 'ord_laws', props, body,
                   clause='forall obtainable a,b,c: finite; a==a; cmp total, antisymmetric, transitive, == partial_cmp of inner, never panics')


PARSE_ERR_SRC = {
    # a real error value of the inner type's FromStr::Err, produced by a DIFFERENT type's parser
    'int': ['"".parse::<{o}>().unwrap_err()', '"x".parse::<{o}>().unwrap_err()', '"99999999999999999999999999999999999999999999".parse::<{o}>().unwrap_err()'],
    'float': ['"".parse::<{o}>().unwrap_err()', '"x".parse::<{o}>().unwrap_err()'],
}


def parse_stub_items(types):
    """stubs for <T as FromStr>::from_str: the outcome (Ok(v) | Err(e)) is fixed per execution and
    independent of the text, i.e. *any* deterministic parser; the slice it is called with is recorded."""
    out = ['pub static mut P_CALLS: usize = 0;\npub static mut P_PTR: usize = 0;\npub static mut P_LEN: usize = 0;\npub static mut P_OK: bool = true;\npub static mut P_ERR_SEL: u8 = 0;\n']
    for t in types:
        fl = t in FLOAT_TYPES
        other = ('f32' if t == 'f64' else 'f64') if fl else ('u8' if t != 'u8' else 'i64')
        errty = 'core::num::ParseFloatError' if fl else 'core::num::ParseIntError'
        srcs = [s.format(o=other) for s in PARSE_ERR_SRC['float' if fl else 'int']]
        sel = ' else '.join('if P_ERR_SEL == %d { %s }' % (i, s) for i, s in enumerate(srcs[:-1])) + (' else { %s }' % srcs[-1])
        out.append('pub static mut P_VAL_%s: %s = 0 as %s;\n' % (t.upper(), t, t))
        out.append('pub fn parse_err_%s() -> %s { unsafe { %s } }\n' % (t, errty, sel))
        out.append('pub fn stub_parse_%s(s: &str) -> Result<%s, %s> { unsafe { P_CALLS += 1; P_PTR = s.as_ptr() as usize; P_LEN = s.len(); if P_OK { Ok(P_VAL_%s) } else { Err(parse_err_%s()) } } }\n'
                   % (t, t, errty, t.upper(), t))
    return ''.join(out)


C06_INPUT = '" \\u{a0}7x \\n"'


def h_from_str(d: Decl, props):
    S = concrete_self(d)
    R = 'ref_' + d.id
    I = concrete_inner(d)
    PE = d.name + 'ParseError'
    if I == 'Point':
        pre = ('        unsafe { PT_PARSE_OK = kani::any(); PT_PARSE_VAL = Point { x: kani::any(), y: kani::any() }; PT_PARSE_ERR = if kani::any() { MyErr::Bad } else { MyErr::Worse }; PT_CALLS = 0; }\n')
        ok, val, err, calls, ptr, ln = 'PT_PARSE_OK', 'PT_PARSE_VAL', 'PT_PARSE_ERR', 'PT_CALLS', 'PT_PTR', 'PT_LEN'
        attrs = ''
    else:
        t = I
        pre = '        unsafe { P_OK = kani::any(); P_VAL_%s = kani::any(); P_ERR_SEL = kani::any(); P_CALLS = 0; }\n' % t.upper()
        ok, val, err, calls, ptr, ln = 'P_OK', 'P_VAL_%s' % t.upper(), 'parse_err_%s()' % t, 'P_CALLS', 'P_PTR', 'P_LEN'
        attrs = '#[kani::stub(<%s as ::core::str::FromStr>::from_str, stub_parse_%s)]\n    ' % (t, t)
    body = (sym_setup(d) + pre +
            '        let s: &str = %s;\n' % C06_INPUT +
            '        let r = <%s as ::core::str::FromStr>::from_str(s);\n' % S +
            '        unsafe {\n'
            '            assert!(%s == 1, "the inner type\'s FromStr is invoked exactly once");\n' % calls +
            '            assert!(%s == s.as_ptr() as usize && %s == s.len(), "the inner parser receives exactly the given string (not a trimmed / altered one)");\n' % (ptr, ln) +
            '            if !%s {\n' % ok +
            '                match r { Err(%s::Parse(e)) => assert!(e == %s, "Parse carries the inner parser\'s error unchanged"), _ => assert!(false, "inner parse failure must yield the Parse error") }\n' % (PE, err) +
            '            } else {\n')
    if d.has_validation:
        body += ('                let expect = %s::try_new(%s);\n' % (R, val) +
                 '                match (r, expect) {\n'
                 '                    (Ok(v), Ok(e)) => assert!(%s == %s, "from_str yields what the constructor yields for the parsed value"),\n' % (bits(d, 'v.into_inner()'), bits(d, 'e')) +
                 '                    (Err(%s::Validate(e1)), Err(e2)) => assert!(e1 == e2, "Validate carries the constructor\'s error"),\n' % PE +
                 '                    _ => assert!(false, "from_str must agree with the constructor on the parsed value"),\n'
                 '                }\n')
    else:
        body += ('                match r { Ok(v) => assert!(%s == %s, "from_str yields new(parsed)"), _ => assert!(false, "from_str of a parsable string must be Ok") }\n'
                 % (bits(d, 'v.into_inner()'), bits(d, '%s::sanitize(%s)' % (R, val))))
    body += '            }\n        }\n'
    return Harness(d, 'FromStr::from_str', props, body, attrs=attrs,
                   clause='from_str(s) == match inner_parse(s) { Err(e) => Err(Parse(e)), Ok(v) => try_new(v).map_err(Validate) }; inner parser called once with exactly s; no panic')


def generic_decls(prefix, derives, with_validation=True):
    """generic newtypes `struct X<T: Sat>(T)` (instantiated at T = i32 by the harnesses)"""
    out = []
    s = Custom(name='san_gen', src='san_gen', spec='')
    p = Custom(name='pred_gen', src='pred_gen', spec='')
    v = Custom(name='vfn_gen', src='vfn_gen', spec='')
    base = dict(generics='<T: Sat>', generic_args='<T>')
    out.append(mk('%s_gen_nov' % prefix, 'any', 'T', aux=['Sat', 'MyErr'], derives=derives, **base))
    out.append(mk('%s_gen_san_nov' % prefix, 'any', 'T', sanitizers=[Sanitizer('with', s)], aux=['Sat', 'MyErr'], derives=derives, **base))
    if with_validation:
        out.append(mk('%s_gen_san_pred' % prefix, 'any', 'T', sanitizers=[Sanitizer('with', s)], validators=[Validator('predicate', fn=p)],
                      aux=['Sat', 'MyErr'], derives=derives, **base))
        out.append(mk('%s_gen_custom' % prefix, 'any', 'T', custom_validation=v, custom_error='MyErr', aux=['Sat', 'MyErr'], derives=derives, **base))
    return out


def fromstr_decls(tier='quick'):
    out = []
    types = (INT_TYPES + FLOAT_TYPES) if tier == 'thorough' else ['i32', 'u8', 'i128', 'usize', 'f32', 'f64']
    for t in types:
        fl = t in FLOAT_TYPES
        fam = 'float' if fl else 'int'
        bl, n1 = aux.sym_bound('lo', t)
        bu, n2 = aux.sym_bound('hi', t)
        s, n5 = aux.custom('san', t)
        vals = [Validator('greater_or_equal', bl), Validator('less', bu)]
        if fl:
            vals = [Validator('finite')] + vals
        out.append(mk('fs_%s_nov' % t, fam, t, derives=['Debug', 'FromStr']))
        out.append(mk('fs_%s_val' % t, fam, t, validators=vals, aux=[n1, n2], derives=['Debug', 'FromStr']))
        out.append(mk('fs_%s_san_val' % t, fam, t, sanitizers=[Sanitizer('with', s)], validators=vals, aux=[n1, n2, n5], derives=['Debug', 'FromStr']))
        out.append(mk('fs_%s_san_nov' % t, fam, t, sanitizers=[Sanitizer('with', s)], aux=[n5], derives=['Debug', 'FromStr']))
        v, n4 = aux.custom('vfn', t)
        out.append(mk('fs_%s_custom' % t, fam, t, custom_validation=v, custom_error='MyErr', aux=[n4, 'MyErr'], derives=['Debug', 'FromStr']))
        s3, n6 = aux.custom('san3', t)     # NOT idempotent: applying it twice is visible
        out.append(mk('fs_%s_san3_val' % t, fam, t, sanitizers=[Sanitizer('with', s3)], validators=vals, aux=[n1, n2, n6], derives=['Debug', 'FromStr']))
        out.append(mk('fs_%s_san3_nov' % t, fam, t, sanitizers=[Sanitizer('with', s3)], aux=[n6], derives=['Debug', 'FromStr']))
    p, pn = aux.custom('pred', 'point')
    sp, sn = aux.custom('san', 'point')
    pa = ['Point', 'MyErr', 'PointFromStr']
    out.append(mk('fs_point_nov', 'any', 'Point', aux=pa, derives=['Debug', 'FromStr']))
    out.append(mk('fs_point_san_pred', 'any', 'Point', sanitizers=[Sanitizer('with', sp)], validators=[Validator('predicate', fn=p)],
                  aux=pa + [pn, sn], derives=['Debug', 'FromStr']))
    out.append(mk('fs_point_san_nov', 'any', 'Point', sanitizers=[Sanitizer('with', sp)], aux=pa + [sn], derives=['Debug', 'FromStr']))
    out += generic_decls('fs', ['Debug', 'FromStr'])
    for d in out:
        d.verus = False
        d.kani = True
    return out


def h_deserialize(d: Decl, props, bounded=None, concrete=None, only_protocol=False):
    """C04: protocol-following document => Ok(v) iff inner ok and constructor accepts, v == constructor's
    value; inner failure passed through; validation failure => an error; protocol violation => error."""
    S = concrete_self(d)
    R = 'ref_' + d.id
    I = concrete_inner(d)
    if concrete is None:
        val = anyval(d, 'raw')
        mode = '        let mode: u8 = kani::any();\n        let ok: bool = kani::any();\n'
        if only_protocol:
            mode = '        let mode: u8 = 0;\n        let ok: bool = kani::any();\n'
    else:
        val = '        let raw: String = String::from(%s);\n' % concrete[0]
        mode = '        let mode: u8 = %d;\n        let ok: bool = %s;\n        unsafe { sfmt::STR_SHAPE = %d; }\n' % (concrete[1], concrete[2], concrete[4] if len(concrete) > 4 else 0)
    body = (sym_setup(d) + val + mode +
            '        unsafe { sfmt::EXPECT_NAME = "%s"; sfmt::NEWTYPE_CALLS = 0; sfmt::SEEN_NAME_OK = false; sfmt::INNER_REQ = 0; }\n' % d.name +
            '        let r = <%s as serde::Deserialize>::deserialize(sfmt::Fmt { v: raw%s, ok, mode });\n' % (S, '.clone()' if d.family == 'string' else '') +
            '        unsafe { assert!(sfmt::NEWTYPE_CALLS == 1 && sfmt::SEEN_NAME_OK, "deserialize_newtype_struct is requested once, with the type\'s name"); }\n' +
            ('        if mode == 0 { unsafe { assert!(sfmt::INNER_REQ == 1, "the carried value is requested as the INNER type (as <Inner as Deserialize>::deserialize does), not as a wider / other type"); } }\n' if d.family in ('int', 'float') or (d.generics and d.inner == 'T') else '') +
            '        if mode == 0 {\n'
            '            if !ok { assert!(matches!(r, Err(sfmt::DErr::Inner)), "a failing inner value fails deserialization with the inner error"); }\n'
            '            else {\n')
    if d.has_validation:
        body += ('                match (r, %s::try_new(raw)) {\n' % R +
                 '                    (Ok(v), Ok(e)) => assert!(%s == %s, "deserialized value == constructor\'s value (sanitized)"),\n' % (bits(d, 'v.into_inner()'), bits(d, 'e')) +
                 '                    (Err(sfmt::DErr::Custom), Err(_)) => {},\n'
                 '                    _ => assert!(false, "deserialization succeeds exactly when the constructor accepts the carried value"),\n'
                 '                }\n')
    else:
        body += ('                match r { Ok(v) => assert!(%s == %s, "deserialized value == new(carried value)"), Err(_) => assert!(false, "a valid document must deserialize") }\n'
                 % (bits(d, 'v.into_inner()'), bits(d, '%s::sanitize(raw)' % R)))
    body += ('            }\n'
             '        } else {\n'
             '            assert!(r.is_err(), "a document that is not a newtype struct around the inner value is rejected");\n'
             '        }\n')
    what = 'Deserialize::deserialize' + ('' if concrete is None else '(%s)' % concrete[3]) + (' [protocol-following documents only]' if only_protocol else '')
    return Harness(d, what, props, body, bounded=bounded,
                   clause='deserialize(doc) is Ok(v) <=> the carried inner value deserializes and try_new(it) == Ok(v); otherwise Err')


def h_deserialize_in_place(d: Decl, props, concrete=None, bounded=None):
    """C04/C05: `Deserialize::deserialize_in_place` (public, safe, doc-hidden; serde's own Vec/Option
    impls forward to it) on an EXISTING valid value: afterwards the value is still one the constructor
    would return (valid, sanitized), and on success it is the constructor's value for the carried
    inner value."""
    S = concrete_self(d)
    R = 'ref_' + d.id
    if concrete is None:
        val = anyval(d, 'raw') + anyval(d, 'old')
        mode = '        let mode: u8 = 0;\n        let ok: bool = kani::any();\n'
        oldv = 'old'
    else:
        val = '        let raw: String = String::from(%s);\n        let old: String = String::from(%s);\n' % (concrete[0], concrete[1])
        mode = '        let mode: u8 = 0;\n        let ok: bool = %s;\n' % concrete[2]
        oldv = 'old'
    mk_place = ('        let mut place: %s = match %s::%s(%s) { %s };\n'
                % (S, S, 'try_new' if d.has_validation else 'new', oldv,
                   'Ok(v) => v, Err(_) => { kani::assume(false); unreachable!() }' if d.has_validation else 'v => v'))
    if not d.has_validation:
        mk_place = '        let mut place: %s = %s::new(%s);\n' % (S, S, oldv)
    body = (sym_setup(d) + val + mode + mk_place +
            '        unsafe { sfmt::EXPECT_NAME = "%s"; sfmt::NEWTYPE_CALLS = 0; sfmt::SEEN_NAME_OK = false; }\n' % d.name +
            '        let r = <%s as serde::Deserialize>::deserialize_in_place(sfmt::Fmt { v: raw%s, ok, mode }, &mut place);\n' % (S, '.clone()' if d.family == 'string' else '') +
            '        let now = place.into_inner();\n')
    idem = not any(sa.fn is not None and sa.fn.name.startswith('san3') for sa in d.sanitizers)
    cl = '.clone()' if d.family == 'string' else ''
    if d.has_validation:
        body += '        assert!(%s::valid(&now), "after deserialize_in_place (Ok or Err) the existing value still satisfies every declared validator");\n' % R
    if idem:
        body += ('        assert!(%s == %s, "after deserialize_in_place the existing value is still sanitized");\n'
                 % (bits(d, '%s::sanitize(now%s)' % (R, cl)), bits(d, 'now')))
    if d.has_validation:
        body += ('        if ok { match (r, %s::try_new(raw)) {\n' % R +
                 '            (Ok(()), Ok(e)) => assert!(%s == %s, "in-place deserialized value == constructor\'s value"),\n' % (bits(d, 'now'), bits(d, 'e')) +
                 '            (Err(_), Err(_)) => {},\n'
                 '            _ => assert!(false, "deserialize_in_place succeeds exactly when the constructor accepts the carried value"),\n'
                 '        } } else { assert!(r.is_err(), "a failing inner value fails deserialize_in_place"); }\n')
    else:
        body += ('        if ok { assert!(r.is_ok() && %s == %s, "in-place deserialized value == new(carried value)"); } else { assert!(r.is_err(), "a failing inner value fails deserialize_in_place"); }\n'
                 % (bits(d, 'now'), bits(d, '%s::sanitize(raw)' % R)))
    what = 'Deserialize::deserialize_in_place' + ('' if concrete is None else '(%s)' % concrete[3])
    return Harness(d, what, props, body, bounded=bounded,
                   clause='deserialize_in_place(doc, &mut v) leaves v a value the constructor would return; on Ok it is try_new(carried value)')


def h_serialize(d: Decl, props, concrete=None, bounded=None):
    S = concrete_self(d)
    I = concrete_inner(d)
    from .kani_serde import PRIM_KIND
    if concrete is None:
        pre = sym_setup(d) + anyval(d) + obtain(d, 'v', 'raw')
        kind = PRIM_KIND[I]
        if d.family == 'float':
            bits_e = 'ref_%s::sanitize(raw).to_bits() as u128' % d.id
        else:
            ub = {'i8': 'u8', 'i16': 'u16', 'i32': 'u32', 'i64': 'u64', 'i128': 'u128'}.get(I)
            bits_e = ('ref_%s::sanitize(raw) as %s as u128' % (d.id, ub)) if ub else 'ref_%s::sanitize(raw) as u128' % d.id
        what = 'Serialize::serialize'
    else:
        pre = '        let raw = String::from(%s);\n' % concrete[0] + obtain(d, 'v', 'raw.clone()')
        kind = 15
        bits_e = ('{ let s = ref_%s::sanitize(raw.clone()); let b = s.as_bytes(); let mut acc: u128 = b.len() as u128; let mut i = 0; '
                  'while i < b.len() && i < 8 { acc = acc * 257 + b[i] as u128; i += 1; } acc }' % d.id)
        what = 'Serialize::serialize(%s)' % concrete[1]
    body = (pre +
            '        unsafe { sfmt::EXPECT_NAME = "%s"; sfmt::SER_FAIL = kani::any(); }\n' % d.name +
            '        let r = serde::Serialize::serialize(&v, sfmt::RecSer { depth: 0 });\n'
            '        if unsafe { sfmt::SER_FAIL } { assert!(matches!(r, Err(sfmt::DErr::Inner)), "the serializer\'s error is passed through"); }\n'
            '        else {\n'
            '            let expect = sfmt::Rec { newtype_calls: 1, name_ok: true, prim_kind: %d, bits: %s, other_calls: 0 };\n' % (kind, bits_e) +
            '            assert!(r == Ok(expect), "exactly serialize_newtype_struct(type name, &stored inner value)");\n'
            '        }\n')
    return Harness(d, what, props, body, bounded=bounded,
                   clause='serialize(v) == serializer.serialize_newtype_struct("X", &v.inner) — one call, stored value bit-exact, result passed through')


def h_roundtrip(d: Decl, props):
    """C10: serialize, hand the recorded inner value back through the protocol-following format, deserialize."""
    S = concrete_self(d)
    I = concrete_inner(d)
    if d.family == 'float':
        back = '%s::from_bits(rec.bits as %s)' % (I, 'u32' if I == 'f32' else 'u64')
    else:
        back = 'rec.bits as %s' % I
    body = (sym_setup(d) + anyval(d) + obtain(d, 'v', 'raw') +
            '        unsafe { sfmt::EXPECT_NAME = "%s"; sfmt::SER_FAIL = false; sfmt::NEWTYPE_CALLS = 0; sfmt::SEEN_NAME_OK = false; }\n' % d.name +
            '        let rec = serde::Serialize::serialize(&v, sfmt::RecSer { depth: 0 }).unwrap();\n'
            '        let inner_back: %s = %s;\n' % (I, back) +
            '        let r = <%s as serde::Deserialize>::deserialize(sfmt::Fmt { v: inner_back, ok: true, mode: 0 });\n' % S +
            '        unsafe { assert!(rec.name_ok && sfmt::SEEN_NAME_OK, \"Deserialize asks for the newtype struct under the name Serialize wrote (formats that carry struct names compare them)\"); }\n'
            '        match r { Ok(w) => assert!(%s == %s, "deserialize(serialize(v)) == v"), Err(_) => assert!(false, "a serialized valid value must deserialize") }\n'
            % (bits(d, 'w.into_inner()'), bits(d, 'v.into_inner()')))
    return Harness(d, 'serde round trip', props, body, clause='forall obtainable v: deserialize(serialize(v)) == Ok(v) through a format that round-trips the inner value')


def h_roundtrip_concrete(d: Decl, props, lit, tag):
    """round trip of one concrete value (used where the symbolic round trip may time out)"""
    S = concrete_self(d)
    I = concrete_inner(d)
    body = ('        let raw: %s = %s;\n' % (I, lit) + obtain(d, 'v', 'raw') +
            '        unsafe { sfmt::EXPECT_NAME = "%s"; sfmt::SER_FAIL = false; sfmt::NEWTYPE_CALLS = 0; sfmt::SEEN_NAME_OK = false; }\n' % d.name +
            '        let rec = serde::Serialize::serialize(&v, sfmt::RecSer { depth: 0 }).unwrap();\n'
            '        let inner_back: %s = rec.bits as %s;\n' % (I, I) +
            '        let r = <%s as serde::Deserialize>::deserialize(sfmt::Fmt { v: inner_back, ok: true, mode: 0 });\n' % S +
            '        unsafe { assert!(rec.name_ok && sfmt::SEEN_NAME_OK, \"Deserialize asks for the newtype struct under the name Serialize wrote (formats that carry struct names compare them)\"); }\n'
            '        match r { Ok(w) => assert!(w.into_inner() == raw, "deserialize(serialize(v)) == v"), Err(_) => assert!(false, "a serialized valid value must deserialize") }\n')
    return Harness(d, 'serde round trip (%s)' % tag, props, body, bounded='one concrete value: %s' % lit,
                   clause='deserialize(serialize(v)) == Ok(v)')


def h_roundtrip_string(d: Decl, props, lit, tag, bounded):
    S = concrete_self(d)
    body = ('        let raw = String::from(%s);\n' % lit + obtain(d, 'v', 'raw.clone()') +
            '        unsafe { sfmt::EXPECT_NAME = "%s"; sfmt::SER_FAIL = false; sfmt::NEWTYPE_CALLS = 0; sfmt::SEEN_NAME_OK = false; sfmt::LAST_STR = None; }\n' % d.name +
            '        let rec = serde::Serialize::serialize(&v, sfmt::RecSer { depth: 0 }).unwrap();\n'
            '        let carried: String = unsafe { sfmt::LAST_STR.take() }.unwrap();\n'
            '        let r = <%s as serde::Deserialize>::deserialize(sfmt::Fmt { v: carried, ok: true, mode: 0 });\n' % S +
            '        unsafe { assert!(rec.name_ok && sfmt::SEEN_NAME_OK, \"Deserialize asks for the newtype struct under the name Serialize wrote (formats that carry struct names compare them)\"); }\n'
            '        match r { Ok(w) => assert!(w.into_inner() == v.into_inner(), "deserialize(serialize(v)) == v"), Err(_) => assert!(false, "a serialized valid value must deserialize") }\n')
    return Harness(d, 'serde round trip (%s)' % tag, props, body, bounded=bounded,
                   clause='deserialize(serialize(v)) == Ok(v) through a format that hands the string back as an owned string (as JSON does for escaped text)')


def serde_decls(tier='quick'):
    out = []
    types = (INT_TYPES + FLOAT_TYPES) if tier == 'thorough' else ['i32', 'u8', 'i64', 'u16', 'f32', 'f64']
    types = [t for t in types if t not in ('usize', 'isize', 'i128', 'u128')]
    sd = ['Debug', 'Serialize', 'Deserialize']
    for t in types:
        fl = t in FLOAT_TYPES
        fam = 'float' if fl else 'int'
        bl, n1 = aux.sym_bound('lo', t)
        bu, n2 = aux.sym_bound('hi', t)
        s, n5 = aux.custom('san', t)
        vals = [Validator('greater_or_equal', bl), Validator('less', bu)]
        if fl:
            vals = [Validator('finite')] + vals
        out.append(mk('sd_%s_nov' % t, fam, t, derives=sd))
        out.append(mk('sd_%s_val' % t, fam, t, validators=vals, aux=[n1, n2], derives=sd))
        out.append(mk('sd_%s_san_val' % t, fam, t, sanitizers=[Sanitizer('with', s)], validators=[vals[-1]], aux=[n2, n5], derives=sd))
        out.append(mk('sd_%s_san_nov' % t, fam, t, sanitizers=[Sanitizer('with', s)], aux=[n5], derives=sd))
        v, n4 = aux.custom('vfn', t)
        out.append(mk('sd_%s_custom' % t, fam, t, custom_validation=v, custom_error='MyErr', aux=[n4, 'MyErr'], derives=sd))
        s3, n6 = aux.custom('san3', t)
        out.append(mk('sd_%s_san3_val' % t, fam, t, sanitizers=[Sanitizer('with', s3)], validators=[vals[-1]], aux=[n2, n6], derives=sd))
        if fl:
            out.append(mk('sd_%s_bounds_nofinite' % t, fam, t, validators=[Validator('greater_or_equal', bl)], aux=[n1], derives=sd))
            # the serde impls next to the OTHER derivable traits (a generator may key on them): Eq/Ord need `finite`
            out.append(mk('sd_%s_fin_eq' % t, fam, t, validators=[Validator('finite')], derives=sd + ['PartialEq', 'Eq', 'PartialOrd', 'Ord']))
            out.append(mk('sd_%s_fin_bounds_eq' % t, fam, t, validators=vals, aux=[n1, n2], derives=sd + ['Clone', 'Copy', 'PartialEq', 'Eq']))
        else:
            out.append(mk('sd_%s_val_eq_hash' % t, fam, t, validators=vals, aux=[n1, n2], derives=sd + ['Clone', 'Copy', 'PartialEq', 'Eq', 'PartialOrd', 'Ord', 'Hash']))
    out += generic_decls('sd', sd)
    # 128-bit integers: their Deserialize harness is restricted to protocol-following documents
    # (the protocol-violating modes time out in CBMC for 128-bit visitors)
    for t in ['i128', 'u128']:
        bl, n1 = aux.sym_bound('lo', t)
        bu, n2 = aux.sym_bound('hi', t)
        out.append(mk('sd_%s_nov' % t, 'int', t, derives=sd))
        out.append(mk('sd_%s_val' % t, 'int', t, validators=[Validator('greater_or_equal', bl), Validator('less', bu)], aux=[n1, n2], derives=sd))
    for d in out:
        d.verus = False
        d.kani = True
    return out


def serialize_only_decls(tier='quick'):
    """`derive(Serialize)` WITHOUT `Deserialize`: the Serialize impl must not depend on the other derive"""
    out = []
    so = ['Debug', 'Serialize']
    for t in (['i32', 'u64', 'f64'] if tier == 'quick' else ['i32', 'u8', 'i64', 'u64', 'f32', 'f64']):
        fl = t in FLOAT_TYPES
        fam = 'float' if fl else 'int'
        bu, n2 = aux.sym_bound('hi', t)
        s, n5 = aux.custom('san', t)
        out.append(mk('sdo_%s_nov' % t, fam, t, derives=so))
        out.append(mk('sdo_%s_san_val' % t, fam, t, sanitizers=[Sanitizer('with', s)], validators=[Validator('less', bu)], aux=[n2, n5], derives=so))
    out += generic_decls('sdo', so, with_validation=False)
    for d in out:
        d.verus = False
        d.kani = True
    return out


def serde_string_decls():
    out = [mk('sd_str_tr_max', 'string', 'String', sanitizers=[Sanitizer('trim')], validators=[Validator('len_char_max', aux.lit_bound(2))],
              derives=['Debug', 'Serialize', 'Deserialize']),
           mk('sd_str_tr_nov', 'string', 'String', sanitizers=[Sanitizer('trim')], derives=['Debug', 'Serialize', 'Deserialize']),
           mk('sd_str_nos_max', 'string', 'String', validators=[Validator('len_char_max', aux.lit_bound(4))], derives=['Debug', 'Serialize', 'Deserialize']),
           mk('sd_str_nothing', 'string', 'String', derives=['Debug', 'Serialize', 'Deserialize']),
           # a rule that the EMPTY string violates (what `mem::take` leaves behind)
           mk('sd_str_tr_ne_min', 'string', 'String', sanitizers=[Sanitizer('trim')], validators=[Validator('not_empty'), Validator('len_char_min', aux.lit_bound(1)), Validator('len_char_max', aux.lit_bound(4))],
              derives=['Debug', 'Serialize', 'Deserialize'])]
    for d in out:
        d.verus = False
        d.kani = True
    return out


def int_valid_range_code(d: Decl):
    """Rust statements computing `vmin`/`vmax: Option<T>` — the ends of the valid set read off the
    declaration (None = empty set on that side)."""
    t = d.inner
    out = '        let mut vmin: Option<%s> = Some(%s::MIN); let mut vmax: Option<%s> = Some(%s::MAX);\n' % (t, t, t, t)
    for v in d.validators:
        b = v.bound.ref if v.bound else None
        if v.kind == 'greater':
            out += '        { let c: Option<%s> = (%s).checked_add(1); vmin = match (vmin, c) { (Some(a), Some(b)) => Some(if a > b { a } else { b }), _ => None }; }\n' % (t, b)
        elif v.kind == 'greater_or_equal':
            out += '        { let b: %s = %s; vmin = vmin.map(|a| if a > b { a } else { b }); }\n' % (t, b)
        elif v.kind == 'less':
            out += '        { let c: Option<%s> = (%s).checked_sub(1); vmax = match (vmax, c) { (Some(a), Some(b)) => Some(if a < b { a } else { b }), _ => None }; }\n' % (t, b)
        elif v.kind == 'less_or_equal':
            out += '        { let b: %s = %s; vmax = vmax.map(|a| if a < b { a } else { b }); }\n' % (t, b)
    out += '        kani::assume(vmin.is_some() && vmax.is_some() && vmin.unwrap() <= vmax.unwrap());   // the valid set is non-empty\n'
    return out


def h_arbitrary_take_rest(d: Decl, props):
    """`Arbitrary::arbitrary_take_rest` (provided method; a generator may override it): same guarantee"""
    S = concrete_self(d)
    t = d.inner
    sz = (INT_BITS_OF[t] // 8) if d.family == 'int' else (4 if t == 'f32' else 8)
    n = sz + 1 if d.family == 'int' else 2 * sz + 1
    pre = sym_setup(d)
    if d.family == 'int':
        pre += int_valid_range_code(d) if not d.sanitizers else ''
    elif any(x.startswith('sym_') for x in d.aux):
        pre += '        kani::assume(sym_lo_%s().is_finite() && sym_hi_%s().is_finite() && { let w: %s = kani::any(); !w.is_nan() && ref_%s::valid(&w) });\n' % (t, t, t, d.id)
    body = (pre +
            '        let bytes: [u8; %d] = kani::any();\n        let len: usize = kani::any();\n        kani::assume(len <= %d);\n' % (n, n) +
            '        let u = arbitrary::Unstructured::new(&bytes[..len]);\n'
            '        match <%s as arbitrary::Arbitrary>::arbitrary_take_rest(u) {\n' % S +
            '            Ok(v) => { let i = v.into_inner(); assert!(ref_%s::valid(&i), "arbitrary_take_rest() yields only values the validators accept"); }\n' % d.id +
            '            Err(_) => {}\n        }\n')
    return Harness(d, 'Arbitrary::arbitrary_take_rest', props, body, attrs='#[kani::unwind(%d)]\n    ' % (n + 3),
                   clause='forall byte strings: arbitrary_take_rest(u) is Err or Ok(v) with v valid; no panic')


def h_arbitrary_int(d: Decl, props):
    S = concrete_self(d)
    t = d.inner
    sz = INT_BITS_OF[t] // 8
    n = sz + 1
    body = (sym_setup(d) + (int_valid_range_code(d) if not d.sanitizers else '') +
            '        let bytes: [u8; %d] = kani::any();\n        let len: usize = kani::any();\n        kani::assume(len <= %d);\n' % (n, n) +
            '        let mut u = arbitrary::Unstructured::new(&bytes[..len]);\n'
            '        match <%s as arbitrary::Arbitrary>::arbitrary(&mut u) {\n' % S +
            '            Ok(v) => { let i = v.into_inner(); assert!(ref_%s::valid(&i), "arbitrary() yields only values the validators accept"); }\n' % d.id +
            '            Err(_) => {}\n        }\n'
            '        assert!(len - u.len() <= %d, "consumes at most size_of::<T>() bytes (so longer inputs behave identically)");\n' % sz)
    return Harness(d, 'Arbitrary::arbitrary', props, body, attrs='#[kani::unwind(%d)]\n    ' % (n + 2),
                   clause='forall byte strings: arbitrary(u) is Err or Ok(v) with v valid; no panic; reads <= size_of::<T>() bytes')


def h_arbitrary_int_surjective(d: Decl, props):
    """C14: forall valid target exists bytes: arbitrary(bytes) == target. Skolem witness: the big-endian
    bytes of (target - min_valid) over as many bytes as int_in_range consumes for the range width."""
    S = concrete_self(d)
    t = d.inner
    bits_n = INT_BITS_OF[t]
    sz = bits_n // 8
    U = 'u%d' % bits_n if t not in ('usize', 'isize') else 'usize'
    body = (sym_setup(d) + int_valid_range_code(d) +
            '        let (vmin, vmax) = (vmin.unwrap(), vmax.unwrap());\n'
            '        let target: %s = kani::any();\n        kani::assume(ref_%s::valid(&target));\n' % (t, d.id) +
            '        let delta: %s = (vmax as %s).wrapping_sub(vmin as %s);\n' % (U, U, U) +
            '        let offset: %s = (target as %s).wrapping_sub(vmin as %s);\n' % (U, U, U) +
            '        let mut k: usize = 0;\n'
            '        while k < %d && (delta >> ((k * 8) as u32)) > 0 { k += 1; }\n' % sz +
            '        let mut bytes = [0u8; %d];\n' % sz +
            '        let mut i: usize = 0;\n'
            '        while i < k { bytes[i] = (offset >> (((k - 1 - i) * 8) as u32)) as u8; i += 1; }\n'
            '        let mut u = arbitrary::Unstructured::new(&bytes[..k]);\n'
            '        match <%s as arbitrary::Arbitrary>::arbitrary(&mut u) {\n' % S +
            '            Ok(v) => assert!(v.into_inner() == target, "every valid value is produced by some byte input"),\n'
            '            Err(_) => assert!(false, "the witness bytes must produce the target"),\n        }\n')
    return Harness(d, 'Arbitrary surjective', props, body, attrs='#[kani::unwind(%d)]\n    ' % (sz + 3),
                   clause='forall valid target: arbitrary(BE bytes of (target - min_valid)) == Ok(target)  (range of the generator == valid set)')


INT_BITS_OF = {'u8': 8, 'u16': 16, 'u32': 32, 'u64': 64, 'u128': 128, 'usize': 64, 'i8': 8, 'i16': 16, 'i32': 32, 'i64': 64, 'i128': 128, 'isize': 64}


def h_arbitrary_float(d: Decl, props, nbytes=None, unwind=None, assume_bounds=None, tag=''):
    S = concrete_self(d)
    t = d.inner
    sz = 4 if t == 'f32' else 8
    n = nbytes or (2 * sz + 1)
    pre = sym_setup(d)
    if assume_bounds:
        pre += '        kani::assume(%s);\n' % assume_bounds
    body = (pre +
            '        let bytes: [u8; %d] = kani::any();\n        let len: usize = kani::any();\n        kani::assume(len <= %d);\n' % (n, n) +
            '        let mut u = arbitrary::Unstructured::new(&bytes[..len]);\n'
            '        match <%s as arbitrary::Arbitrary>::arbitrary(&mut u) {\n' % S +
            '            Ok(v) => { let i = v.into_inner(); assert!(ref_%s::valid(&i), "arbitrary() yields only values the validators accept"); }\n' % d.id +
            '            Err(_) => {}\n        }\n')
    return Harness(d, 'Arbitrary::arbitrary' + tag, props, body, attrs='#[kani::unwind(%d)]\n    ' % (unwind or (n + 3)),
                   clause='forall byte strings: arbitrary(u) terminates, is Err or Ok(v) with v valid; no panic')


def h_arbitrary_any(d: Decl, props):
    """other/generic inner types: arbitrary() == new(<Inner as Arbitrary>::arbitrary(same bytes))"""
    S = concrete_self(d)
    I = concrete_inner(d)
    body = ('        let bytes: [u8; 5] = kani::any();\n        let len: usize = kani::any();\n        kani::assume(len <= 5);\n'
            '        let mut u = arbitrary::Unstructured::new(&bytes[..len]);\n'
            '        let mut u2 = arbitrary::Unstructured::new(&bytes[..len]);\n'
            '        let got = <%s as arbitrary::Arbitrary>::arbitrary(&mut u);\n' % S +
            '        let inner = <%s as arbitrary::Arbitrary>::arbitrary(&mut u2);\n' % I +
            '        match (got, inner) {\n'
            '            (Ok(v), Ok(raw)) => assert!(v.into_inner() == ref_%s::sanitize(raw), "arbitrary() == new(inner arbitrary value): the sanitizers are applied"),\n' % d.id +
            '            (Err(_), Err(_)) => {},\n'
            '            _ => assert!(false, "arbitrary() fails exactly when the inner type\'s arbitrary() fails"),\n        }\n')
    return Harness(d, 'Arbitrary::arbitrary', props, body, attrs='#[kani::unwind(8)]\n    ',
                   clause='forall byte strings: arbitrary(u) == <Inner>::arbitrary(u).map(new)   (no validation is possible for other types)')


def arbitrary_int_decls(tier='quick'):
    out = []
    types = INT_TYPES if tier == 'thorough' else ['u8', 'i8', 'i16', 'u32', 'i32', 'i64', 'usize', 'isize']
    for t in types:
        T = t.upper()
        der = ['Debug', 'Arbitrary']
        for k in ('greater', 'greater_or_equal'):
            b, n = aux.sym_bound('lo', t)
            out.append(mk('arb_%s_%s_sym' % (t, k), 'int', t, validators=[Validator(k, b)], aux=[n], derives=der))
        for k in ('less', 'less_or_equal'):
            b, n = aux.sym_bound('hi', t)
            out.append(mk('arb_%s_%s_sym' % (t, k), 'int', t, validators=[Validator(k, b)], aux=[n], derives=der))
        for lo in ('greater', 'greater_or_equal'):
            for up in ('less', 'less_or_equal'):
                bl, n1 = aux.sym_bound('lo', t)
                bu, n2 = aux.sym_bound('hi', t)
                out.append(mk('arb_%s_%s_%s_sym' % (t, lo, up), 'int', t, validators=[Validator(lo, bl), Validator(up, bu)], aux=[n1, n2], derives=der))
        out.append(mk('arb_%s_nov' % t, 'int', t, derives=der))
        out.append(mk('arb_%s_lit_narrow' % t, 'int', t, validators=[Validator('greater', aux.lit_bound(3, t)), Validator('less_or_equal', aux.lit_bound(7, t))], derives=der))
        out.append(mk('arb_%s_lit_minmax' % t, 'int', t, validators=[Validator('greater_or_equal', Bound('%s::MIN' % t, '', '%s::MIN' % t)), Validator('less_or_equal', Bound('%s::MAX' % t, '', '%s::MAX' % t))], derives=der))
        # expression-valued bounds: shift / arithmetic (the generator adds +1 / -1 to the spliced expression)
        one = 'ONE_%s' % T
        out.append(mk('arb_%s_expr_shift_less' % t, 'int', t, validators=[Validator('less', Bound('%s << 3' % one, '', '(%s << 3)' % one))], aux=[one], derives=der))
        out.append(mk('arb_%s_expr_shift_greater' % t, 'int', t, validators=[Validator('greater', Bound('%s << 3' % one, '', '(%s << 3)' % one)), Validator('less', Bound('%s << 5' % one, '', '(%s << 5)' % one))], aux=[one], derives=der))
        out.append(mk('arb_%s_expr_arith' % t, 'int', t, validators=[Validator('greater', Bound('%s * 4 - 2' % one, '', '(%s * 4 - 2)' % one)), Validator('less', Bound('%s + 8' % one, '', '(%s + 8)' % one))], aux=[one], derives=der))
        K = 'K_%s' % T
        out.append(mk('arb_%s_expr_bitand_greater' % t, 'int', t, validators=[Validator('greater', Bound('%s & 0x0E' % K, '', '(%s & 0x0E)' % K)), Validator('less', Bound('%s | 0x40' % K, '', '(%s | 0x40)' % K))], aux=[K], derives=der))
        out.append(mk('arb_%s_expr_xor_less' % t, 'int', t, validators=[Validator('less', Bound('%s ^ 0x10' % K, '', '(%s ^ 0x10)' % K))], aux=[K], derives=der))
        if t == 'u8':
            out.append(mk('arb_u8_userconst_max', 'int', t, validators=[Validator('greater', Bound('MAX - 10', '', '(MAX - 10)'))], aux=['USER_MAX_U8'], derives=der))
        if t == 'i16':
            out.append(mk('arb_i16_userconst_min', 'int', t, validators=[Validator('less_or_equal', Bound('MIN + 50', '', '(MIN + 50)'))], aux=['USER_MIN_I16'], derives=der))
        # bounds made of UNTYPED literals only: they take the inner type in the validator, so the
        # generator must evaluate them as the inner type too (not as i32)
        if INT_BITS_OF[t] >= 64:
            out.append(mk('arb_%s_untyped_shl31' % t, 'int', t,
                          validators=[Validator('greater_or_equal', Bound('(1 << 31)', '', '((1 as %s) << 31)' % t)),
                                      Validator('less_or_equal', Bound('(1 << 31) + 100', '', '(((1 as %s) << 31) + 100)' % t))], derives=der))
            out.append(mk('arb_%s_untyped_shl31_ge' % t, 'int', t,
                          validators=[Validator('greater_or_equal', Bound('(1 << 31)', '', '((1 as %s) << 31)' % t))], derives=der))
        out.append(mk('arb_%s_untyped_not_shr' % t, 'int', t, validators=[Validator('less_or_equal', Bound('!0 >> 1', '', '(!(0 as %s) >> 1)' % t))], derives=der))
        # custom sanitizer with validation (accepted by the macro for integers)
        s3, n3 = aux.custom('san3', t)
        dd = mk('arb_%s_san3_le12' % t, 'int', t, sanitizers=[Sanitizer('with', s3)], validators=[Validator('less_or_equal', aux.lit_bound(12, t))], aux=[n3], derives=der)
        dd.expect_reject = True   # rejected at compile time since fix f2b529d; if accepted again, the harness decides
        out.append(dd)
        s, n5 = aux.custom('san', t)
        out.append(mk('arb_%s_san_nov' % t, 'int', t, sanitizers=[Sanitizer('with', s)], aux=[n5], derives=der))
    for d in out:
        d.verus = False
        d.kani = True
    return out


def arbitrary_float_decls(tier='quick'):
    out = []
    der = ['Debug', 'Arbitrary']
    for t in FLOAT_TYPES:
        fin = Validator('finite')

        def lit(v):
            return Bound(v, '', '(%s as %s)' % (v, t))
        out.append(mk('arbf_%s_nov' % t, 'float', t, derives=der))
        out.append(mk('arbf_%s_finite' % t, 'float', t, validators=[fin], derives=der))
        shapes = [('ge0', [('greater_or_equal', '0.0')]), ('gt0', [('greater', '0.0')]), ('le0', [('less_or_equal', '0.0')]), ('lt0', [('less', '0.0')]),
                  ('ge0_le1', [('greater_or_equal', '0.0'), ('less_or_equal', '1.0')]), ('gt0_lt1', [('greater', '0.0'), ('less', '1.0')]),
                  ('ge0_lt1', [('greater_or_equal', '0.0'), ('less', '1.0')]), ('gt0_le1', [('greater', '0.0'), ('less_or_equal', '1.0')]),
                  ('gem5_le5', [('greater_or_equal', '-5.0'), ('less_or_equal', '5.0')]), ('gtm5_lt5', [('greater', '-5.0'), ('less', '5.0')]),
                  ('gt10', [('greater', '10.0')]), ('lt100', [('less', '100.0')]), ('gt100_lt200', [('greater', '100.0'), ('less', '200.0')]),
                  ('ge1e30_le2e30', [('greater_or_equal', '1e30'), ('less_or_equal', '2e30')]), ('gt1e30', [('greater', '1e30')])]
        for tag, vs in shapes:
            vals = [Validator(k, lit(b)) for k, b in vs]
            out.append(mk('arbf_%s_%s' % (t, tag), 'float', t, validators=vals, derives=der))
            out.append(mk('arbf_%s_fin_%s' % (t, tag), 'float', t, validators=[fin] + vals, derives=der))
        # symbolic bounds
        for lo in ('greater', 'greater_or_equal'):
            for up in ('less', 'less_or_equal'):
                bl, n1 = aux.sym_bound('lo', t)
                bu, n2 = aux.sym_bound('hi', t)
                out.append(mk('arbf_%s_%s_%s_sym' % (t, lo, up), 'float', t, validators=[Validator(lo, bl), Validator(up, bu)], aux=[n1, n2], derives=der))
        # symbolic bounds together with `finite`, and one-sided symbolic bounds
        for lo in ('greater', 'greater_or_equal'):
            bl, n1 = aux.sym_bound('lo', t)
            bu, n2 = aux.sym_bound('hi', t)
            up = 'less' if lo == 'greater' else 'less_or_equal'
            out.append(mk('arbf_%s_fin_%s_%s_sym' % (t, lo, up), 'float', t, validators=[fin, Validator(lo, bl), Validator(up, bu)], aux=[n1, n2], derives=der))
            out.append(mk('arbf_%s_fin_%s_sym' % (t, lo), 'float', t, validators=[Validator(lo, bl), fin], aux=[n1, n2], derives=der))
            out.append(mk('arbf_%s_fin_%s_sym' % (t, up), 'float', t, validators=[fin, Validator(up, bu)], aux=[n1, n2], derives=der))
            out.append(mk('arbf_%s_%s_only_sym' % (t, lo), 'float', t, validators=[Validator(lo, bl)], aux=[n1, n2], derives=der))
        s, n5 = aux.custom('san', t)
        out.append(mk('arbf_%s_san_nov' % t, 'float', t, sanitizers=[Sanitizer('with', s)], aux=[n5], derives=der))
    for d in out:
        d.verus = False
        d.kani = True
    return out


# ------------------------------------------------------------------------------ crate + run
def crate_text(decls, harnesses, extra_items='', features=()):
    names = []
    for d in decls:
        names.extend(d.aux)
    out = ['#![allow(dead_code, unused_imports, unused_variables, unused_mut, static_mut_refs, non_snake_case, non_upper_case_globals, unused_unsafe, overflowing_literals, clippy::all)]\n',
           'use nutype::nutype;\n', aux.render(names, 'kani'), '\n']
    for d in decls:
        out.append('pub mod d_%s {\n    use super::*;\n%s}\n' % (d.id, ''.join('    ' + l + '\n' for l in d.source().splitlines())))
        out.append('pub use d_%s::*;\n' % d.id)
        out.append(ref_module(d))
    out.append(extra_items)
    out.append('#[cfg(kani)]\nmod harness {\n    use super::*;\n')
    for h in harnesses:
        out.append(h.text())
    out.append('}\n')
    return ''.join(out)


def write_crate(tag, text, features=('serde', 'arbitrary'), deps=('serde', 'arbitrary'), release_like=False):
    crate = os.path.join(pipeline.WORK, 'kani_' + tag)
    os.makedirs(os.path.join(crate, 'src'), exist_ok=True)
    dep_lines = ''
    if 'serde' in deps:
        dep_lines += 'serde = { version = "1", default-features = false, features = ["std"] }\n'
    if 'arbitrary' in deps:
        dep_lines += 'arbitrary = "1"\n'
    with open(os.path.join(crate, 'Cargo.toml'), 'w') as f:
        f.write('[package]\nname = "nutype_verif_kani_%s"\nversion = "0.0.0"\nedition = "2021"\n\n[workspace]\n\n'
                '[dependencies]\nnutype = { path = "%s/nutype", features = %s }\n%s\n'
                '[lints.rust]\nunexpected_cfgs = { level = "allow", check-cfg = [\'cfg(kani)\'] }\n%s'
                % (tag.lower(), pipeline.REPO, json.dumps(sorted(features)), dep_lines,
                   '\n[profile.dev]\ndebug-assertions = false\n' if release_like else ''))
    shutil.copy(os.path.join(pipeline.REPO, 'Cargo.lock'), os.path.join(crate, 'Cargo.lock'))
    with open(os.path.join(crate, 'src', 'lib.rs'), 'w') as f:
        f.write(text)
    return crate


def run_kani(crate, harness_names=None, jobs=14, extra_flags=(), timeout=3000):
    env = dict(pipeline.ENV)
    env['CARGO_TARGET_DIR'] = os.path.join(pipeline.TARGET, 'kani')
    cmd = ['cargo', 'kani', '-j', str(jobs), '--output-format', 'terse'] + KANI_FLAGS + list(extra_flags)
    if harness_names:
        for h in harness_names:
            cmd += ['--harness', h]
    rc, out, err, wall = pipeline.sh(cmd, cwd=crate, env=env, timeout=timeout)
    return rc, out + '\n' + err, wall, ' '.join(cmd[:12]) + ' …'


def kani_counterexample(crate, harness, timeout=600):
    """the verifier's own counterexample: Kani's concrete playback for one failing harness (the concrete
    values of every kani::any() in call order, as Kani prints them) together with the generated unit
    test, so that it can be run natively against the real code (kani_native_playback)"""
    env = dict(pipeline.ENV)
    env['CARGO_TARGET_DIR'] = os.path.join(pipeline.TARGET, 'kani')
    cmd = ['cargo', 'kani', '--harness', harness, '-Z', 'concrete-playback', '--concrete-playback=print', '--output-format', 'terse'] + KANI_FLAGS
    rc, out, err, _ = pipeline.sh(cmd, cwd=crate, env=env, timeout=timeout)
    # one unit test per failing check and per satisfied cover; take the first that belongs to a failing check
    tests = re.findall(r'```\n(.*?)```', out, re.S)
    pick = None
    for t in tests:
        if 'concrete_playback_run' not in t:
            continue
        if re.search(r'Check for `cover`', t):
            continue
        pick = t
        break
    if pick is None:
        return None
    m = re.search(r'let concrete_vals: Vec<Vec<u8>> = vec!\[(.*?)\];', pick, re.S)
    if not m:
        return None
    vals = []
    for line in m.group(1).splitlines():
        line = line.strip()
        if line.startswith('//'):
            vals.append({'value': line[2:].strip()})
        elif line.startswith('vec![') and vals and 'bytes' not in vals[-1]:
            vals[-1]['bytes'] = line.rstrip(',')
    mname = re.search(r'fn (kani_concrete_playback_\w+)\(\)', pick)
    mchk = re.search(r'/// Check for `(\w+)`: "(.*?)"\s*$', pick, re.M)
    return {'values': vals[:40], 'test_name': mname.group(1) if mname else None, 'test_code': pick,
            'failing_check': (mchk.group(1) + ': ' + mchk.group(2)) if mchk else None}


def kani_native_playback(crate, harness, cex, dest, timeout=1200):
    """Replay of the verifier's counterexample against the real code: the harness crate (which invokes the
    real macro of the tree under check) is copied, Kani's generated unit test is inserted next to the
    harness, and `cargo kani playback` compiles it NATIVELY and runs the harness with the concrete values.
    Stubs are not applied in a native run (the real functions are called), contracts are not instrumented.
    Returns {'reproduced': bool|None, ...}; None = the playback could not be built or run."""
    if not cex or not cex.get('test_name') or not cex.get('test_code'):
        return None
    src = os.path.join(crate, 'src', 'lib.rs')
    lines = open(src).read().split('\n')
    idx = next((i for i, l in enumerate(lines) if re.match(r'\s*(pub )?fn %s\s*\(' % re.escape(harness), l)), None)
    if idx is None:
        return None
    j = idx
    while j > 0 and lines[j - 1].strip().startswith('#['):
        j -= 1
    attrs = ' '.join(l.strip() for l in lines[j:idx])
    should_panic = 'kani::should_panic' in attrs
    stubs = re.findall(r'kani::stub(?:_verified)?\(([^)]*)\)', attrs)
    indent = re.match(r'\s*', lines[idx]).group(0)
    test = '\n'.join(indent + l for l in cex['test_code'].strip('\n').split('\n'))
    lines[j:j] = [indent + '// --- inserted: Kani concrete playback of the failing check (verifier counterexample) ---', test]
    shutil.rmtree(dest, ignore_errors=True)
    os.makedirs(os.path.join(dest, 'src'))
    for fn in ('Cargo.toml', 'Cargo.lock'):
        shutil.copy(os.path.join(crate, fn), os.path.join(dest, fn))
    t = open(os.path.join(dest, 'Cargo.toml')).read()
    import hashlib
    uniq = hashlib.sha1(os.path.abspath(dest).encode()).hexdigest()[:10]   # never share target dir + package name between crates
    t = re.sub(r'name = "nutype_verif_kani_(\w+)"', r'name = "nutype_verif_pb_\1_%s"' % uniq, t)
    t = t.replace('[dependencies]', '[lib]\ndoctest = false\n\n[dependencies]', 1)
    open(os.path.join(dest, 'Cargo.toml'), 'w').write(t)
    with open(os.path.join(dest, 'src', 'lib.rs'), 'w') as f:
        f.write('\n'.join(lines))
    return run_native_playback(dest, cex['test_name'], should_panic, stubs, timeout)


def run_native_playback(dest, test_name, should_panic=False, stubs=(), timeout=1200):
    env = dict(pipeline.ENV)
    env['CARGO_TARGET_DIR'] = os.path.join(pipeline.TARGET, 'kani_playback')
    env['RUST_BACKTRACE'] = '0'
    cmd = ['cargo', 'kani', 'playback', '-Z', 'concrete-playback', '--', test_name, '--exact', '--nocapture'] if False else \
          ['cargo', 'kani', 'playback', '-Z', 'concrete-playback', '--', test_name]
    rc, out, err, wall = pipeline.sh(cmd, cwd=dest, env=env, timeout=timeout)
    text = out + '\n' + err
    m = re.search(r'test result: (\w+)\. (\d+) passed; (\d+) failed', text)
    res = {'cmd': 'cd %s && %s' % (dest, ' '.join(cmd)), 'dir': dest, 'test_name': test_name, 'should_panic_harness': should_panic,
           'stubs_not_applied_natively': list(stubs), 'wall_s': round(wall, 1)}
    if not m or (int(m.group(2)) + int(m.group(3))) == 0:
        res.update(reproduced=None, note='native playback did not build or ran no test', tail=text[-1500:])
        return res
    failed = int(m.group(3)) > 0
    pm = re.search(r"panicked at ([^\n]*)\n([^\n]*)", text)
    res['native_panic'] = (pm.group(1) + ' ' + pm.group(2)).strip()[:400] if pm else None
    res['reproduced'] = (not failed) if should_panic else failed
    res['note'] = ('the harness must panic; run natively on the real code with the counterexample it ran to completion' if should_panic and not failed
                   else 'the harness assertion fails natively on the real code with the verifier\'s values' if failed and not should_panic
                   else 'not reproduced natively (stubs / contract instrumentation are not applied in a native run, or the failing check is a Kani-only check)')
    return res


def parse_kani(output):
    """terse -j output -> {harness: {status, failed_checks, covers, time}}"""
    res = {}
    cur_by_thread = {}
    cur = None
    for line in output.splitlines():
        m = re.match(r'(?:Thread (\d+): )?Checking harness ([A-Za-z0-9_:]+)\.\.\.', line)
        if m:
            th = m.group(1) or '0'
            name = m.group(2).split('::')[-1]
            cur_by_thread[th] = name
            res[name] = {'status': 'UNKNOWN', 'failed': [], 'covers': None, 'time': 0.0, 'text': ''}
            cur = name if m.group(1) is None else cur
            continue
        m = re.match(r'Thread (\d+):\s*$', line)
        if m:
            cur = cur_by_thread.get(m.group(1))
            continue
        if cur is None or cur not in res:
            continue
        r = res[cur]
        r['text'] += line + '\n'
        m = re.match(r'Failed Checks: (.*)', line)
        if m:
            r['failed'].append(m.group(1).strip())
        m = re.match(r'\s*\*\* (\d+) of (\d+) cover properties satisfied', line)
        if m:
            r['covers'] = (int(m.group(1)), int(m.group(2)))
        if line.startswith('VERIFICATION:- SUCCESSFUL'):
            r['status'] = 'SUCCESS'
        elif line.startswith('VERIFICATION:- FAILED'):
            r['status'] = 'FAILED'
        m = re.match(r'Verification Time: ([0-9.]+)s', line)
        if m:
            r['time'] = float(m.group(1))
    return res


def kani_run_harnesses(out, prop, tag, decls, harnesses, extra_items='', features=('serde', 'arbitrary'), jobs=14, extra_flags=(), release_like=False):
    if not harnesses:
        return
    t0 = time.time()
    for attempt in range(3):
        text = crate_text(decls, harnesses, extra_items)
        crate = write_crate(tag, text, features=features, release_like=release_like)
        rc, output, wall, cmd = run_kani(crate, jobs=jobs, extra_flags=extra_flags)
        res = parse_kani(output)
        if res or 'error' not in output:
            break
        # the crate does not compile: attribute rustc's errors to declarations, set those aside
        # (undecided for them) and retry with the rest
        lines = text.splitlines()
        bad = set()
        for m in re.finditer(r'-->\s*src/lib\.rs:(\d+):', output):
            ln = int(m.group(1))
            for j in range(min(ln, len(lines)) - 1, -1, -1):
                mm = re.match(r'\s*(?:pub mod (?:d|ref)_([A-Za-z0-9_]+) \{|fn k_([A-Za-z0-9_]+?)__)', lines[j])
                if mm:
                    bad.add(mm.group(1) or mm.group(2))
                    break
        bad = {b for b in bad if any(d.id == b for d in decls)}
        if not bad:
            break
        first_err = re.search(r'error(\[E\d+\])?: (.*)', output)
        for b in sorted(bad):
            out.undecided.append('%s: the harness crate does not compile for this declaration (%s)' % (b, first_err.group(2)[:150] if first_err else ''))
        decls = [d for d in decls if d.id not in bad]
        harnesses = [h for h in harnesses if h.decl.id not in bad]
    out.checker_cmds.append('cargo kani -j %d --output-format terse -Z function-contracts -Z stubbing   (crate work/kani_%s, %d harnesses)' % (jobs, tag, len(harnesses)))
    if not res:
        out.undecided.append('kani crate %s did not build/run: %s' % (tag, output[-1500:]))
        return
    solver_s = 0.0
    nb = 0
    timed_out_decls = {}
    for h in harnesses:
        r = res.get(h.name)
        if r is None or r['status'] == 'UNKNOWN':
            out.undecided.append('kani harness %s produced no verdict' % h.name)
            continue
        solver_s += r['time']
        if h.bounded:
            out.bounded.append('%s (%s): %s' % (h.key, h.bounded, r['status']))
            nb += 1
            if r['status'] == 'FAILED':
                pass   # a bounded stand-in that fails is still a refutation: handled below
            else:
                continue
        else:
            out.obligations += 1
        if r['status'] == 'SUCCESS':
            if not h.should_panic and (r['covers'] is None or r['covers'][0] < 1):
                out.undecided.append('kani harness %s: end of harness not reachable (vacuous)' % h.name)
                continue
            if not h.bounded:
                out.discharged += 1
            if len(out.samples) < 10 and (out.obligations % 17 == 1):
                out.samples.append({'obligation': h.key, 'clause': h.clause, 'declaration': h.decl.source().strip(), 'backend': 'kani'})
        else:
            fc = '; '.join(r['failed'])
            if 'CBMC timed out' in r['text'] or 'CBMC failed' in fc or 'out of memory' in r['text'].lower():
                out.undecided.append('kani harness %s: solver timeout / tool failure (undecided, not a violation)' % h.name)
                timed_out_decls.setdefault(h.decl.id, h.decl)
                if not h.bounded:
                    out.obligations -= 1
                continue
            if r['failed'] and all(('kani_lib.c' in x or 'rust_dealloc' in x or 'free argument' in x or 'double free' in x) for x in r['failed']):
                out.undecided.append('kani harness %s: failure inside Kani\'s own allocator model (tool limit, undecided)' % h.name)
                if not h.bounded:
                    out.obligations -= 1
                continue
            unwind = 'unwinding assertion' in fc
            if unwind and not [x for x in r['failed'] if 'unwinding' not in x]:
                out.undecided.append('kani harness %s: unwinding assertion failed (bound too small)' % h.name)
                if not h.bounded:
                    out.obligations -= 1
                continue
            out.failed.append({'key': h.key, 'backend': 'kani', 'message': fc[:500], 'detail': r['text'][-4000:],
                               'decl': h.decl.id, 'decl_obj': h.decl, 'features': ('serde', 'arbitrary'),
                               'kani_harness': h.name, 'kani_crate': crate})
    # a solver timeout is undecided, never a violation; as a bounded, labelled stand-in the real code of
    # (a few of) those declarations is executed on boundary inputs and only a concrete failing input counts
    if timed_out_decls:
        from . import witness
        from .main import PROP_ENTRIES
        for d in list(timed_out_decls.values())[:4]:
            try:
                wit, wlog = witness.run_witness(d)
            except Exception as e:
                wit = None
            bad = [w for w in (wit or []) if w.get('entry') in PROP_ENTRIES.get(prop, ())]
            if bad:
                out.failed.append({'key': '%s::%s(concrete run, Kani timed out)' % (d.id, bad[0]['entry']), 'backend': 'concrete-fallback (bounded)',
                                   'message': 'real code disagrees with the reference on a concrete input', 'detail': json.dumps(bad[:3]),
                                   'decl': d.id, 'decl_obj': d, 'witness': bad})
        out.bounded.append('concrete fallback for %d declaration(s) whose Kani harness timed out (boundary inputs only)' % min(4, len(timed_out_decls)))
    kv = out.extra.setdefault('kani', {})
    kv.update({'harnesses': len(harnesses), 'bounded_harnesses': nb, 'declarations': len(decls),
               'solver_time_s': round(solver_s, 1), 'wall_s': round(time.time() - t0, 1)})
    out.trusted += [t for t in report.KANI_TRUSTED if t not in out.trusted]


# ------------------------------------------------------------------------------ catalogue (Kani side)
FLOAT_DERIVES = ['Debug', 'Clone', 'Copy', 'PartialEq', 'PartialOrd', 'AsRef', 'Deref', 'Borrow', 'Into', 'TryFrom']


def float_decls(tier='quick'):
    out = []
    for t in FLOAT_TYPES:
        def sb(which):
            return aux.sym_bound(which, t)
        fin = Validator('finite')
        for k in ('greater', 'greater_or_equal'):
            b, n = sb('lo')
            out.append(mk('flt_%s_%s_sym' % (t, k), 'float', t, validators=[Validator(k, b)], aux=[n], derives=FLOAT_DERIVES))
        for k in ('less', 'less_or_equal'):
            b, n = sb('hi')
            out.append(mk('flt_%s_%s_sym' % (t, k), 'float', t, validators=[Validator(k, b)], aux=[n], derives=FLOAT_DERIVES))
        out.append(mk('flt_%s_finite' % t, 'float', t, validators=[fin], derives=FLOAT_DERIVES + ['Eq', 'Ord']))
        for lo in ('greater', 'greater_or_equal'):
            for up in ('less', 'less_or_equal'):
                bl, n1 = sb('lo')
                bu, n2 = sb('hi')
                out.append(mk('flt_%s_%s_%s_sym' % (t, lo, up), 'float', t, validators=[Validator(lo, bl), Validator(up, bu)],
                              aux=[n1, n2], derives=FLOAT_DERIVES))
                out.append(mk('flt_%s_fin_%s_%s_sym' % (t, lo, up), 'float', t, validators=[fin, Validator(lo, bl), Validator(up, bu)],
                              aux=[n1, n2], derives=FLOAT_DERIVES + ['Eq', 'Ord']))
        bl, n1 = sb('lo')
        bu, n2 = sb('hi')
        p, n3 = aux.custom('pred', t)
        out.append(mk('flt_%s_le_ge_fin_sym' % t, 'float', t, validators=[Validator('less_or_equal', bu), Validator('greater_or_equal', bl), fin],
                      aux=[n1, n2], derives=FLOAT_DERIVES + ['Eq', 'Ord']))
        out.append(mk('flt_%s_pred_lt_fin' % t, 'float', t, validators=[Validator('predicate', fn=p), Validator('less', bu), fin],
                      aux=[n2, n3], derives=FLOAT_DERIVES + ['Eq', 'Ord']))
        v, n4 = aux.custom('vfn', t)
        out.append(mk('flt_%s_custom' % t, 'float', t, custom_validation=v, custom_error='MyErr', aux=[n4, 'MyErr'], derives=FLOAT_DERIVES))
        s, n5 = aux.custom('san', t)
        out.append(mk('flt_%s_san_fin_le' % t, 'float', t, sanitizers=[Sanitizer('with', s)], validators=[fin, Validator('less_or_equal', bu)],
                      aux=[n5, n2], derives=FLOAT_DERIVES + ['Eq', 'Ord']))
        out.append(mk('flt_%s_san_nov' % t, 'float', t, sanitizers=[Sanitizer('with', s)], aux=[n5],
                      derives=['Debug', 'Clone', 'Copy', 'PartialEq', 'PartialOrd', 'AsRef', 'Deref', 'Borrow', 'Into', 'From']))
        s3, n6 = aux.custom('san3', t)
        out.append(mk('flt_%s_san3_fin_le' % t, 'float', t, sanitizers=[Sanitizer('with', s3)], validators=[fin, Validator('less_or_equal', bu)],
                      aux=[n6, n2], derives=FLOAT_DERIVES + ['Eq', 'Ord']))
        out.append(mk('flt_%s_san_nov_tf' % t, 'float', t, sanitizers=[Sanitizer('with', s)], aux=[n5],
                      derives=['Debug', 'Clone', 'Copy', 'PartialEq', 'PartialOrd', 'AsRef', 'Deref', 'Borrow', 'Into', 'TryFrom']))
        out.append(mk('flt_%s_nothing' % t, 'float', t, derives=['Debug', 'Clone', 'Copy', 'PartialEq', 'PartialOrd', 'AsRef', 'Deref', 'Borrow', 'Into', 'From']))
        # a sanitizer that maps NaN to a number (the other custom sanitizers are the identity on NaN)
        s4, n7 = aux.custom('san4', t)
        out.append(mk('flt_%s_san4_fin_le' % t, 'float', t, sanitizers=[Sanitizer('with', s4)], validators=[fin, Validator('less_or_equal', bu)],
                      aux=[n7, n2], derives=FLOAT_DERIVES + ['Eq', 'Ord']))
        out.append(mk('flt_%s_san4_ge' % t, 'float', t, sanitizers=[Sanitizer('with', s4)], validators=[Validator('greater_or_equal', bl)],
                      aux=[n7, n1], derives=FLOAT_DERIVES))
        out.append(mk('flt_%s_san4_nov' % t, 'float', t, sanitizers=[Sanitizer('with', s4)], aux=[n7],
                      derives=['Debug', 'Clone', 'Copy', 'PartialEq', 'PartialOrd', 'AsRef', 'Deref', 'Borrow', 'Into', 'From']))
        # literal bounds (go through the macro's own number parser)
        lits = [('zero', 'greater_or_equal', '0.0'), ('negzero', 'greater', '-0.0'), ('big', 'less', '1e30'), ('small', 'greater', '1e-30'),
                ('neg', 'less_or_equal', '-2.5'), ('intlit', 'less_or_equal', '100'), ('under', 'greater_or_equal', '1_000.5')]
        for tag, k, src in lits:
            val = src.replace('_', '')
            if '.' not in val and 'e' not in val:
                val += '.0'
            out.append(mk('flt_%s_%s_lit_%s' % (t, k, tag), 'float', t,
                          validators=[Validator(k, Bound(src=src, spec='', ref='(%s as %s)' % (val, t)))], derives=FLOAT_DERIVES))
        out.append(mk('flt_%s_finite_const' % t, 'float', t, const_fn=True, validators=[fin], derives=FLOAT_DERIVES + ['Eq', 'Ord']))
        out.append(mk('flt_%s_fin_wide_lit_const' % t, 'float', t, const_fn=True,
                      validators=[Validator('greater_or_equal', Bound('%s::MIN' % t, '', '%s::MIN' % t)), fin, Validator('less_or_equal', Bound('%s::MAX' % t, '', '%s::MAX' % t))],
                      derives=FLOAT_DERIVES))
        # `finite` written AFTER two literal bounds (NaN passes both bounds; only `finite` stops it)
        out.append(mk('flt_%s_ge_le_lit_fin' % t, 'float', t,
                      validators=[Validator('greater_or_equal', Bound('-1.0', '', '(-1.0 as %s)' % t)), Validator('less_or_equal', Bound('1.0', '', '(1.0 as %s)' % t)), fin],
                      derives=FLOAT_DERIVES + ['Eq', 'Ord']))
        out.append(mk('flt_%s_gt_lt_lit_fin' % t, 'float', t,
                      validators=[Validator('greater', Bound('0.0', '', '(0.0 as %s)' % t)), Validator('less', Bound('1e30', '', '(1e30 as %s)' % t)), fin],
                      derives=FLOAT_DERIVES + ['Eq', 'Ord']))
        out.append(mk('flt_%s_fin_ge_le_lit_const' % t, 'float', t, const_fn=True,
                      validators=[fin, Validator('greater_or_equal', Bound('-1.0', '', '(-1.0 as %s)' % t)), Validator('less_or_equal', Bound('1.0', '', '(1.0 as %s)' % t))],
                      derives=FLOAT_DERIVES + ['Eq', 'Ord']))
    for d in out:
        d.verus = False
        d.kani = True
    return out


def partial_pred_decls(tier='quick'):
    """`validate(greater = 0, predicate = p)` where p is only defined for x > 0: the rules are evaluated
    in the order written and evaluation stops at the first violated one (so p never sees x <= 0)"""
    out = []
    for t in (['i32', 'u8', 'f64'] if tier == 'quick' else ['i8', 'i32', 'i64', 'u8', 'u64', 'f32', 'f64']):
        fl = t in FLOAT_TYPES
        pp, npp = aux.custom('pred_partial', t)
        zero = Bound('0.0' if fl else '0', '', '(0.0 as %s)' % t if fl else '(0 as %s)' % t)
        vals = [Validator('greater', zero), Validator('predicate', fn=pp)]
        if fl:
            vals = [Validator('finite')] + vals
        out.append(mk('pp_%s_gt0_pred' % t, 'float' if fl else 'int', t, validators=vals, aux=[npp], derives=['Debug', 'TryFrom', 'FromStr']))
    for d in out:
        d.verus = False
        d.kani = True
    return out


def int_kani_decls(tier='quick'):
    """integer declarations for the Kani-only obligations (derived comparison traits, hash, closures)"""
    out = []
    types = INT_TYPES if tier == 'thorough' else ['u8', 'i8', 'u16', 'i32', 'u64', 'i128', 'usize']
    full = ['Debug', 'Clone', 'Copy', 'PartialEq', 'Eq', 'PartialOrd', 'Ord', 'Hash', 'AsRef', 'Deref', 'Borrow', 'Into', 'TryFrom']
    for t in types:
        bl, n1 = aux.sym_bound('lo', t)
        bu, n2 = aux.sym_bound('hi', t)
        out.append(mk('kint_%s_ge_le_sym' % t, 'int', t, validators=[Validator('greater_or_equal', bl), Validator('less_or_equal', bu)],
                      aux=[n1, n2], derives=full))
        s, n5 = aux.custom('san', t)
        out.append(mk('kint_%s_san_nov' % t, 'int', t, sanitizers=[Sanitizer('with', s)], aux=[n5],
                      derives=[x for x in full if x != 'TryFrom'] + ['From']))
        # closure spellings: the closure text is the function's body, the reference calls the named twin
        p, n3 = aux.custom('pred', t)
        pc = Custom(name=p.name, src='|x| *x != 7', spec=p.spec)
        pc2 = Custom(name=p.name, src='|x: &%s| *x != 7' % t, spec=p.spec)
        sc = Custom(name=s.name, src='|x| if x > 50 { 50 } else { x }', spec=s.spec)
        out.append(mk('kint_%s_closure_a' % t, 'int', t, sanitizers=[Sanitizer('with', sc)], validators=[Validator('predicate', fn=pc), Validator('less', bu)],
                      aux=[n3, n5, n2], derives=['Debug', 'TryFrom']))
        out.append(mk('kint_%s_closure_b' % t, 'int', t, validators=[Validator('greater', bl), Validator('predicate', fn=pc2)],
                      aux=[n3, n1], derives=['Debug', 'TryFrom']))
    for d in out:
        d.verus = False
        d.kani = True
    return out


# ------------------------------------------------------------------------------ per-property assembly
def harnesses_for(prop, tier, seed):
    decls = []
    hs = []
    extra = ''
    if prop in ('C01', 'C07'):
        fl = float_decls(tier)
        ki = [d for d in int_kani_decls(tier) if 'closure' in d.id]
        decls = fl + ki + partial_pred_decls(tier)
        if prop == 'C07':
            decls = [d for d in decls if d.has_validation]
        for d in decls:
            hs.append(h_ctor(d, [prop]) if prop == 'C01' else h_ctor_c07(d, [prop]))
    elif prop == 'C02':
        from .spellings import numeric_spellings
        decls = numeric_spellings(tier)
        for d in decls:
            if d.note.startswith('mixed'):
                hs.append(h_accept_set(d, [prop]))
                continue
            hs.append(h_ctor(d, [prop]))
            if 'Default' in d.derives:
                hs.append(h_default(d, [prop]))
    elif prop == 'C03':
        fl = [d for d in float_decls(tier)]
        decls = fl
        for d in decls:
            if 'TryFrom' in d.derives:
                hs.append(h_try_from(d, [prop]))
            if 'From' in d.derives:
                hs.append(h_from(d, [prop]))
        decls += default_decls(tier)
        for d in decls:
            if 'Default' in d.derives:
                hs.append(h_default(d, [prop], valid=not d.note.startswith('invalid-default')))
    elif prop == 'C06':
        decls = fromstr_decls(tier)
        extra = parse_stub_items(sorted({concrete_inner(d) for d in decls if concrete_inner(d) in INT_TYPES + FLOAT_TYPES}))
        for d in decls:
            hs.append(h_from_str(d, [prop]))
    elif prop in ('C04', 'C10'):
        from .kani_serde import serde_items_expanded
        decls = serde_decls(tier)
        extra = serde_items_expanded()
        sdecls = serde_string_decls()
        for d in decls:
            if prop == 'C04':
                hs.append(h_deserialize(d, [prop], only_protocol=d.inner in ('i128', 'u128')))
                if d.inner not in ('i128', 'u128') and not d.generics and d.family in ('int', 'float') and (tier == 'thorough' or d.inner in ('i32', 'f64', 'u8')):
                    hs.append(h_deserialize_in_place(d, [prop]))
            else:
                hs.append(h_serialize(d, [prop]))
                # C04 requires Deserialize to apply the sanitizers again, so the round trip can only hold where
                # they are idempotent: sanitizer-free declarations and the idempotent custom `san` (not `san3`)
                if not any(sa.fn is not None and sa.fn.name.startswith('san3') for sa in d.sanitizers):
                    hs.append(h_roundtrip(d, [prop]))
                if d.inner in ('i128', 'u128') and not d.has_validation:
                    hs.append(h_roundtrip_concrete(d, [prop], '(1 as %s) << 70' % d.inner, '2^70'))
                    hs.append(h_roundtrip_concrete(d, [prop], '%s::MAX' % d.inner, 'MAX'))
        if prop == 'C10':
            so = serialize_only_decls(tier)
            for d in so:
                hs.append(h_serialize(d, [prop]))
            sos = mk('sdo_str_tr', 'string', 'String', sanitizers=[Sanitizer('trim')], derives=['Debug', 'Serialize'])
            sos.verus = False
            hs.append(h_serialize(sos, [prop], concrete=('" ab "', 'ab'), bounded='bounded: concrete string only'))
            decls = decls + so + [sos]
        B = 'bounded: concrete string documents only (symbolic strings do not finish in CBMC)'
        for d in sdecls:
            if prop == 'C04':
                for lit, mode, ok, tag, shape in [('" a "', 0, 'true', 'valid, needs trim', 0), ('"abc"', 0, 'true', 'too long', 0), ('"x"', 0, 'false', 'inner fails', 0),
                                                   ('"x"', 1, 'true', 'protocol violation', 0), ('" a "', 0, 'true', 'text handed over as &str', 1),
                                                   ]:
                    hs.append(h_deserialize(d, [prop], bounded=B, concrete=(lit, mode, ok, tag, shape)))
                for lit, old_, ok, tag in [('" b "', '"a"', 'true', 'valid document'), ('"abcde"', '"a"', 'true', 'rejected document (too long)'),
                                           ('"x"', '"a"', 'false', 'inner fails')]:
                    hs.append(h_deserialize_in_place(d, [prop], bounded=B, concrete=(lit, old_, ok, tag)))
            else:
                hs.append(h_serialize(d, [prop], concrete=('" ab "', 'ab'), bounded=B))
                hs.append(h_roundtrip_string(d, [prop], '"\\"a"', 'text with a quote', B))
                hs.append(h_roundtrip_string(d, [prop], '"x"', 'x', B))
        decls = decls + sdecls
        NATIVE_STRING_SERDE[prop] = sdecls
    elif prop == 'C05':
        from .kani_serde import serde_items_expanded
        decls = guard_decls(tier)
        extra = serde_items_expanded() + parse_stub_items(sorted({d.inner for d in decls}))
        for d in decls:
            for e in ('TryFrom', 'FromStr', 'Deserialize', 'Arbitrary'):
                if e in d.derives:
                    hs.append(h_valid_via(d, [prop], e))
            if 'Arbitrary' in d.derives and (tier == 'thorough' or d.inner in ('i32', 'u8', 'f32')):
                h = h_arbitrary_take_rest(d, [prop])
                h.what = 'guards run: Arbitrary::arbitrary_take_rest'
                h.key = '%s::%s' % (d.id, h.what)
                hs.append(h)
            if 'Deserialize' in d.derives and (tier == 'thorough' or d.inner in ('i32', 'f64')):
                h = h_deserialize_in_place(d, [prop])
                h.what = 'guards run: deserialize_in_place on an existing value'
                h.key = '%s::%s' % (d.id, h.what)
                hs.append(h)
        # foreign attributes on the declaration (must be refused): a built-in derive spelled by path would be
        # expanded inside the private module, where the field is accessible, and hand out unguarded values
        fa = []
        for tag, attr in [('path_derive_default', '#[::core::prelude::v1::derive(Default)]'), ('derive_default', '#[derive(Default)]'),
                          ('std_path_derive_default', '#[::std::prelude::v1::derive(Default)]'), ('cfg_attr_derive_default', '#[cfg_attr(all(), derive(Default))]')]:
            dfa = mk('fa_%s' % tag, 'int', 'i32', validators=[Validator('greater', Bound('0', '', '(0 as i32)'))], derives=['Debug'])
            dfa.extra_attrs = attr
            dfa.expect_reject = True
            dfa.verus = False
            dfa.note = 'foreign attribute ' + attr
            fa.append(dfa)
            body = ('        let v = <%s as Default>::default();\n        let i = v.into_inner();\n' % dfa.name +
                    '        assert!(ref_%s::valid(&i), "a value obtained through a derive that the declaration smuggles in satisfies every declared validator");\n' % dfa.id)
            hs.append(Harness(dfa, 'guards run: foreign attribute (must be rejected; if accepted, Default must be guarded)', [prop], body,
                              clause='a declaration carrying `%s` is rejected, or the derive it brings cannot produce an invalid value' % attr))
        decls = decls + fa
        # String newtypes: deserialize_in_place on an existing value (concrete documents in Kani, native runs)
        sdecls = serde_string_decls()
        B = 'bounded: concrete string documents only (symbolic strings do not finish in CBMC)'
        for d in sdecls:
            for lit, old_, ok, tag in [('" b "', '"a"', 'true', 'valid document'), ('"abcde"', '"a"', 'true', 'rejected document (too long)')]:
                h = h_deserialize_in_place(d, [prop], bounded=B, concrete=(lit, old_, ok, tag))
                h.what = 'guards run: deserialize_in_place on an existing value (%s)' % tag
                h.key = '%s::%s' % (d.id, h.what)
                hs.append(h)
        NATIVE_STRING_SERDE[prop] = sdecls
        decls = decls + sdecls
        dd = [d for d in default_decls(tier) if not d.note.startswith('invalid-default') and d.has_validation and d.family != 'string']
        for d in dd:
            body = sym_setup(d) + '        { let dv: %s = %s; kani::assume(ref_%s::try_new(dv).is_ok()); }\n' % (concrete_inner(d), d.default_ref, d.id) + '        let i = <%s as Default>::default().into_inner();\n        assert!(ref_%s::valid(&i), "Default::default() yields a valid value (or panics)");\n' % (concrete_self(d), d.id)
            hs.append(Harness(d, 'guards run: Default', [prop], body, clause='default() returns only a value that satisfies every declared validator'))
        nd = [d for d in default_decls(tier) if d.note == 'no-default-attribute']
        for d in nd:
            h = h_default(d, [prop])
            h.what = 'guards run: Default (declared without `default =`; must be rejected, or sanitize the inner default)'
            h.key = '%s::%s' % (d.id, h.what)
            hs.append(h)
        decls = decls + dd + nd
    elif prop == 'C09':
        di = arbitrary_int_decls(tier)
        df = arbitrary_float_decls(tier)
        for d in di:
            hs.append(h_arbitrary_int(d, [prop]))
            if d.inner in ('u8', 'i16') and not d.sanitizers and (tier == 'thorough' or 'sym' in d.id):
                hs.append(h_arbitrary_take_rest(d, [prop]))
        for d in df:
            t = d.inner
            if 'sym' in d.id:
                hs.append(h_arbitrary_float(d, [prop], assume_bounds='sym_lo_%s().is_finite() && sym_hi_%s().is_finite() && { let w: %s = kani::any(); !w.is_nan() && ref_%s::valid(&w) }' % (t, t, t, d.id), tag='(any finite bounds, non-empty valid set)'))
            else:
                hs.append(h_arbitrary_float(d, [prop]))
        sm = Custom(name='san_m', src='san_m', spec='')
        dg = [mk('arb_any_nov', 'any', 'Meters', aux=['Meters'], derives=['Debug', 'Arbitrary']),
              mk('arb_any_san_nov', 'any', 'Meters', sanitizers=[Sanitizer('with', sm)], aux=['Meters'], derives=['Debug', 'Arbitrary']),
              mk('arb_gen_nov', 'any', 'T', generics='<T>', generic_args='<T>', derives=['Debug', 'Arbitrary'])]
        for d in dg:
            d.verus = False
            hs.append(h_arbitrary_any(d, [prop]))
        decls = di + df + dg
    elif prop == 'C14':
        decls = [d for d in arbitrary_int_decls(tier) if not d.sanitizers]
        for d in decls:
            hs.append(h_arbitrary_int_surjective(d, [prop]))
    elif prop == 'C11':
        from .kani_serde import serde_items_expanded
        decls = float_decls(tier)
        for d in decls:
            if not d.sanitizers:
                hs.append(h_canonical(d, [prop]))
        cd = canonical_decls(tier)
        extra = serde_items_expanded() + parse_stub_items(sorted({d.inner for d in cd}))
        for d in cd:
            hs.append(h_canonical(d, [prop]))
            for e in ('TryFrom', 'FromStr', 'Deserialize'):
                hs.append(h_canonical_via(d, [prop], e))
        decls = decls + cd
    elif prop == 'C12':
        from .kani_serde import serde_items_expanded
        decls = [d for d in float_decls(tier) if 'Ord' in d.derives]
        for d in decls:
            hs.append(h_float_ord(d, [prop]))
        # no NaN / infinite value is obtainable through ANY safe entry point of an Eq/Ord float newtype
        ed = []
        der = ['Debug', 'Clone', 'Copy', 'PartialEq', 'Eq', 'PartialOrd', 'Ord', 'TryFrom', 'FromStr', 'Serialize', 'Deserialize', 'Arbitrary']
        for t in FLOAT_TYPES:
            bl, n1 = aux.sym_bound('lo', t)
            bu, n2 = aux.sym_bound('hi', t)
            ed.append(mk('c12e_%s_fin' % t, 'float', t, validators=[Validator('finite')], derives=der))
            ed.append(mk('c12e_%s_ge_fin_lt' % t, 'float', t, validators=[Validator('greater_or_equal', bl), Validator('finite'), Validator('less', bu)], aux=[n1, n2], derives=der))
            ed.append(mk('c12e_%s_gt_le_fin' % t, 'float', t, validators=[Validator('greater', bl), Validator('less_or_equal', bu), Validator('finite')], aux=[n1, n2], derives=der))
        for t in FLOAT_TYPES:
            bl, n1 = aux.sym_bound('lo', t)
            bu, n2 = aux.sym_bound('hi', t)
            for tag, vals in (('ge_le', [Validator('greater_or_equal', bl), Validator('less_or_equal', bu)]), ('gt', [Validator('greater', bl)]), ('none', [])):
                dn = mk('c12x_%s_%s_nofinite' % (t, tag), 'float', t, validators=vals, aux=[n1, n2], derives=['Debug', 'Clone', 'Copy', 'PartialEq', 'Eq', 'PartialOrd', 'Ord'] + (['TryFrom'] if vals else ['From']))
                dn.expect_reject = True    # Eq/Ord without `finite` must be refused; should it be accepted, the order laws decide
                dn.verus = False
                hs.append(h_float_ord(dn, [prop]))
                decls.append(dn)
        extra = serde_items_expanded() + parse_stub_items(sorted(FLOAT_TYPES))
        for d in ed:
            d.verus = False
            for e in ('TryFrom', 'FromStr', 'Deserialize', 'Arbitrary'):
                if e == 'Arbitrary' and d.id.endswith('_fin') is False and False:
                    continue
                hs.append(h_valid_via(d, [prop], e))
        decls = decls + ed
    elif prop == 'C13':
        decls = float_decls(tier) + [d for d in int_kani_decls(tier) if 'closure' not in d.id]
        extra = HASHER
        for d in decls:
            hs.append(h_views(d, [prop]))
            if 'PartialEq' in d.derives:
                hs.append(h_cmp(d, [prop]))
            if 'Hash' in d.derives:
                hs.append(h_hash(d, [prop]))
        dd = display_decls(tier)
        for d in dd:
            if d.inner == 'Probe':
                for i, spec in enumerate(DISPLAY_SPECS):
                    hs.append(h_display(d, [prop], spec, i))
            elif d.family == 'string':
                for i, spec in enumerate(['{}', '{:>8}', '{:.2}', '{:*^7}', '{:<6.1}']):
                    hs.append(h_display_concrete(d, [prop], spec, i, '" bob "'))
            else:
                for i, spec in enumerate(['{}', '{:>8}', '{:+}', '{:08}', '{:<5}']):
                    hs.append(h_display_concrete(d, [prop], spec, i, '-42'))
        ve = view_extra_decls(tier)
        for d in ve:
            if 'IntoIterator' in d.derives:
                hs.append(h_into_iter(d, [prop]))
            if d.id == 'cmp_any_arrf':
                hs.append(h_cmp(d, [prop]))
            if d.family == 'string':
                hs.append(h_string_hash_ord(d, [prop], '" b "', '"a"'))
                hs.append(h_string_hash_ord(d, [prop], '"ab"', '" ab"'))
        decls = decls + dd + ve
    return decls, hs, extra


def default_decls(tier='quick'):
    out = []
    for t in ['i32', 'u8', 'f64', 'f32', 'i128']:
        fl = t in FLOAT_TYPES
        fam = 'float' if fl else 'int'
        one = '1.0' if fl else '1'
        bl = Bound('0.0' if fl else '0', '', '(0 as %s)' % t if not fl else '(0.0 as %s)' % t)
        bu = Bound('10.0' if fl else '10', '', '(10 as %s)' % t if not fl else '(10.0 as %s)' % t)
        s, n5 = aux.custom('san', t)
        # valid literal default
        out.append(mk('def_%s_valid' % t, fam, t, validators=[Validator('greater_or_equal', bl), Validator('less_or_equal', bu)],
                      derives=['Debug', 'Default'], default='5.0' if fl else '5', default_ref='5.0' if fl else '5'))
        # invalid default: must panic
        d = mk('def_%s_invalid' % t, fam, t, validators=[Validator('greater_or_equal', bl), Validator('less_or_equal', bu)],
               derives=['Debug', 'Default'], default='11.0' if fl else '11', default_ref='11.0' if fl else '11')
        d.note = 'invalid-default'
        out.append(d)
        # default needing sanitisation (san clamps / abs): stored value must be the sanitized one
        out.append(mk('def_%s_sanitized' % t, fam, t, sanitizers=[Sanitizer('with', s)], aux=[n5],
                      validators=[Validator('less_or_equal', Bound('60.0' if fl else '60', '', '(60 as %s)' % t if not fl else '(60.0 as %s)' % t))],
                      derives=['Debug', 'Default'], default='-3.0' if fl else '77', default_ref='-3.0' if fl else '77'))
        out.append(mk('def_%s_nov' % t, fam, t, sanitizers=[Sanitizer('with', s)], aux=[n5],
                      derives=['Debug', 'Default'], default='-3.0' if fl else '77', default_ref='-3.0' if fl else '77'))
        # symbolic default expression: valid or invalid decided per execution
        bls, n1 = aux.sym_bound('lo', t)
        bus, n2 = aux.sym_bound('hi', t)
        dv = mk('def_%s_symbolic_valid' % t, fam, t, validators=[Validator('greater_or_equal', bls)], aux=[n1, n2],
                derives=['Debug', 'Default'], default='sym_hi_%s()' % t, default_ref='sym_hi_%s()' % t)
        out.append(dv)
    # literal defaults next to rules the macro cannot evaluate (predicate, constant / symbolic bound):
    # a "pre-validated at expansion time" shortcut must not skip them
    for t in ['i32', 'u8', 'f64'] + (['i64', 'u128', 'f32'] if tier == 'thorough' else []):
        fl = t in FLOAT_TYPES
        fam = 'float' if fl else 'int'
        p_, np_ = aux.custom('pred', t)          # x != 7
        bl = Bound('0.0' if fl else '0', '', '(0 as %s)' % t if not fl else '(0.0 as %s)' % t)
        bu = Bound('10.0' if fl else '10', '', '(10 as %s)' % t if not fl else '(10.0 as %s)' % t)
        K = 'K_%s' % t.upper()                   # const = 10
        kb = Bound(K, '', K)
        seven, five, eleven = ('7.0', '5.0', '11.0') if fl else ('7', '5', '11')
        for did, vals, auxn, dflt, invalid in [
                ('def_%s_lit_pred_invalid' % t, [Validator('predicate', fn=p_)], [np_], seven, True),
                ('def_%s_lit_pred_valid' % t, [Validator('predicate', fn=p_)], [np_], five, False),
                ('def_%s_lit_bounds_pred_invalid' % t, [Validator('greater_or_equal', bl), Validator('less_or_equal', bu), Validator('predicate', fn=p_)], [np_], seven, True),
                ('def_%s_lit_constbound_invalid' % t, [Validator('greater_or_equal', bl), Validator('less', kb)], [K], eleven, True),
                ('def_%s_lit_constbound_valid' % t, [Validator('greater_or_equal', bl), Validator('less', kb)], [K], five, False)]:
            dd = mk(did, fam, t, validators=vals, aux=auxn, derives=['Debug', 'Default'], default=dflt, default_ref=dflt)
            if invalid:
                dd.note = 'invalid-default'
            out.append(dd)
        bls, n1 = aux.sym_bound('lo', t)
        out.append(mk('def_%s_lit_symbound' % t, fam, t, validators=[Validator('greater_or_equal', bls)], aux=[n1],
                      derives=['Debug', 'Default'], default=five, default_ref=five))
    # strings: concrete defaults (CBMC executes them)
    out.append(mk('def_str_valid', 'string', 'String', sanitizers=[Sanitizer('trim')], validators=[Validator('not_empty')],
                  derives=['Debug', 'Default'], default='" ab "', default_ref='" ab "'))
    ds = mk('def_str_invalid', 'string', 'String', sanitizers=[Sanitizer('trim')], validators=[Validator('not_empty')],
            derives=['Debug', 'Default'], default='"  "', default_ref='"  "')
    ds.note = 'invalid-default'
    out.append(ds)
    out.append(mk('def_str_nov', 'string', 'String', sanitizers=[Sanitizer('trim')],
                  derives=['Debug', 'Default'], default='" x "', default_ref='" x "'))
    # non-ASCII literals: the char count differs from the byte count
    CYR = '"\\u{410}\\u{43d}\\u{442}\\u{43e}\\u{43d}"'
    CJK = '"  \\u{65e5}\\u{672c}  "'
    out.append(mk('def_str_cyr_valid', 'string', 'String', validators=[Validator('len_char_min', aux.lit_bound(5)), Validator('len_char_max', aux.lit_bound(5))],
                  derives=['Debug', 'Default'], default=CYR, default_ref=CYR))
    ds = mk('def_str_cyr_too_short', 'string', 'String', validators=[Validator('len_char_min', aux.lit_bound(6))],
            derives=['Debug', 'Default'], default=CYR, default_ref=CYR)
    ds.note = 'invalid-default'
    out.append(ds)
    ds = mk('def_str_cjk_trim_too_short', 'string', 'String', sanitizers=[Sanitizer('trim')], validators=[Validator('len_char_min', aux.lit_bound(3))],
            derives=['Debug', 'Default'], default=CJK, default_ref=CJK)
    ds.note = 'invalid-default'
    out.append(ds)
    # other-family defaults (their Default impl is generated by any/gen/traits/mod.rs)
    pm = Custom(name='pred_m', src='pred_m', spec='')
    sm2 = Custom(name='san_m2', src='san_m2', spec='')
    out.append(mk('def_any_valid', 'any', 'Meters', validators=[Validator('predicate', fn=pm)], aux=['Meters'], derives=['Debug', 'Default'],
                  default='Meters(5)', default_ref='Meters(5)'))
    da = mk('def_any_invalid', 'any', 'Meters', validators=[Validator('predicate', fn=pm)], aux=['Meters'], derives=['Debug', 'Default'],
            default='Meters(7)', default_ref='Meters(7)')
    da.note = 'invalid-default'
    out.append(da)
    da = mk('def_any_invalid_after_sanitize', 'any', 'Meters', sanitizers=[Sanitizer('with', sm2)], validators=[Validator('predicate', fn=pm)],
            aux=['Meters'], derives=['Debug', 'Default'], default='Meters(0)', default_ref='Meters(0)')
    da.note = 'invalid-default'
    out.append(da)
    # generic newtype whose default depends on T: every instantiation is guarded on its own
    # (valid for T = i32, must panic for T = u8 — also AFTER the i32 instantiation has been used)
    pg = Custom(name='pred_gen', src='pred_gen', spec='')
    dg = mk('def_gen_dflt', 'any', 'T', validators=[Validator('predicate', fn=pg)], aux=['Sat', 'MyErr'], derives=['Debug', 'Default'],
            generics='<T: Dflt>', generic_args='<T>', default='T::dflt()', default_ref='<i32 as Dflt>::dflt()')
    out.append(dg)
    dg2 = mk('def_gen_dflt_second_instantiation', 'any', 'T', validators=[Validator('predicate', fn=pg)], aux=['Sat', 'MyErr'], derives=['Debug', 'Default'],
             generics='<T: Dflt>', generic_args='<T>', default='T::dflt()', default_ref='<i32 as Dflt>::dflt()')
    dg2.note = 'invalid-default-second-instantiation'
    out.append(dg2)
    # `derive(Default)` without `default = ..` must be rejected; should it ever be accepted, the harness
    # requires default() == new(<Inner as Default>::default())
    sm = Custom(name='san_m2', src='san_m2', spec='')
    for did, fam, inner, sans, auxn in [('def_nodefault_any', 'any', 'Meters', [Sanitizer('with', sm)], ['Meters']),
                                        ('def_nodefault_i32', 'int', 'i32', [Sanitizer('with', aux.custom('san2', 'i32')[0])], ['san2_i32']),
                                        ('def_nodefault_str', 'string', 'String', [Sanitizer('trim')], [])]:
        dn = mk(did, fam, inner, sanitizers=sans, aux=auxn, derives=['Debug', 'Default'])
        dn.expect_reject = True
        dn.default_ref = '<%s as Default>::default()' % inner
        dn.note = 'no-default-attribute'
        out.append(dn)
    for d in out:
        d.verus = False
        d.kani = True
    return out


def prefilter(out, prop, decls, hs):
    """Build the declarations once with the hook on: declarations the macro / rustc rejects are
    set aside (C02: they hold vacuously; elsewhere: undecided), and the shape of every generated
    error enum is compared with the declared validators (C02/C07 obligation `error_enum_shape`)."""
    from .refgen import error_enum_shape_problem
    dr = pipeline.build_dumps(decls, prop + 'k', features=('serde', 'arbitrary'))
    rejected = {}
    shape = {}
    for d in decls:
        txt = dr.dumps.get(d.id, '')
        if 'mod __nutype_' not in txt:
            m = re.search(r'compile_error\s*!\s*\{\s*"(.*?)"\s*\}', txt, re.S)
            rejected[d.id] = 'macro: ' + (m.group(1)[:160] if m else txt[-160:])
        elif d.id in dr.rustc_rejected:
            rejected[d.id] = 'rustc: ' + dr.rustc_rejected[d.id][:160]
        else:
            pb = error_enum_shape_problem(d, txt)
            if pb:
                shape[d.id] = pb
    if rejected:
        out.extra['kani_side_rejected_declarations'] = {i: {'why': rejected[i], 'attr': [d for d in decls if d.id == i][0].attr_text()} for i in rejected}
        if prop != 'C02':
            for i in rejected:
                if [d for d in decls if d.id == i][0].expect_reject:
                    continue
                out.undecided.append('%s: declaration no longer accepted (%s)' % (i, rejected[i][:100]))
    by_id = {d.id: d for d in decls}
    if prop in ('C02', 'C07', 'C01'):
        for i, pb in shape.items():
            out.obligations += 1
            out.failed.append({'key': '%s::error_enum_shape' % i, 'backend': 'dump-read', 'message': pb, 'detail': pb,
                               'decl': i, 'decl_obj': by_id[i]})
        if prop in ('C02', 'C07'):
            n_ok = len([d for d in decls if d.id not in rejected and d.id not in shape and d.validators])
            out.obligations += n_ok
            out.discharged += n_ok
    skip = set(rejected) | set(shape)
    return [d for d in decls if d.id not in skip], [h for h in hs if h.decl.id not in skip]


def arbitrary_string_decls(tier='quick'):
    out = []
    der = ['Debug', 'Arbitrary']
    lo = Bound(src='sym_len_lo()', spec='SYM_LEN_LO()', ref='sym_len_lo()', symbolic=True)
    hi = Bound(src='sym_len_hi()', spec='SYM_LEN_HI()', ref='sym_len_hi()', symbolic=True)
    T, L, U = Sanitizer('trim'), Sanitizer('lowercase'), Sanitizer('uppercase')
    ne = Validator('not_empty')
    vsets = [('ne', [ne], []), ('min', [Validator('len_char_min', lo)], ['sym_len_lo']), ('max', [Validator('len_char_max', hi)], ['sym_len_hi']),
             ('minmax', [Validator('len_char_min', lo), Validator('len_char_max', hi)], ['sym_len_lo', 'sym_len_hi']),
             ('ne_min', [ne, Validator('len_char_min', lo)], ['sym_len_lo']), ('min_ne', [Validator('len_char_min', lo), ne], ['sym_len_lo']),
             ('ne_max', [ne, Validator('len_char_max', hi)], ['sym_len_hi'])]
    for sname, sans in [('nos', []), ('tr', [T]), ('lo', [L]), ('up', [U]), ('tr_lo', [T, L]), ('up_tr', [U, T])]:
        out.append(mk('arbs_%s_nov' % sname, 'string', 'String', sanitizers=sans, derives=der))
        for vname, vals, names in vsets:
            out.append(mk('arbs_%s_%s' % (sname, vname), 'string', 'String', sanitizers=sans, validators=vals, aux=names, derives=der))
    # literal bounds (the generator specialises on what it knows at expansion time)
    L_ = aux.lit_bound
    for sname, sans in [('nos', []), ('tr', [T]), ('tr_lo', [T, L])]:
        for vname, vals in [('min3_lit', [Validator('len_char_min', L_(3))]), ('min2_max4_lit', [Validator('len_char_min', L_(2)), Validator('len_char_max', L_(4))]),
                            ('ne_max3_lit', [ne, Validator('len_char_max', L_(3))]), ('min0_max2_lit', [Validator('len_char_min', L_(0)), Validator('len_char_max', L_(2))])]:
            out.append(mk('arbs_%s_%s' % (sname, vname), 'string', 'String', sanitizers=sans, validators=vals, derives=der))
    # expression length bounds made of operators that bind weaker than `+` / `*`: the generator derives its
    # default maximum (`min + 16`) and its size hint from the spliced expression (finding 13)
    for sname, sans in [('nos', []), ('tr', [T])]:
        out.append(mk('arbs_%s_min_expr_and' % sname, 'string', 'String', sanitizers=sans, derives=der, aux=['LEN_P16'],
                      validators=[Validator('len_char_min', Bound('LEN_P16 & LEN_P16', '', '(LEN_P16 & LEN_P16)'))]))
        out.append(mk('arbs_%s_min_expr_or' % sname, 'string', 'String', sanitizers=sans, derives=der, aux=['LEN_P32', 'LEN_P16'],
                      validators=[Validator('len_char_min', Bound('LEN_P32 | LEN_P16', '', '(LEN_P32 | LEN_P16)'))]))
        out.append(mk('arbs_%s_ne_min_expr_and_max' % sname, 'string', 'String', sanitizers=sans, derives=der, aux=['LEN_P16'],
                      validators=[ne, Validator('len_char_min', Bound('LEN_P16 & 3', '', '(LEN_P16 & 3)')), Validator('len_char_max', Bound('LEN_P16 >> 2', '', '(LEN_P16 >> 2)'))]))
    for d in out:
        d.verus = False
        d.kani = True
    return out


def string_arbitrary_exploration(out, tier):
    """C09 for String newtypes: NO proof (CBMC does not finish symbolic strings; Verus would need loop
    invariants over the `arbitrary` crate).  A bounded, labelled stand-in: the real generator is run on
    an enumerated set of byte inputs; a panic or an invalid value is reported with its bytes."""
    from . import witness
    decls = arbitrary_string_decls(tier)
    explored = 0
    nd = 0
    import concurrent.futures
    def one(d):
        try:
            return d, witness.run_witness(d)
        except Exception as e:
            return d, (None, repr(e))
    # the witness crates share one cargo target dir, so builds are serialised by cargo; run 2 at a time
    with concurrent.futures.ThreadPoolExecutor(max_workers=2) as ex:
        results = list(ex.map(one, decls))
    for d, (wit, log) in results:
        if wit is None:
            if 'error' in (log or '') and 'Arbitrary' in (log or ''):
                continue   # combination rejected by the macro
            out.undecided.append('%s: string Arbitrary exploration did not build: %s' % (d.id, (log or '')[-200:]))
            continue
        nd += 1
        m = re.search(r'explored_string_arbitrary_inputs\":(\d+)', log or '')
        explored += int(m.group(1)) if m else 0
        bad = [w for w in wit if w.get('entry') == 'Arbitrary']
        if bad:
            out.failed.append({'key': '%s::Arbitrary::arbitrary(bounded exploration)' % d.id, 'backend': 'concrete exploration (bounded)',
                               'message': 'the real generator panics or yields an invalid value on a concrete byte input', 'detail': json.dumps(bad[:3]),
                               'decl': d.id, 'decl_obj': d, 'witness': bad})
    out.bounded.append('String Arbitrary: BOUNDED concrete exploration only (%d declarations, %d generator runs over enumerated byte inputs: selector byte + up to 4 special chars, all-0x00/0xFF up to 64 bytes); not a proof, not counted as obligations' % (nd, explored))


def float_arbitrary_infinite_bounds(out, tier):
    """C09, floats with `finite` and INFINITE bounds (`less = f64::INFINITY` ...): Kani's own NaN checks
    fire on every `inf * 0` the generator computes and discards, so these settings are not in the
    proof ("any finite bounds"); as a bounded, labelled stand-in the real generator is run natively on
    enumerated byte patterns with the symbolic bounds set to infinities."""
    from . import witness
    decls = [d for d in arbitrary_float_decls(tier) if any(v.kind == 'finite' for v in d.validators) and any(n.startswith('sym_') for n in d.aux)]
    if tier == 'quick':
        decls = [d for d in decls if ('f64' in d.id) or ('greater_less_sym' in d.id)]
    import concurrent.futures
    def one(d):
        try:
            return d, witness.run_witness(d)
        except Exception as e:
            return d, (None, repr(e))
    with concurrent.futures.ThreadPoolExecutor(max_workers=2) as ex:
        results = list(ex.map(one, decls))
    nd = 0
    for d, (wit, log) in results:
        if wit is None:
            out.undecided.append('%s: float Arbitrary run with infinite bounds did not build: %s' % (d.id, (log or '')[-200:]))
            continue
        nd += 1
        bad = [w for w in wit if w.get('entry') == 'Arbitrary']
        if bad:
            out.failed.append({'key': '%s::Arbitrary::arbitrary(native run incl. infinite bounds, bounded)' % d.id, 'backend': 'concrete exploration (bounded)',
                               'message': 'the real generator panics or yields an invalid value on a concrete byte input', 'detail': json.dumps(bad[:3]),
                               'decl': d.id, 'decl_obj': d, 'witness': bad})
    out.bounded.append('float Arbitrary with `finite` and infinite bounds: %d declarations run natively on enumerated byte patterns with bounds set to +-inf (bounded, not counted)' % nd)


def modular_part(out, prop, tier):
    """Kani modular mode (function contracts on the dumped text, stub_verified callers), floats."""
    from . import kani_modular
    allf = [d for d in float_decls(tier) if d.custom_validation is None]
    if tier == 'quick':
        pick = ('flt_f64_fin_greater_or_equal_less_sym', 'flt_f32_le_ge_fin_sym', 'flt_f64_san_fin_le', 'flt_f32_san_nov', 'flt_f64_greater_sym', 'flt_f32_pred_lt_fin')
        allf = [d for d in allf if d.id in pick]
    dr = pipeline.build_dumps(allf, prop + 'm')
    decls = [d for d in allf if 'mod __nutype_' in dr.dumps.get(d.id, '') and d.id not in dr.rustc_rejected]
    try:
        text, hs = kani_modular.crate_text(decls, dr.dumps)
    except Undecided as e:
        out.undecided.append(str(e))
        return
    crate = write_crate(prop + 'm', text, features=(), deps=())
    t0 = time.time()
    rc, output, wall, cmd = run_kani(crate, jobs=14)
    res = parse_kani(output)
    out.checker_cmds.append('cargo kani -Z function-contracts -Z stubbing (modular mode: proof_for_contract + stub_verified on the dumped expansions, crate work/kani_%sm, %d contract proofs)' % (prop, len(hs)))
    if not res:
        out.undecided.append('kani modular crate did not build/run: ' + output[-1200:])
        return
    solver = 0.0
    for name, d, fn in hs:
        r = res.get(name)
        key = '%s::%s (Kani function contract, modular)' % (d.id, fn)
        if r is None or r['status'] == 'UNKNOWN':
            out.undecided.append('kani modular harness %s produced no verdict' % name)
            continue
        solver += r['time']
        out.obligations += 1
        if r['status'] == 'SUCCESS':
            out.discharged += 1
        elif 'CBMC timed out' in r['text'] or 'CBMC failed' in '; '.join(r['failed']):
            out.obligations -= 1
            out.undecided.append('kani modular harness %s: solver timeout' % name)
        else:
            out.failed.append({'key': key, 'backend': 'kani (function contract)', 'message': '; '.join(r['failed'])[:400], 'detail': r['text'][-3000:],
                               'decl': d.id, 'decl_obj': d})
    out.extra['kani_modular'] = {'declarations': len(decls), 'contract_proofs': len(hs), 'solver_time_s': round(solver, 1), 'wall_s': round(time.time() - t0, 1),
                                 'note': 'try_new/new are proved against the CONTRACTS of __sanitize__/__validate__ (stub_verified), not their bodies'}
    if len(out.samples) < 12 and hs:
        out.samples.append({'obligation': '%s::try_new (Kani function contract, modular)' % decls[0].id,
                            'clause': '#[kani::ensures(|r| r == ref::try_new(raw) bit-exact)] proved with stub_verified(__sanitize__), stub_verified(__validate__)',
                            'declaration': decls[0].source().strip(), 'backend': 'kani'})


def regex_decls():
    """String newtypes with a `regex` validator: outside Verus (statics, the regex crate) and outside
    CBMC's reach; explored concretely only (bounded, labelled)."""
    out = []
    lit = Bound(src='"^[a-z]+[0-9]?$"', spec='', ref='"^[a-z]+[0-9]?$"')
    st = Bound(src='RE_STATIC', spec='', ref='"^[a-z]+[0-9]?$"')
    T, L = Sanitizer('trim'), Sanitizer('lowercase')
    ne, mx = Validator('not_empty'), Validator('len_char_max', aux.lit_bound(3))
    der = ['Debug', 'TryFrom', 'FromStr', 'AsRef']
    out.append(mk('re_lit', 'string', 'String', validators=[Validator('regex', lit)], derives=der))
    out.append(mk('re_tr_lo_ne_re_max', 'string', 'String', sanitizers=[T, L], validators=[ne, Validator('regex', lit), mx], derives=der))
    out.append(mk('re_tr_max_re_ne', 'string', 'String', sanitizers=[T], validators=[mx, Validator('regex', st), ne], aux=['RE_STATIC'], derives=der))
    for d in out:
        d.verus = False
        d.kani = True
    return out


def concrete_only_part(out, prop, tier):
    from . import witness
    from .main import PROP_ENTRIES
    decls = regex_decls()
    n = 0
    for d in decls:
        try:
            wit, log = witness.run_witness(d, features=('regex',))
        except Exception as e:
            wit, log = None, repr(e)
        if wit is None:
            out.undecided.append('%s: concrete exploration did not build: %s' % (d.id, (log or '')[-300:]))
            continue
        n += 1
        bad = [w for w in wit if w.get('entry') in PROP_ENTRIES.get(prop, ())]
        if bad:
            out.failed.append({'key': '%s::%s(bounded exploration)' % (d.id, bad[0]['entry']), 'backend': 'concrete exploration (bounded)',
                               'message': 'real code disagrees with the reference on a concrete input', 'detail': json.dumps(bad[:3]),
                               'decl': d.id, 'decl_obj': d, 'witness': bad})
    out.bounded.append('`regex` validators: %d String declarations explored concretely only (all strings up to 3 chars over the special alphabet + longer samples); not a proof, not counted' % n)


def kani_part(out, prop, tier, seed):
    if prop in ('C01', 'C02', 'C07', 'C03'):
        try:
            concrete_only_part(out, prop, tier)
        except Undecided as e:
            out.undecided.append(str(e)[:300])
    if prop == 'C01':
        try:
            modular_part(out, prop, tier)
        except Undecided as e:
            out.undecided.append(str(e)[:500])
    decls, hs, extra = harnesses_for(prop, tier, seed)
    if hs:
        decls, hs = prefilter(out, prop, decls, hs)
        kani_run_harnesses(out, prop, prop, decls, hs, extra_items=extra)
    if prop in ('C01', 'C05') and hs:
        # constructors / guarded entry points once more in a release-like build (debug assertions off)
        import copy
        sel = [h for h in hs if h.what in ('try_new', 'new') or h.what.startswith('guards run')]
        if prop == 'C01':
            sel = [h for h in sel if h.decl.family == 'float'][:40]
        dd = []
        rel = []
        for h in sel:
            if h.decl not in dd:
                dd.append(h.decl)
            h2 = copy.copy(h)
            h2.what = h.what + ' [release-like build: debug assertions off]'
            h2.key = '%s::%s' % (h.decl.id, h2.what)
            rel.append(h2)
        if rel:
            kani_run_harnesses(out, prop, prop + 'r', dd, rel, extra_items=extra, release_like=True)
    if prop == 'C03' and hs:
        # the same Default harnesses once more in a release-like build (debug assertions OFF): a guard that
        # only exists as `debug_assert!` must not be what keeps an invalid default out
        dh = [h for h in hs if h.what.startswith('Default::default')]
        dd = []
        for h in dh:
            if h.decl not in dd:
                dd.append(h.decl)
        import copy
        rel = []
        for h in dh:
            h2 = copy.copy(h)
            h2.what = h.what + ' [release-like build: debug assertions off]'
            h2.key = '%s::%s' % (h.decl.id, h2.what)
            rel.append(h2)
        kani_run_harnesses(out, prop, prop + 'r', dd, rel, extra_items=extra, release_like=True)
    if prop == 'C09':
        string_arbitrary_exploration(out, tier)
        float_arbitrary_infinite_bounds(out, tier)
    if prop in NATIVE_STRING_SERDE:
        # String documents whose text arrives as UTF-8 bytes (MessagePack `bin`) or through serde_json with
        # escapes: run natively against the real code (bounded, labelled); CBMC times out on UTF-8 validation
        from . import witness
        from .main import PROP_ENTRIES
        n = 0
        for d in NATIVE_STRING_SERDE[prop]:
            try:
                wit, wlog = witness.run_witness(d)
            except Exception as e:
                wit, wlog = None, repr(e)
            if wit is None:
                out.undecided.append('%s: native serde run did not build: %s' % (d.id, (wlog or '')[-200:]))
                continue
            n += 1
            bad = [w for w in wit if w.get('entry') in PROP_ENTRIES.get(prop, ())]
            if bad:
                out.failed.append({'key': '%s::%s(native run, bounded)' % (d.id, bad[0]['entry']), 'backend': 'concrete run (bounded)',
                                   'message': 'real code disagrees with the reference on a concrete document', 'detail': json.dumps(bad[:3]),
                                   'decl': d.id, 'decl_obj': d, 'witness': bad})
        out.bounded.append('String serde: %d declarations run natively on JSON documents (escapes, nesting) and on newtype structs around UTF-8 bytes (bounded)' % n)


def warm():
    out = report.Outcome('warm', 'quick', 0)
    d = float_decls('quick')[:1]
    kani_run_harnesses(out, 'warm', 'warm', d, [h_ctor(d[0], ['warm'])])
