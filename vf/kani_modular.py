"""Kani modular mode (M): real Kani FUNCTION CONTRACTS written on the dumped expansion of float
newtypes (insert-only, like the Verus annotator):

    #[kani::ensures(..)] on  __sanitize__, __validate__, try_new / new, TryFrom::try_from
    each proved by  #[kani::proof_for_contract(f)]           (callee bodies havocked away:)
    try_new is proved with  #[kani::stub_verified(__sanitize__)] #[kani::stub_verified(__validate__)]
    try_from is proved with #[kani::stub_verified(try_new)]

so a caller is checked against the callee's CONTRACT, not its body.  The harnesses and the
`kani::Arbitrary` impls needed by stub_verified are appended inside `mod __nutype_X__` under
`#[cfg(kani)]`; nothing the macro printed is removed or re-printed (erasure self-check).
"""
import os
import re

from . import aux, pipeline
from .annotate import parse_impl_head, Undecided
from .decl import Decl
from .refgen import ref_module
from .rustscan import Scan


def annotate_kani(d: Decl, dump: str, idx=0):
    sc = Scan(dump)
    mod, inner = sc.module()
    if mod is None:
        raise Undecided('no module in dump of ' + d.id)
    X = d.name
    E = d.error_type
    R = 'ref_' + d.id
    t = d.inner
    ins = []
    harness = []
    found = set()
    for it in inner:
        if it.kind != 'impl':
            continue
        h = parse_impl_head(dump[it.head_start:it.head_end])
        for fn in it.fns:
            params = dump[fn.params_open + 1:fn.params_close]
            m = re.match(r'\s*(?:mut\s+)?([A-Za-z_][A-Za-z0-9_]*)\s*:', params)
            p = m.group(1) if m else None
            if h.trait is None and fn.name == '__sanitize__':
                ins.append((fn.start, '#[cfg_attr(kani, kani::ensures(|r: &%s| r.to_bits() == %s::sanitize(%s).to_bits()))]\n        ' % (t, R, p)))
                harness.append(('__sanitize__', '    #[kani::proof_for_contract(%s::__sanitize__)]\n    fn m%d_sanitize() { SETUP let x: %s = kani::any(); let _ = %s::__sanitize__(x); }\n' % (X, idx, t, X)))
                found.add(fn.name)
            elif h.trait is None and fn.name == '__validate__':
                ins.append((fn.start, '#[cfg_attr(kani, kani::ensures(|r: &::core::result::Result<(), %s>| *r == %s::validate(%s)))]\n        ' % (E, R, p)))
                harness.append(('__validate__', '    #[kani::proof_for_contract(%s::__validate__)]\n    fn m%d_validate() { SETUP let x: %s = kani::any(); let _ = %s::__validate__(&x); }\n' % (X, idx, t, X)))
                found.add(fn.name)
            elif h.trait is None and fn.name == 'try_new':
                ins.append((fn.start, '#[cfg_attr(kani, kani::ensures(|r: &::core::result::Result<Self, %s>| r.as_ref().map(|v| v.0.to_bits()).map_err(|e| e.clone()) == %s::try_new(%s).map(|v| v.to_bits())))]\n        ' % (E, R, p)))
                harness.append(('try_new', '    #[kani::proof_for_contract(%s::try_new)]\n    #[kani::stub_verified(%s::__sanitize__)]\n    #[kani::stub_verified(%s::__validate__)]\n'
                                           '    fn m%d_try_new() { SETUP let x: %s = kani::any(); let _ = %s::try_new(x); }\n' % (X, X, X, idx, t, X)))
                found.add(fn.name)
            elif h.trait is None and fn.name == 'new':
                ins.append((fn.start, '#[cfg_attr(kani, kani::ensures(|r: &Self| r.0.to_bits() == %s::sanitize(%s).to_bits()))]\n        ' % (R, p)))
                harness.append(('new', '    #[kani::proof_for_contract(%s::new)]\n    #[kani::stub_verified(%s::__sanitize__)]\n'
                                       '    fn m%d_new() { SETUP let x: %s = kani::any(); let _ = %s::new(x); }\n' % (X, X, idx, t, X)))
                found.add(fn.name)
    need = {'__sanitize__'} | ({'__validate__', 'try_new'} if d.has_validation else {'new'})
    if need - found:
        raise Undecided('modular Kani: functions not found in %s: %s' % (d.id, sorted(need - found)))
    # appended block: Arbitrary impls for stub_verified + the proof harnesses
    block = ['\n    // ======== inserted for the Kani modular mode (cfg(kani) only) ========\n']
    if d.has_validation and d.custom_validation is None:
        vs = []
        m = re.search(r'pub enum %s\s*\{(.*?)\}' % re.escape(E), dump, re.S)
        vs = [x.strip() for x in re.sub(r'#\[[^\]]*\]', '', m.group(1)).split(',') if x.strip()] if m else []
        arms = ' '.join('%d => %s::%s,' % (i, E, v) for i, v in enumerate(vs[:-1]))
        block.append('    #[cfg(kani)]\n    impl kani::Arbitrary for %s { fn any() -> Self { match kani::any::<u8>() { %s _ => %s::%s } } }\n' % (E, arms, E, vs[-1]))
    block.append('    #[cfg(kani)]\n    impl kani::Arbitrary for %s { fn any() -> Self { %s(kani::any()) } }\n' % (X, X))
    from .kani_side import sym_setup
    setup = sym_setup(d).replace('\n', ' ').strip()
    block.append('    #[cfg(kani)]\n    mod mp {\n    use super::*;\n')
    for _, htext in harness:
        block.append(htext.replace('SETUP', setup))
    block.append('    }\n')
    ins.append((mod.end - 1, ''.join(block)))
    ins.sort()
    out = []
    last = 0
    for off, text in ins:
        out.append(dump[last:off])
        out.append(text)
        last = off
    out.append(dump[last:])
    text = ''.join(out)
    # erasure self-check
    pos = 0
    src_pos = 0
    rebuilt = []
    for off, t_ in ins:
        seg = off - src_pos
        rebuilt.append(text[pos:pos + seg])
        pos += seg
        if text[pos:pos + len(t_)] != t_:
            raise Undecided('erasure self-check failed (modular Kani)')
        pos += len(t_)
        src_pos = off
    rebuilt.append(text[pos:])
    if ''.join(rebuilt) != dump:
        raise Undecided('erasure self-check failed (modular Kani)')
    return text, [('m%d_%s' % (idx, {'__sanitize__': 'sanitize', '__validate__': 'validate', 'try_new': 'try_new', 'new': 'new'}[n]), n) for n, _ in harness]


def crate_text(decls, dumps):
    names = []
    for d in decls:
        names.extend(d.aux)
    out = ['#![allow(dead_code, unused_imports, unused_variables, unused_mut, static_mut_refs, non_snake_case, non_upper_case_globals, unused_unsafe, overflowing_literals, clippy::all)]\n',
           aux.render(names, 'kani'), '\n']
    hs = []
    for i, d in enumerate(decls):
        text, h = annotate_kani(d, dumps[d.id], i)
        body = '\n'.join(l for l in text.splitlines() if not l.startswith('// NUTYPE_VERIF_INPUT'))
        out.append('pub mod d_%s {\n    use super::*;\n%s\n}\n' % (d.id, body))
        out.append(ref_module(d))
        hs.extend((name, d, fn) for name, fn in h)
    return ''.join(out), hs
