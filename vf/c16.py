"""C16: what the generated error message SAYS, read from the real expansion, against what the
validator ACCEPTS.

(1) the `Display` arm of every bound-violation variant is read from the dump (format string,
    `stringify!(..)` argument, bound argument);
(2) a fixed phrase table maps the English wording to a relation; an unknown phrase is undecided;
(3) the lemma  forall x. stated_relation(x, bound) <=> validator_accepts(x)  is discharged by Verus
    (integers: mathematical ints; strings: lengths) or Kani (floats: all non-NaN bit patterns);
(4) structural reads: the message names the type and the declared bound; the FromStr `Validate`
    arm and the serde error embed the validation error's Display text unchanged.
"""
import re

from .rustscan import Scan
from .decl import Decl, VARIANT, REL

# phrase -> (subject, relation)
PHRASES = [
    (r'The value must be greater than \{:#\?\}', ('value', '>')),
    (r'The value must be greater or equal to \{:#\?\}', ('value', '>=')),
    (r'The value must be greater than or equal to \{:#\?\}', ('value', '>=')),
    (r'The value must be less than \{:#\?\}', ('value', '<')),
    (r'The value must be less or equal to \{:#\?\}', ('value', '<=')),
    (r'The value must be less than or equal to \{:#\?\}', ('value', '<=')),
    (r'The value length must be less than \{:#\?\} character', ('len', '<')),
    (r'The value length must be more than \{:#\?\} character', ('len', '>')),
    (r'The value length must be at most \{:#\?\} character', ('len', '<=')),
    (r'The value length must be at least \{:#\?\} character', ('len', '>=')),
    (r'The value length must be less or equal to \{:#\?\} character', ('len', '<=')),
    (r'The value length must be greater or equal to \{:#\?\} character', ('len', '>=')),
]

BOUND_KINDS = ('greater', 'greater_or_equal', 'less', 'less_or_equal', 'len_char_min', 'len_char_max')


def _split_top_commas(s):
    out, depth, cur = [], 0, ''
    i = 0
    in_str = False
    while i < len(s):
        c = s[i]
        if in_str:
            cur += c
            if c == '\\':
                cur += s[i + 1]
                i += 1
            elif c == '"':
                in_str = False
        elif c == '"':
            in_str = True
            cur += c
        elif c in '([{':
            depth += 1
            cur += c
        elif c in ')]}':
            depth -= 1
            cur += c
        elif c == ',' and depth == 0:
            out.append(cur.strip())
            cur = ''
        else:
            cur += c
        i += 1
    if cur.strip():
        out.append(cur.strip())
    return out


def read_display_arms(dump_text: str, error_type: str):
    """{variant: {'fmt':…, 'name_arg':…, 'bound_arg':…}} read from `impl Display for <error_type>`.
    Accepts `E::V => write!(f, "..", args)` as well as `Self::V => f.write_fmt(format_args!("..", args))`
    and similar shapes: the format string is the first string literal of the arm, its arguments are
    the remaining arguments of the macro call that contains it."""
    sc = Scan(dump_text)
    s = dump_text
    m = re.search(r'impl\s*(?:::)?core::fmt::Display\s+for\s+' + re.escape(error_type) + r'\s*\{', s)
    if not m:
        return None
    start = m.end() - 1
    end = sc.braces[start]
    arms = {}
    heads = list(re.finditer(r'(?:' + re.escape(error_type) + r'|Self)\s*::\s*([A-Za-z]+)\s*=>', s[start:end]))
    for i, am in enumerate(heads):
        variant = am.group(1)
        a0 = start + am.end()
        a1 = start + heads[i + 1].start() if i + 1 < len(heads) else end
        # first string literal of the arm
        q = -1
        for j in range(a0, a1):
            if s[j] == '"' and not sc.mask[j] and (j == 0 or sc.mask[j - 1]):
                q = j
                break
        if q < 0:
            continue
        # the innermost parenthesis group containing it
        po = max((o for o, cl in sc.parens.items() if o < q < cl and o >= a0), default=None)
        if po is None:
            continue
        args = _split_top_commas(s[po + 1:sc.parens[po]])
        k = next((idx for idx, x in enumerate(args) if x.startswith('"')), None)
        if k is None:
            continue
        fmt = args[k]
        rest = args[k + 1:]
        bound_arg = re.sub(r'\s+', ' ', rest[1]) if len(rest) > 1 else ''
        bound_type = None
        if re.fullmatch(r'[A-Za-z_][A-Za-z0-9_]*', bound_arg):
            # `let bound: T = <expr>;` earlier in the arm: the printed value is <expr> evaluated as a T
            lm = re.search(r'\blet\s+' + re.escape(bound_arg) + r'\s*:\s*([A-Za-z0-9_:]+)\s*=\s*', s[a0:q])
            # the binding must be the ONLY one of that name in the arm (no shadowing / reassignment in between)
            rebinds = len(re.findall(r'\blet\s+(?:mut\s+)?' + re.escape(bound_arg) + r'\b', s[a0:q])) + len(re.findall(r'\b' + re.escape(bound_arg) + r'\s*[-+*/]?=[^=]', s[a0:q]))
            if lm and rebinds == 1:   # exactly the one typed `let`
                e0 = a0 + lm.end()
                e1 = next((j for j in range(e0, q) if s[j] == ';' and sc.mask[j] and not any(o < j < c for o, c in sc.parens.items() if o >= e0)), None)
                if e1 is not None:
                    bound_type = lm.group(1)
                    bound_arg = re.sub(r'\s+', ' ', s[e0:e1].strip())
        arms[variant] = {'fmt': fmt[1:-1], 'name_arg': rest[0] if rest else '', 'bound_arg': bound_arg, 'bound_type': bound_type}
    return arms


def self_typed(tokens: str):
    """the expression has a type of its own wherever it is written: a suffixed literal, a path
    (constant, `T::MAX`) or a call of a path; anything else (parenthesised / operator expressions,
    bare literals) takes its type from the context it is printed in"""
    t = re.sub(r'\s+', '', tokens)
    if re.fullmatch(r'-?[0-9][0-9_]*(\.[0-9_]+)?(e-?[0-9]+)?[iuf](8|16|32|64|128|size)', t):
        return True
    return re.fullmatch(r'-?(::)?[A-Za-z_][A-Za-z0-9_]*(::[A-Za-z_][A-Za-z0-9_]*)*(\(\))?', t) is not None


def stated_relation(fmt: str):
    for pat, rel in PHRASES:
        if re.search(pat, fmt):
            return rel
    return None


def norm_bound(tokens: str):
    t = re.sub(r'\s+', '', tokens)
    t = t.replace('_', '') if re.fullmatch(r'-?[0-9_.]+(e-?[0-9]+)?([iuf](8|16|32|64|128|size))?', t) else t
    t = re.sub(r'^(-?[0-9.]+(?:e-?[0-9]+)?)(?:[iuf](?:8|16|32|64|128|size))$', r'\1', t)
    return t


def bound_matches(arg: str, declared_src: str):
    a, b = norm_bound(arg), norm_bound(declared_src)
    if a == b:
        return True
    try:
        return float(a) == float(b)
    except ValueError:
        return False


def analyse(d: Decl, dump_text: str):
    """-> list of dicts per bound validator: variant, stated (subject, rel) or None, names_ok, bound_ok, fmt"""
    arms = read_display_arms(dump_text, d.error_type)
    if arms is None:
        return None
    out = []
    for v in d.validators:
        if v.kind not in BOUND_KINDS:
            continue
        var = VARIANT[v.kind]
        arm = arms.get(var)
        if arm is None:
            out.append({'variant': var, 'validator': v, 'missing': True})
            continue
        na = re.sub(r'\s+', '', arm['name_arg'])
        # the message names the type: via stringify!(X), a string literal "X", or literally in the text
        name_ok = (na in ('stringify!(%s)' % d.name, '"%s"' % d.name) and '{}' in arm['fmt']) or re.search(r'\b%s\b' % re.escape(d.name), arm['fmt']) is not None
        out.append({'variant': var, 'validator': v, 'missing': False, 'fmt': arm['fmt'], 'stated': stated_relation(arm['fmt']),
                    'names_ok': name_ok,
                    # the bound argument is the declared expression AND it is evaluated as a value of
                    # the type the validator compares in (otherwise: decided by running the real code)
                    'bound_ok': (bound_matches(arm['bound_arg'], v.bound.src)
                                 and (self_typed(arm['bound_arg']) or arm.get('bound_type') == ('usize' if d.family == 'string' else d.inner)))
                                or (v.bound.value is not None and self_typed(v.bound.src + (d.inner if d.family != 'string' else 'usize')) and norm_bound(v.bound.src) in arm['fmt']),
                    'bound_arg': arm['bound_arg']})
    return out


def accepts_rel(kind):
    return {'greater': '>', 'greater_or_equal': '>=', 'less': '<', 'less_or_equal': '<=', 'len_char_min': '>=', 'len_char_max': '<='}[kind]


def read_embedding(dump_text: str, d: Decl):
    """structural reads: FromStr's Validate arm prints the validation error with `{}`; the serde
    visitor's custom error starts with `{validation_error}`.  -> list of (what, ok)"""
    out = []
    pe = d.name + 'ParseError'
    m = re.search(re.escape(pe) + r'::Validate\s*\(\s*err\s*\)\s*=>\s*(?:\{\s*)?write!\s*\(\s*f\s*,\s*"((?:[^"\\]|\\.)*)"\s*,\s*"' + re.escape(d.name) + r'"\s*,\s*err\s*\)', dump_text)
    if pe in dump_text and 'Validate' in dump_text:
        ok = bool(m) and m.group(1).count('{}') == 2 and m.group(1).rstrip().endswith('{}')
        out.append(('FromStr error embeds the validation message via `{}`', ok))
    if 'visit_newtype_struct' in dump_text and 'validation_error' in dump_text:
        m2 = re.search(r'format_args!\s*\(\s*"\{validation_error\}', dump_text)
        out.append(('serde error starts with the validation message `{validation_error}`', bool(m2)))
    return out
