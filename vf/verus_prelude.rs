// ---- fixed prelude: ASSUMED contracts on the Rust standard library (trusted, listed in evidence) ----
// Every std function the generated code may call gets its own *uninterpreted* spec symbol, so a
// changed call (trim -> trim_start, to_lowercase -> to_ascii_lowercase, chars().count() -> len())
// fails a postcondition instead of turning into "unsupported".
pub uninterp spec fn spec_trim(s: Seq<char>) -> Seq<char>;
pub uninterp spec fn spec_trim_start(s: Seq<char>) -> Seq<char>;
pub uninterp spec fn spec_trim_end(s: Seq<char>) -> Seq<char>;
pub uninterp spec fn spec_lower(s: Seq<char>) -> Seq<char>;
pub uninterp spec fn spec_upper(s: Seq<char>) -> Seq<char>;
pub uninterp spec fn spec_ascii_lower(s: Seq<char>) -> Seq<char>;
pub uninterp spec fn spec_ascii_upper(s: Seq<char>) -> Seq<char>;

pub assume_specification[ str::trim ](s: &str) -> (r: &str)
    ensures r@ == spec_trim(s@);
pub assume_specification[ str::trim_start ](s: &str) -> (r: &str)
    ensures r@ == spec_trim_start(s@);
pub assume_specification[ str::trim_end ](s: &str) -> (r: &str)
    ensures r@ == spec_trim_end(s@);
pub assume_specification[ str::to_lowercase ](s: &str) -> (r: String)
    ensures r@ == spec_lower(s@);
pub assume_specification[ str::to_uppercase ](s: &str) -> (r: String)
    ensures r@ == spec_upper(s@);
pub assume_specification[ str::to_ascii_lowercase ](s: &str) -> (r: String)
    ensures r@ == spec_ascii_lower(s@);
pub assume_specification[ str::to_ascii_uppercase ](s: &str) -> (r: String)
    ensures r@ == spec_ascii_upper(s@);
pub uninterp spec fn spec_string_byte_len(s: Seq<char>) -> usize;
pub assume_specification[ String::len ](s: &String) -> (r: usize)
    ensures r == spec_string_byte_len(s@);
pub assume_specification<'a>[ <core::str::Chars<'a> as Iterator>::count ](c: core::str::Chars<'a>) -> (r: usize)
    ensures r == c.remaining().len();

global size_of usize == 8;

// opaque std error types that appear as payload of the generated `<X>ParseError` enums
#[verifier::external_type_specification]
#[verifier::external_body]
pub struct ExParseIntError(core::num::ParseIntError);
#[verifier::external_type_specification]
#[verifier::external_body]
pub struct ExParseFloatError(core::num::ParseFloatError);

// `impl Into<String>` arguments: the only facts assumed about the conversion.
pub broadcast axiom fn axiom_into_string_from_string(x: String, s: String)
    requires #[trigger] call_ensures(<String as Into<String>>::into, (x,), s)
    ensures s@ == x@;
pub broadcast axiom fn axiom_into_string_from_str(x: &str, s: String)
    requires #[trigger] call_ensures(<&str as Into<String>>::into, (x,), s)
    ensures s@ == x@;

// Algebraic facts about std's trim / case mapping used only by the C11 (canonical form) lemmas.
// A1-A3 idempotence; A4/A5 case mapping neither creates nor removes edge whitespace, i.e. trim and
// case mapping commute "up to" re-application.  Statements about std, not about nutype.
pub broadcast axiom fn axiom_trim_idem(s: Seq<char>)
    ensures #[trigger] spec_trim(spec_trim(s)) == spec_trim(s);
pub broadcast axiom fn axiom_lower_idem(s: Seq<char>)
    ensures #[trigger] spec_lower(spec_lower(s)) == spec_lower(s);
pub broadcast axiom fn axiom_upper_idem(s: Seq<char>)
    ensures #[trigger] spec_upper(spec_upper(s)) == spec_upper(s);
pub broadcast axiom fn axiom_trim_of_lower_of_trim(s: Seq<char>)
    ensures #[trigger] spec_trim(spec_lower(spec_trim(s))) == spec_lower(spec_trim(s));
pub broadcast axiom fn axiom_trim_of_upper_of_trim(s: Seq<char>)
    ensures #[trigger] spec_trim(spec_upper(spec_trim(s))) == spec_upper(spec_trim(s));
pub broadcast axiom fn axiom_lower_of_trim_of_lower(s: Seq<char>)
    ensures #[trigger] spec_lower(spec_trim(spec_lower(s))) == spec_trim(spec_lower(s));
pub broadcast axiom fn axiom_upper_of_trim_of_upper(s: Seq<char>)
    ensures #[trigger] spec_upper(spec_trim(spec_upper(s))) == spec_trim(spec_upper(s));
pub broadcast group group_c11_std_axioms {
    axiom_trim_idem, axiom_lower_idem, axiom_upper_idem,
    axiom_trim_of_lower_of_trim, axiom_trim_of_upper_of_trim,
    axiom_lower_of_trim_of_lower, axiom_upper_of_trim_of_upper,
}
