"""Minimal Rust source scanner: enough lexical awareness (strings, chars, lifetimes, comments) to
find items, impl blocks and fn signatures in a rustfmt-ed macro expansion by *offset*, so that the
annotator can insert text without re-printing any executable token."""
import re
from dataclasses import dataclass, field
from typing import List, Optional


class ScanError(Exception):
    pass


def _skip_string(s, i):
    # s[i] == '"'
    i += 1
    n = len(s)
    while i < n:
        c = s[i]
        if c == '\\':
            i += 2
            continue
        if c == '"':
            return i + 1
        i += 1
    raise ScanError("unterminated string")


def _skip_raw_string(s, i):
    # s[i] == 'r', followed by #*"
    j = i + 1
    hashes = 0
    while s[j] == '#':
        hashes += 1
        j += 1
    assert s[j] == '"'
    end = s.find('"' + '#' * hashes, j + 1)
    if end < 0:
        raise ScanError("unterminated raw string")
    return end + 1 + hashes


_IDENT = re.compile(r'[A-Za-z_][A-Za-z0-9_]*')


COMMENT_MASK = []


def code_mask(s):
    """Return a list `m` with m[i] True iff s[i] is code (not inside string/char/comment)."""
    n = len(s)
    m = [True] * n
    COMMENT_MASK.clear()
    COMMENT_MASK.extend([False] * n)
    i = 0
    while i < n:
        c = s[i]
        if c == '/' and i + 1 < n and s[i + 1] == '/':
            j = s.find('\n', i)
            if j < 0:
                j = n
            for k in range(i, j):
                m[k] = False
                COMMENT_MASK[k] = True
            i = j
        elif c == '/' and i + 1 < n and s[i + 1] == '*':
            depth = 1
            j = i + 2
            while j < n and depth:
                if s.startswith('/*', j):
                    depth += 1
                    j += 2
                elif s.startswith('*/', j):
                    depth -= 1
                    j += 2
                else:
                    j += 1
            for k in range(i, j):
                m[k] = False
                COMMENT_MASK[k] = True
            i = j
        elif c == '"':
            j = _skip_string(s, i)
            for k in range(i, j):
                m[k] = False
            i = j
        elif c == 'r' and i + 1 < n and s[i + 1] in '#"' and (i == 0 or not (s[i - 1].isalnum() or s[i - 1] == '_')):
            # raw string r"..." / r#"..."#  (but not an identifier like `r#type`, not produced here)
            j = i + 1
            while j < n and s[j] == '#':
                j += 1
            if j < n and s[j] == '"':
                j = _skip_raw_string(s, i)
                for k in range(i, j):
                    m[k] = False
                i = j
            else:
                i += 1
        elif c == 'b' and i + 1 < n and s[i + 1] == '"' and (i == 0 or not (s[i - 1].isalnum() or s[i - 1] == '_')):
            j = _skip_string(s, i + 1)
            for k in range(i, j):
                m[k] = False
            i = j
        elif c == "'":
            # char literal or lifetime
            if i + 2 < n and s[i + 1] == '\\':
                j = s.find("'", i + 2)
                # '\'' special case
                if s[i + 2] == "'":
                    j = i + 3
                if j < 0:
                    raise ScanError("unterminated char")
                for k in range(i, j + 1):
                    m[k] = False
                i = j + 1
            elif i + 2 < n and s[i + 2] == "'":
                for k in range(i, i + 3):
                    m[k] = False
                i += 3
            else:
                # multi-byte char literal like 'é' handled above (python indexes code points);
                # otherwise a lifetime
                i += 1
        else:
            i += 1
    return m


def match_braces(s, mask, open_ch='{', close_ch='}'):
    """Map offset of each code `{` to the offset of its matching `}`."""
    stack = []
    out = {}
    for i, c in enumerate(s):
        if not mask[i]:
            continue
        if c == open_ch:
            stack.append(i)
        elif c == close_ch:
            if not stack:
                raise ScanError("unbalanced %s at %d" % (close_ch, i))
            out[stack.pop()] = i
    if stack:
        raise ScanError("unbalanced %s" % open_ch)
    return out


def norm(text):
    """Whitespace-insensitive normal form used for matching heads."""
    t = re.sub(r'\s+', ' ', text.strip())
    t = re.sub(r'\s*([<>(),:&\[\];=+])\s*', r'\1', t)
    t = t.replace('- >', '->')
    return t


@dataclass
class Fn:
    name: str
    start: int           # offset of first attribute / qualifier of the fn item
    sig_start: int       # offset of `fn` keyword (qualifiers before it)
    params_open: int
    params_close: int
    ret_start: Optional[int]   # offset of first char of the return type (after `-> `), or None
    ret_end: Optional[int]     # offset one past the return type
    where_start: Optional[int]
    body_open: int
    body_close: int
    quals: str = ''      # e.g. "pub const", "pub unsafe", ""
    attrs: str = ''


@dataclass
class Item:
    kind: str            # 'impl', 'struct', 'enum', 'mod', 'use', 'fn', 'other'
    start: int           # offset of first attribute (or the item keyword)
    head_start: int      # offset after attributes
    head_end: int        # offset of `{` or `;` ending the head
    end: int             # offset one past the closing `}` or `;`
    head: str = ''       # normalised head text (without attributes)
    attrs: str = ''
    fns: List[Fn] = field(default_factory=list)


def _skip_ws(s, i, mask, comment=None):
    """skip whitespace and comments (never string / char literals, which are non-code too)"""
    n = len(s)
    comment = comment if comment is not None else CURRENT_COMMENT[0]
    while i < n and (s[i].isspace() or (comment is not None and i < len(comment) and comment[i])):
        i += 1
    return i


CURRENT_COMMENT = [None]


def _find_code(s, mask, chars, i, end):
    while i < end:
        if mask[i] and s[i] in chars:
            return i
        i += 1
    return -1


def _skip_attrs(s, mask, i, end, brackets, comment=None):
    """Skip `#[...]` attributes starting at i; return offset after them."""
    while True:
        i = _skip_ws(s, i, mask, comment)
        if i < end and s[i] == '#' and mask[i]:
            j = i + 1
            if j < end and s[j] == '!':
                j += 1
            if j < end and s[j] == '[':
                i = brackets[j] + 1
                continue
        return i


def _angle_aware_find(s, mask, i, end, targets, parens, brackets):
    """Find first occurrence at angle-depth 0 / paren-depth 0 of one of `targets` (single chars or
    the keyword 'where'); `->` is not an angle."""
    depth = 0
    while i < end:
        if not mask[i]:
            i += 1
            continue
        c = s[i]
        if c == '(':
            i = parens[i] + 1
            continue
        if c == '[':
            i = brackets[i] + 1
            continue
        if c == '<':
            depth += 1
        elif c == '>':
            if i > 0 and s[i - 1] == '-':
                pass
            else:
                depth -= 1
        elif depth == 0:
            if c in targets:
                return i
            if 'where' in targets and s.startswith('where', i) and not (s[i - 1].isalnum() or s[i - 1] == '_') and not (s[i + 5].isalnum() or s[i + 5] == '_'):
                return i
        i += 1
    return -1


class Scan:
    def __init__(self, text):
        self.s = text
        self.mask = code_mask(text)
        self.comment = list(COMMENT_MASK)
        CURRENT_COMMENT[0] = self.comment
        self.braces = match_braces(text, self.mask, '{', '}')
        self.parens = match_braces(text, self.mask, '(', ')')
        self.brackets = match_braces(text, self.mask, '[', ']')

    def items(self, start, end):
        """Items lexically between start and end (the inside of a module or impl block)."""
        s, mask = self.s, self.mask
        out = []
        i = start
        while True:
            i = _skip_ws(s, i, mask, self.comment)
            if i >= end:
                break
            item_start = i
            hs = _skip_attrs(s, mask, i, end, self.brackets, self.comment)
            attrs = s[item_start:hs]
            # find the end of head: first `{` or `;` at paren depth 0
            j = hs
            while j < end:
                if mask[j]:
                    if s[j] == '(':
                        j = self.parens[j] + 1
                        continue
                    if s[j] == '[':
                        j = self.brackets[j] + 1
                        continue
                    if s[j] in '{;':
                        break
                j += 1
            if j >= end:
                raise ScanError("item without end at %d: %r" % (hs, s[hs:hs + 60]))
            head_end = j
            if s[j] == '{':
                item_end = self.braces[j] + 1
            else:
                item_end = j + 1
            head = norm(s[hs:head_end])
            kw = re.match(r'(?:pub(?:\([^)]*\))? ?)?(?:unsafe )?(?:const )?(?:unsafe )?(impl|struct|enum|mod|use|fn|static|const|type|trait)\b', head)
            kind = kw.group(1) if kw else 'other'
            if re.match(r'(?:pub(?:\([^)]*\))? )?const [A-Za-z_][A-Za-z0-9_]*:', head):
                kind = 'const'
            out.append(Item(kind=kind, start=item_start, head_start=hs, head_end=head_end,
                            end=item_end, head=head, attrs=attrs))
            i = item_end
        return out

    def parse_fn(self, it: Item) -> Fn:
        s, mask = self.s, self.mask
        m = re.search(r'\bfn\s+([A-Za-z_][A-Za-z0-9_]*)', s[it.head_start:it.head_end])
        if not m:
            raise ScanError("not a fn: " + it.head)
        name = m.group(1)
        sig_start = it.head_start + m.start()
        quals = norm(s[it.head_start:sig_start])
        k = it.head_start + m.end()
        # optional generics
        k = _skip_ws(s, k, mask, self.comment)
        if s[k] == '<':
            depth = 0
            while True:
                if mask[k]:
                    if s[k] == '<':
                        depth += 1
                    elif s[k] == '>' and s[k - 1] != '-':
                        depth -= 1
                        if depth == 0:
                            k += 1
                            break
                k += 1
            k = _skip_ws(s, k, mask, self.comment)
        if s[k] != '(':
            raise ScanError("fn params not found: " + it.head)
        po = k
        pc = self.parens[po]
        k = _skip_ws(s, pc + 1, mask, self.comment)
        ret_start = ret_end = None
        where_start = None
        if s.startswith('->', k):
            ret_start = _skip_ws(s, k + 2, mask, self.comment)
            w = _angle_aware_find(s, mask, ret_start, it.head_end, ('where',), self.parens, self.brackets)
            if w >= 0:
                where_start = w
                ret_end = w
            else:
                ret_end = it.head_end
            while s[ret_end - 1].isspace():
                ret_end -= 1
        else:
            if s.startswith('where', k):
                where_start = k
        body_open = it.head_end
        if s[body_open] != '{':
            raise ScanError("fn without body: " + it.head)
        return Fn(name=name, start=it.start, sig_start=sig_start, params_open=po, params_close=pc,
                  ret_start=ret_start, ret_end=ret_end, where_start=where_start,
                  body_open=body_open, body_close=self.braces[body_open], quals=quals, attrs=it.attrs)

    def module(self, name_prefix='__nutype_'):
        """Locate `mod __nutype_X__ { ... }` at top level; return (Item, inner items with fns)."""
        top = self.items(0, len(self.s))
        mods = [it for it in top if it.kind == 'mod' and name_prefix in it.head]
        if len(mods) != 1:
            return None, top
        mod = mods[0]
        inner = self.items(mod.head_end + 1, mod.end - 1)
        for it in inner:
            if it.kind == 'impl':
                for sub in self.items(it.head_end + 1, it.end - 1):
                    if sub.kind == 'fn':
                        it.fns.append(self.parse_fn(sub))
        return mod, inner
