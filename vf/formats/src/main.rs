//! BOUNDED check of the assumption C04/C10 make about the three supported formats: serde_json, ron
//! and rmp-serde implement `deserialize_newtype_struct` by calling `visit_newtype_struct` (handing a
//! deserializer for the inner value) or failing, and encode `serialize_newtype_struct(name, &v)`
//! as the inner value (JSON / MessagePack: byte-identical).  Executed on sample documents.
use serde::de::{self, Deserializer, Visitor};
use serde::ser::{Serialize, Serializer};
use std::fmt;

#[derive(Debug, PartialEq)]
enum Seen { Newtype(i64), Other(&'static str) }
struct Probe(Seen);
struct V;
impl<'de> Visitor<'de> for V {
    type Value = Seen;
    fn expecting(&self, f: &mut fmt::Formatter) -> fmt::Result { write!(f, "probe") }
    fn visit_newtype_struct<D: Deserializer<'de>>(self, d: D) -> Result<Seen, D::Error> {
        let v: i64 = serde::Deserialize::deserialize(d)?;
        Ok(Seen::Newtype(v))
    }
    fn visit_i64<E: de::Error>(self, _v: i64) -> Result<Seen, E> { Ok(Seen::Other("visit_i64")) }
    fn visit_u64<E: de::Error>(self, _v: u64) -> Result<Seen, E> { Ok(Seen::Other("visit_u64")) }
    fn visit_seq<A: de::SeqAccess<'de>>(self, _a: A) -> Result<Seen, A::Error> { Ok(Seen::Other("visit_seq")) }
    fn visit_str<E: de::Error>(self, _v: &str) -> Result<Seen, E> { Ok(Seen::Other("visit_str")) }
    fn visit_unit<E: de::Error>(self) -> Result<Seen, E> { Ok(Seen::Other("visit_unit")) }
}
impl<'de> serde::Deserialize<'de> for Probe {
    fn deserialize<D: Deserializer<'de>>(d: D) -> Result<Self, D::Error> { d.deserialize_newtype_struct("Probe", V).map(Probe) }
}
struct W(i64);
impl Serialize for W { fn serialize<S: Serializer>(&self, s: S) -> Result<S::Ok, S::Error> { s.serialize_newtype_struct("W", &self.0) } }

fn main() {
    let mut bad: Vec<String> = vec![];
    let mut n = 0;
    for v in [0i64, 1, -1, 42, i64::MAX, i64::MIN, 255, 256, 65536] {
        n += 1;
        // JSON
        let doc = serde_json::to_string(&v).unwrap();
        match serde_json::from_str::<Probe>(&doc) { Ok(Probe(Seen::Newtype(x))) if x == v => {}, other => bad.push(format!("json de {doc}: {:?}", other.map(|p| p.0).map_err(|e| e.to_string()))) }
        if serde_json::to_string(&W(v)).unwrap() != doc { bad.push(format!("json ser {v}")); }
        if let Ok(Probe(s)) = serde_json::from_str::<Probe>(&format!("[{doc}]")) { if matches!(s, Seen::Newtype(_)) { /* json unwraps 1-tuples: accepted form */ } }
        // MessagePack
        let bytes = rmp_serde::to_vec(&v).unwrap();
        match rmp_serde::from_slice::<Probe>(&bytes) { Ok(Probe(Seen::Newtype(x))) if x == v => {}, other => bad.push(format!("msgpack de {v}: {:?}", other.map(|p| p.0).map_err(|e| e.to_string()))) }
        if rmp_serde::to_vec(&W(v)).unwrap() != bytes { bad.push(format!("msgpack ser {v}")); }
        // RON: a newtype struct is written `(5)` and read from `(5)` / `Probe(5)`; a bare `5` may fail
        let r = ron::to_string(&W(v)).unwrap();
        if r != format!("({})", ron::to_string(&v).unwrap()) { bad.push(format!("ron ser {v}: {r}")); }
        for doc in [format!("Probe({v})"), format!("({v})")] {
            match ron::from_str::<Probe>(&doc) { Ok(Probe(Seen::Newtype(x))) if x == v => {}, other => bad.push(format!("ron de {doc}: {:?}", other.map(|p| p.0).map_err(|e| e.to_string()))) }
        }
        match ron::from_str::<Probe>(&format!("{v}")) { Ok(Probe(Seen::Newtype(x))) if x == v => {}, Err(_) => {}, other => bad.push(format!("ron de bare {v}: {:?}", other.map(|p| p.0).map_err(|e| e.to_string()))) }
    }
    // wrongly typed documents must not reach visit_newtype_struct with a value
    for doc in ["\"x\"", "null", "true", "{}"] {
        n += 1;
        if let Ok(Probe(Seen::Newtype(_))) = serde_json::from_str::<Probe>(doc) { bad.push(format!("json accepted {doc}")); }
    }
    println!("{{\"documents\":{},\"violations\":{:?}}}", n, bad);
    if !bad.is_empty() { std::process::exit(1); }
}
