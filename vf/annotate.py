"""Annotator: inserts contracts *in place* into the dumped expansion (insert-only, by offset).

Nothing the macro printed is removed or re-printed.  Every insertion is one of
  * `(r: ` … `)` around a return type, plus an `ensures`/`returns` clause before the body,
  * an attribute `#[verifier::external]` on an item Verus cannot take (listed in the evidence),
  * a block of spec-mode items appended inside `mod __nutype_X__` (spec fns, the type invariant,
    `…SpecImpl` impls, proof fns), and a `broadcast use` line after `use super::*;`.
The erasure self-check removes the recorded insertions and compares with the dump.
"""
import re
from dataclasses import dataclass, field
from typing import List, Optional, Tuple

from .rustscan import Scan, Item, Fn, norm, ScanError
from .decl import Decl, VARIANT, REL


class Undecided(Exception):
    """Lost anchor / unsupported shape: never a violation."""


@dataclass
class ImplHead:
    generics: str
    trait: Optional[str]      # last path segment of the trait, e.g. TryFrom
    trait_full: Optional[str]
    trait_args: Optional[str]  # text inside <...> of the trait
    self_ty: str


def _split_top(s, word):
    """index of keyword `word` at angle/paren depth 0 in s, or -1"""
    depth = 0
    i = 0
    n = len(s)
    while i < n:
        c = s[i]
        if c in '<([':
            depth += 1
        elif c in ')]':
            depth -= 1
        elif c == '>' and (i == 0 or s[i - 1] != '-'):
            depth -= 1
        elif depth == 0 and s.startswith(word, i):
            before = s[i - 1] if i > 0 else ' '
            after = s[i + len(word)] if i + len(word) < n else ' '
            if not (before.isalnum() or before == '_') and not (after.isalnum() or after == '_'):
                return i
        i += 1
    return -1


def parse_impl_head(raw: str) -> ImplHead:
    s = re.sub(r'\s+', ' ', raw.strip())
    assert s.startswith('impl'), s
    s = s[4:].lstrip()
    generics = ''
    if s.startswith('<'):
        depth = 0
        for i, c in enumerate(s):
            if c == '<':
                depth += 1
            elif c == '>' and s[i - 1] != '-':
                depth -= 1
                if depth == 0:
                    generics = s[:i + 1]
                    s = s[i + 1:].lstrip()
                    break
    w = _split_top(s, 'where')
    if w >= 0:
        s = s[:w].rstrip()
    f = _split_top(s, 'for')
    if f < 0:
        return ImplHead(generics, None, None, None, s.strip())
    trait_full = s[:f].strip()
    self_ty = s[f + 3:].strip()
    m = re.match(r'^(.*?)(<(.*)>)?$', trait_full)
    path = trait_full
    args = None
    lt = trait_full.find('<')
    if lt >= 0:
        path = trait_full[:lt].strip()
        args = trait_full[lt + 1:trait_full.rfind('>')].strip()
    trait = path.split('::')[-1].strip()
    return ImplHead(generics, trait, trait_full, args, self_ty)


@dataclass
class Obligation:
    decl: str
    fn: str                 # e.g. "try_new", "TryFrom<i32>::try_from"
    kind: str               # contract | invariant_only | external | lemma
    props: List[str]
    clause: str = ''
    start_off: int = 0      # offsets in the dump text (fn item start .. body close)
    end_off: int = 0
    start_line: int = 0     # 0-based line range of the function in the annotated module text
    end_line: int = 0
    clause_text: str = ''   # the inserted clause (one line); '' for body/invariant obligations
    clause_line: int = -1   # 0-based line of that clause in the annotated module text


@dataclass
class Annotated:
    decl: Decl
    text: str                       # annotated module text (mod … { … } + re-exports)
    insertions: List[Tuple[int, str]]
    obligations: List[Obligation]
    external_items: List[str]
    uncontracted: List[str]
    rejected: bool = False
    reject_text: str = ''
    spec_start_line: int = 0


EXTERNAL_ATTR = '#[verifier::external]\n'


def _is_compile_error(text):
    body = '\n'.join(l for l in text.splitlines() if not l.startswith('// NUTYPE_VERIF_INPUT'))
    return 'compile_error' in body and 'mod __nutype_' not in body


class Annotator:
    def __init__(self, decl: Decl, dump_text: str):
        self.d = decl
        self.src = dump_text
        self.ins: List[Tuple[int, int, str]] = []   # (offset, seq, text)
        self.obls: List[Obligation] = []
        self.external: List[str] = []
        self.uncontracted: List[str] = []
        self._seq = 0

    def insert(self, off, text):
        self._seq += 1
        self.ins.append((off, self._seq, text))

    # ---------------------------------------------------------------- helpers
    def _ret(self, fn: Fn, clause, retname='r'):
        """clause: a string or a list of strings; each goes on its own line so that the verifier's
        span of a failing postcondition identifies the clause."""
        if fn.ret_start is None:
            raise Undecided('fn %s has no return type' % fn.name)
        clauses = [clause] if isinstance(clause, str) else list(clause)
        self.insert(fn.ret_start, '(%s: ' % retname)
        self.insert(fn.ret_end, ')')
        self.insert(fn.body_open, '\n            ensures\n' + ''.join('                %s,\n' % c for c in clauses) + '        ')

    def _returns(self, fn: Fn, expr: str):
        self.insert(fn.body_open, '\n            returns (' + expr + ')\n        ')

    def _obl(self, fn_label, kind, props, clause, fn: Optional[Fn], clause_text=''):
        self.obls.append(Obligation(decl=self.d.id, fn=fn_label, kind=kind, props=props, clause=clause,
                                    start_off=fn.start if fn else 0, end_off=fn.body_close if fn else 0,
                                    clause_text=clause_text))

    # ---------------------------------------------------------------- main
    def run(self) -> Annotated:
        d = self.d
        if _is_compile_error(self.src):
            return Annotated(d, '', [], [], [], [], rejected=True, reject_text=self.src)
        sc = Scan(self.src)
        mod, inner = sc.module()
        if mod is None:
            raise Undecided('no `mod __nutype_*__` in the dump of %s' % d.id)
        X = d.name
        seen = set()
        for it in inner:
            if it.kind == 'impl':
                self._impl(sc, it, seen)
            elif it.kind == 'enum':
                pass
            elif it.kind == 'use' and it.head == 'use super::*':
                if d.family == 'string':
                    self.insert(it.end, '\n    broadcast use {axiom_into_string_from_string, axiom_into_string_from_str};')
            elif it.kind in ('struct', 'mod', 'use'):
                pass
            else:
                raise Undecided('unexpected item in module of %s: %s' % (d.id, it.head[:80]))
        # required rows
        need = {'into_inner', '__sanitize__'}
        need.add('try_new' if d.has_validation else 'new')
        if d.has_validation:
            need.add('__validate__')
        missing = need - seen
        if missing:
            raise Undecided('contract-table rows without a function in %s: %s' % (d.id, sorted(missing)))
        # append spec block before the closing brace of the module
        self.insert(mod.end - 1, self.spec_block())
        # build text
        ins = sorted(self.ins)
        out = []
        last = 0
        for off, _, text in ins:
            out.append(self.src[last:off])
            out.append(text)
            last = off
        out.append(self.src[last:])
        text = ''.join(out)
        # erasure self-check
        self._erasure_check(text, ins)
        # line ranges of the contracted functions in the annotated text
        def new_off(o, inclusive):
            return o + sum(len(t) for off, _, t in ins if (off <= o if inclusive else off < o))
        for ob in self.obls:
            if ob.kind == 'lemma':
                ob.start_line = ob.end_line = -1
                continue
            a = new_off(ob.start_off, False)
            b = new_off(ob.end_off, True)
            ob.start_line = text.count('\n', 0, a)
            ob.end_line = text.count('\n', 0, b)
            if ob.clause_text:
                p = text.find(ob.clause_text, a, b + 1)
                if p < 0:
                    raise Undecided('inserted clause not found again: ' + ob.clause_text)
                ob.clause_line = text.count('\n', 0, p)
        self.spec_start_line = text.count('\n', 0, new_off(mod.end - 1, False))
        ann = Annotated(d, text, [(o, t) for o, _, t in ins], self.obls, self.external, self.uncontracted)
        ann.spec_start_line = self.spec_start_line
        return ann

    def _erasure_check(self, text, ins):
        # walk the annotated text, skipping recorded insertions in order, and compare with the dump
        pos = 0
        rebuilt = []
        src_pos = 0
        for off, _, t in ins:
            seg = off - src_pos
            rebuilt.append(text[pos:pos + seg])
            pos += seg
            if text[pos:pos + len(t)] != t:
                raise Undecided('erasure self-check failed (insertion not found)')
            pos += len(t)
            src_pos = off
        rebuilt.append(text[pos:])
        if ''.join(rebuilt) != self.src:
            raise Undecided('erasure self-check failed (text differs from the dump)')

    # ---------------------------------------------------------------- impl blocks
    def _impl(self, sc: Scan, it: Item, seen):
        d = self.d
        X = d.name
        raw_head = sc.s[it.head_start:it.head_end]
        h = parse_impl_head(raw_head)
        self_is_X = re.match(r'^' + re.escape(X) + r'(<.*>)?$', h.self_ty) is not None
        V = 'Self::spec_view'
        if h.trait is None:
            if not self_is_X:
                raise Undecided('inherent impl for unexpected type: ' + h.self_ty)
            for fn in it.fns:
                self._inherent(fn, seen)
            return
        t = h.trait
        # --- items handed to Kani / token scan instead
        errlike = re.match(r'^' + re.escape(X) + r'(Error|ParseError)(<.*>)?$', h.self_ty)
        if t in ('Display', 'Error') and (errlike or self_is_X):
            self.insert(it.start, EXTERNAL_ATTR)
            self.external.append('impl %s for %s' % (t, h.self_ty))
            return
        if not self_is_X and not (t == 'From' and h.trait_args and re.match(r'^' + re.escape(X) + r'(<.*>)?$', h.trait_args)) \
                and not (t == 'IntoIterator' and h.self_ty.startswith('&')):
            raise Undecided('trait impl for unexpected type: %s for %s' % (h.trait_full, h.self_ty))
        if t == 'FromStr' and d.family != 'string':
            self.insert(it.start, EXTERNAL_ATTR)
            self.external.append('impl FromStr for %s (verified on the Kani side)' % X)
            return
        if t == 'Default' and d.has_validation:
            self.insert(it.start, EXTERNAL_ATTR)
            self.external.append('impl Default for %s (verified on the Kani side)' % X)
            return
        if len(it.fns) != 1:
            raise Undecided('trait impl with %d fns: %s' % (len(it.fns), h.trait_full))
        fn = it.fns[0]
        label = '%s::%s' % (re.sub(r'^(::)?(core|std|alloc)::([a-z_]+::)*', '', h.trait_full), fn.name)
        string = d.family == 'string'
        vw = (lambda e: e + '@') if string else (lambda e: e)
        c11 = ['C11'] if 'C11' in d.props else []
        if t == 'TryFrom':
            raw = self._param_name(sc, fn)
            self.specimpls.append(('TryFrom', h.trait_args))
            if d.has_validation:
                c = 'Self::spec_post(%s, r)' % vw(raw)
            else:
                c = 'r is Ok && r->Ok_0.spec_view() == Self::spec_sanitize(%s)' % vw(raw)
            self.contract(fn, label, [(['C03'] + c11, c, 'try_from(raw) yields exactly what the constructor yields: ' + c)])
        elif t == 'From' and self_is_X:
            raw = self._param_name(sc, fn)
            self.specimpls.append(('FromInner', h.trait_args))
            c = 'r.spec_view() == Self::spec_sanitize(%s)' % vw(raw)
            self.contract(fn, label, [(['C03'] + c11, c, 'from(raw) wraps exactly the sanitized value')])
        elif t == 'From':
            raw = self._param_name(sc, fn)
            self.specimpls.append(('IntoInner', h.self_ty))
            c = '%s == %s.spec_view()' % (vw('r'), raw)
            self.contract(fn, label, [(['C13'], c, 'into() is exactly the stored inner value')])
        elif t in ('AsRef', 'Deref', 'Borrow'):
            if t == 'Borrow':
                if string:
                    # Verus cannot take a named return on Borrow (blanket-impl ambiguity) and a
                    # `returns` expression of type &str/&String cannot be written from a Seq<char>:
                    # left to the type invariant, reported as uncontracted; covered on the Kani side.
                    self.uncontracted.append(label)
                    self._obl(label + '#body', 'body', ['C05'], 'type invariant', fn)
                else:
                    self._returns(fn, '&Self::spec_view(*self)')
                    self._obl(label, 'contract', ['C13'], 'borrow() returns a reference to exactly the stored inner value', fn,
                              clause_text='returns (&Self::spec_view(*self))')
                    self._obl(label + '#body', 'body', ['C05'], 'type invariant', fn)
            else:
                c = ('r@ == self.spec_view()' if string else '*r == self.spec_view()')
                self.contract(fn, label, [(['C13'], c, '%s exposes exactly the stored inner value' % fn.name)])
        elif t == 'FromStr':
            raw = self._param_name(sc, fn)
            c = ('Self::spec_post(%s@, r)' % raw if d.has_validation
                 else 'r is Ok && r->Ok_0.spec_view() == Self::spec_sanitize(%s@)' % raw)
            self.contract(fn, label, [(['C03'] + c11, c, 'from_str(s) yields exactly what the constructor yields for s')])
        elif t == 'Default' and not string:
            c = 'r.spec_view() == Self::spec_sanitize(%s)' % d.default_spec()
            self.contract(fn, label, [(['C03'], c, 'default() == new(default expression)')])
        else:
            self.uncontracted.append(label)
            self._obl(label + '#body', 'body', ['C05'], 'type invariant', fn)
            # a hand-written impl may rebuild a value from the receiver's field (`Self(self.0.clone())`):
            # the receiver is an existing value, so its type invariant may be used (ghost code only)
            params = sc.s[fn.params_open + 1:fn.params_close]
            if d.has_validation and re.match(r"\s*(&\s*('\w+\s+)?)?(mut\s+)?self\b", params):
                by_ref = params.lstrip().startswith('&')
                self.insert(fn.body_open + 1, '\n            proof { use_type_invariant(%s); }' % ('&*self' if by_ref else '&self'))

    specimpls: list

    def contract(self, fn: Fn, label: str, clauses, body_props=('C05',)):
        """clauses: [(props, clause_text, description)]; one obligation per clause + one for the body."""
        self._ret(fn, [c[1] for c in clauses])
        for i, (props, text, desc) in enumerate(clauses):
            name = label if i == 0 else '%s#%s' % (label, props[0])
            self._obl(name, 'contract', list(props), desc, fn, clause_text=text)
        self._obl(label + '#body', 'body', list(body_props),
                  'every value constructed in the body meets the type invariant (validators hold); no panic / overflow', fn)

    def _param_name(self, sc: Scan, fn: Fn):
        params = sc.s[fn.params_open + 1:fn.params_close]
        m = re.match(r'\s*(?:mut\s+)?([A-Za-z_][A-Za-z0-9_]*)\s*:', params)
        if not m:
            raise Undecided('cannot read parameter name of ' + fn.name)
        return m.group(1)

    def _inherent(self, fn: Fn, seen):
        d = self.d
        name = fn.name
        sc_params = self.src[fn.params_open + 1:fn.params_close]
        m = re.match(r'\s*(?:mut\s+)?([A-Za-z_][A-Za-z0-9_]*)\s*:', sc_params)
        p = m.group(1) if m else 'self'
        string = d.family == 'string'
        E = d.error_type
        ctor_props = ['C01', 'C02'] + (['C11'] if 'C11' in d.props else [])
        if name == 'try_new':
            seen.add(name)
            if string:
                c1 = 'exists|s: String| #![auto] call_ensures(Into::<String>::into, (%s,), s) && Self::spec_post(s@, r)' % p
                c7 = ('r is Err ==> exists|s: String| #![auto] call_ensures(Into::<String>::into, (%s,), s) && '
                      'Self::spec_validate(Self::spec_sanitize(s@)) == Err::<(), %s>(r->Err_0)' % (p, E))
            else:
                c1 = 'r == Self::spec_try_new(%s)' % p
                c7 = 'r is Err ==> Self::spec_validate(Self::spec_sanitize(%s)) == Err::<(), %s>(r->Err_0)' % (p, E)
            self.contract(fn, name, [
                (ctor_props, c1, 'try_new(raw) == match validate(sanitize(raw)) { Ok => Ok(X(sanitize(raw))), Err(e) => Err(e) }'),
                (['C07'], c7, 'a rejection carries the variant of the FIRST validator (written order) that sanitize(raw) violates'),
            ], body_props=('C05', 'C01'))
        elif name == 'new':
            seen.add(name)
            if string:
                c1 = 'exists|s: String| #![auto] call_ensures(Into::<String>::into, (%s,), s) && r.spec_view() == Self::spec_sanitize(s@)' % p
            else:
                c1 = 'r.spec_view() == Self::spec_sanitize(%s)' % p
            self.contract(fn, name, [(ctor_props, c1, 'new(raw) wraps exactly sanitize(raw)')], body_props=('C05', 'C01'))
        elif name == '__sanitize__':
            seen.add(name)
            c1 = 'r@ == Self::spec_sanitize(%s@)' % p if string else 'r == Self::spec_sanitize(%s)' % p
            self.contract(fn, name, [(ctor_props, c1, 'sanitizers applied in written order, nothing skipped')], body_props=('C01',))
        elif name == '__validate__':
            seen.add(name)
            arg = '%s@' % p if string else '*%s' % p
            c1 = 'r == Self::spec_validate(%s)' % arg
            c7 = 'r is Err ==> r == Self::spec_validate(%s)' % arg
            self.contract(fn, name, [
                (ctor_props, c1, 'Ok exactly when every declared validator accepts; whole-Result equality'),
                (['C07'], c7, 'when it rejects, the variant is that of the first violated validator in written order'),
            ], body_props=('C01',))
        elif name == 'into_inner':
            seen.add(name)
            c1 = 'r@ == self.spec_view()' if string else 'r == self.spec_view()'
            self.contract(fn, name, [(['C01', 'C13'] + (['C11'] if 'C11' in d.props else []), c1, 'into_inner() is exactly the stored value')], body_props=('C01',))
        elif name == 'new_unchecked':
            if d.new_unchecked and re.search(r'\bunsafe\b', fn.quals):
                self.insert(fn.start, EXTERNAL_ATTR)
                self.external.append('unsafe fn new_unchecked (the one sanctioned bypass)')
            else:
                # present without the flag, or safe: stays under the type invariant and fails there
                self.uncontracted.append(name)
                self._obl(name + '#body', 'body', ['C05'], 'type invariant', fn)
        else:
            self.uncontracted.append(name)
            self._obl(name + '#body', 'body', ['C05'], 'type invariant', fn)

    # ---------------------------------------------------------------- spec block
    def spec_block(self):
        d = self.d
        X = d.name
        E = d.error_type
        G = d.generics
        GA = d.generic_args
        VT = d.view_type()
        string = d.family == 'string'
        out = ['\n    // ======== inserted by the annotator: spec-mode items only ========\n']
        out.append('    impl%s %s%s {\n' % (G, X, GA))
        if string:
            out.append('        pub closed spec fn spec_view(self) -> Seq<char> { self.0@ }\n')
        else:
            out.append('        pub closed spec fn spec_view(self) -> %s { self.0 }\n' % VT)
        out.append('        pub closed spec fn spec_sanitize(x: %s) -> %s { %s }\n' % (VT, VT, d.spec_sanitize_body('x')))
        if d.has_validation:
            out.append('        pub closed spec fn spec_validate(x: %s) -> ::core::result::Result<(), %s> {\n            %s\n        }\n'
                       % (VT, E, d.spec_validate_body('x')))
            if string:
                out.append('        pub closed spec fn spec_post(raw: Seq<char>, r: ::core::result::Result<Self, %s>) -> bool {\n'
                           '            match Self::spec_validate(Self::spec_sanitize(raw)) {\n'
                           '                Ok(_) => r is Ok && r->Ok_0.spec_view() == Self::spec_sanitize(raw),\n'
                           '                Err(e) => r == Err::<Self, %s>(e),\n'
                           '            }\n        }\n' % (E, E))
            else:
                out.append('        pub closed spec fn spec_post(raw: %s, r: ::core::result::Result<Self, %s>) -> bool { r == Self::spec_try_new(raw) }\n' % (VT, E))
                out.append('        pub closed spec fn spec_try_new(raw: %s) -> ::core::result::Result<Self, %s> {\n'
                           '            match Self::spec_validate(Self::spec_sanitize(raw)) {\n'
                           '                Ok(_) => Ok(%s(Self::spec_sanitize(raw))),\n'
                           '                Err(e) => Err(e),\n'
                           '            }\n        }\n' % (VT, E, X))
            out.append('        #[verifier::type_invariant]\n'
                       '        closed spec fn spec_inv(self) -> bool { Self::spec_validate(%s) is Ok }\n'
                       % ('self.0@' if string else 'self.0'))
        out.append('    }\n')
        for kind, arg in getattr(self, 'specimpls', []):
            # the vstd trait-spec extensions are declared with obeys_* = false: the obligation is the
            # explicit `ensures` inserted on the method, identical for every family
            if kind == 'TryFrom':
                errty = E if d.has_validation else '::core::convert::Infallible'
                out.append('    impl%s vstd::std_specs::convert::TryFromSpecImpl<%s> for %s%s {\n'
                           '        open spec fn obeys_try_from_spec() -> bool { false }\n'
                           '        closed spec fn try_from_spec(v: %s) -> ::core::result::Result<Self, %s> { arbitrary() }\n'
                           '    }\n' % (G, arg, X, GA, arg, errty))
            elif kind == 'FromInner':
                out.append('    impl%s vstd::std_specs::convert::FromSpecImpl<%s> for %s%s {\n'
                           '        open spec fn obeys_from_spec() -> bool { false }\n'
                           '        closed spec fn from_spec(v: %s) -> Self { arbitrary() }\n'
                           '    }\n' % (G, arg, X, GA, arg))
            elif kind == 'IntoInner':
                out.append('    impl%s vstd::std_specs::convert::FromSpecImpl<%s%s> for %s {\n'
                           '        open spec fn obeys_from_spec() -> bool { false }\n'
                           '        closed spec fn from_spec(v: %s%s) -> Self { arbitrary() }\n'
                           '    }\n' % (G, X, GA, arg, X, GA))
        out.extend(self.lemmas())
        return ''.join(out)

    def lemmas(self):
        d = self.d
        out = []
        if 'C11' in d.props and all(s.kind != 'with' for s in d.sanitizers):
            X = d.name
            VT = d.view_type()
            use = '            broadcast use group_c11_std_axioms;\n' if d.family == 'string' and d.sanitizers else ''
            out.append('    impl%s %s%s {\n' % (d.generics, X, d.generic_args))
            if d.has_validation and d.family == 'string':
                out.append('        pub proof fn lemma_c11_canonical(raw: Seq<char>, r: ::core::result::Result<Self, %s>)\n'
                           '            requires Self::spec_post(raw, r), r is Ok,\n'
                           '            ensures Self::spec_post(r->Ok_0.spec_view(), r), Self::spec_sanitize(r->Ok_0.spec_view()) == r->Ok_0.spec_view(),\n'
                           '        {\n%s        }\n' % (d.error_type, use))
            elif d.has_validation:
                out.append('        pub proof fn lemma_c11_canonical(raw: %s, v: Self)\n'
                           '            requires Self::spec_try_new(raw) == Ok::<Self, %s>(v),\n'
                           '            ensures Self::spec_try_new(v.spec_view()) == Ok::<Self, %s>(v),\n'
                           '        {\n%s        }\n' % (VT, d.error_type, d.error_type, use))
            else:
                out.append('        pub proof fn lemma_c11_canonical(raw: %s)\n'
                           '            ensures Self::spec_sanitize(Self::spec_sanitize(raw)) == Self::spec_sanitize(raw),\n'
                           '        {\n%s        }\n' % (VT, use))
            out.append('    }\n')
            self.obls.append(Obligation(decl=d.id, fn='lemma_c11_canonical', kind='lemma', props=['C11'],
                                        clause='spec_try_new(raw) == Ok(v) ==> spec_try_new(v.view) == Ok(v)   (over the spec functions tied to the code by the C01 contracts)'))
        for ent in getattr(d, 'c16', []) or []:
            # C16: what the message states (read from the dump) <=> what the validator accepts (declaration)
            v = ent['validator']
            subj, rel = ent['stated']
            VT = d.view_type()
            lhs = 'x.len()' if subj == 'len' else 'x'
            if (subj == 'len') != (d.family == 'string'):
                continue
            name = 'lemma_c16_%s' % ent['variant']
            out.append('    impl%s %s%s {\n' % (d.generics, d.name, d.generic_args))
            out.append('        pub proof fn %s(x: %s)\n            ensures (%s %s (%s)) <==> %s,\n        {\n        }\n    }\n'
                       % (name, VT, lhs, rel, v.bound.spec, d.spec_accepts(v, 'x')))
            self.obls.append(Obligation(decl=d.id, fn=name, kind='lemma', props=['C16'],
                                        clause='forall x: (message: "%s") x %s bound  <=>  validator %s accepts x' % (ent['fmt'][:70], rel, v.kind)))
        return out


def annotate(decl: Decl, dump_text: str) -> Annotated:
    a = Annotator(decl, dump_text)
    a.specimpls = []
    return a.run()
