"""Executable reference (plain Rust) generated from the abstract declaration — the oracle used by
Kani harnesses and by the witness search / replay.  It never looks at generated code."""
from .decl import Decl, VARIANT, FLOAT_TYPES


def concrete_inner(d: Decl):
    """Inner type with generic parameters instantiated (T = i32)."""
    if d.generics:
        return d.inner.replace('<T>', '<i32>').replace('T,', 'i32,')
    return d.inner


def concrete_self(d: Decl):
    return d.name + ('<i32>' if d.generics else '')


def ref_module(d: Decl) -> str:
    """`pub mod ref_<id>`: sanitize / validate / try_new over the concrete inner type.
    Expects the declaration to live in `mod d_<id>` of the same crate."""
    I = concrete_inner(d)
    E = d.error_type
    out = ['pub mod ref_%s {\n    #![allow(unused_imports, unused_variables, clippy::all)]\n    use super::*;\n    use super::d_%s::*;\n' % (d.id, d.id),
           '    pub type Inner = %s;\n' % I]
    out.append('    pub fn sanitize(x: Inner) -> Inner { %s }\n' % d.ref_sanitize_expr('x'))
    if d.has_validation:
        out.append('    pub type Error = %s;\n' % E)
        if d.custom_validation is not None:
            body = '%s(x)' % d.custom_validation.name
        else:
            body = ''
            if d.family in ('int', 'float'):
                body += 'let v = *x; '
                x = 'v'
            else:
                x = 'x'
            for v in d.validators:
                body += 'if !%s { return Err(%s::%s); } ' % (d.ref_accepts(v, x), E, VARIANT[v.kind])
            body += 'Ok(())'
        out.append('    pub fn validate(x: &Inner) -> Result<(), Error> { %s }\n' % body)
        out.append('    pub fn try_new(raw: Inner) -> Result<Inner, Error> { let s = sanitize(raw); validate(&s)?; Ok(s) }\n')
        out.append('    pub fn valid(x: &Inner) -> bool { validate(x).is_ok() }\n')
    else:
        out.append('    pub fn valid(x: &Inner) -> bool { true }\n')
    out.append('}\n')
    return ''.join(out)
