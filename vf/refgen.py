"""Executable reference (plain Rust) generated from the abstract declaration — the oracle used by
Kani harnesses and by the witness search / replay.  It never looks at generated code."""
from .decl import Decl, VARIANT, FLOAT_TYPES


def concrete_inner(d: Decl):
    """Inner type with generic parameters instantiated (T = i32)."""
    if d.generics:
        if d.inner == 'T':
            return 'i32'
        return d.inner.replace('<T>', '<i32>').replace('T,', 'i32,')
    return d.inner


def concrete_self(d: Decl):
    return d.name + ('::<i32>' if d.generics else '')


def expected_variants(d: Decl):
    if d.custom_validation is not None or not d.validators:
        return None
    out = []
    for v in d.validators:
        if VARIANT[v.kind] not in out:
            out.append(VARIANT[v.kind])
    return out


def error_enum_shape_problem(d: Decl, dump_text: str):
    """C07/C02: the generated error enum must have exactly one variant per declared validator.
    Read from the dumped expansion; returns None or a description of the mismatch."""
    import re
    exp = expected_variants(d)
    if exp is None:
        return None
    m = re.search(r'pub enum %s\s*\{(.*?)\}' % re.escape(d.error_type), dump_text, re.S)
    if not m:
        return 'error enum %s not found in the expansion' % d.error_type
    got = [x.strip() for x in re.sub(r'#\[[^\]]*\]', '', m.group(1)).split(',') if x.strip()]
    if sorted(got) != sorted(exp):
        return 'error enum %s has variants %s but the declaration writes validators needing %s' % (d.error_type, got, exp)
    return None


def ref_module(d: Decl, string_errors=False) -> str:
    """`pub mod ref_<id>`: sanitize / validate / try_new over the concrete inner type.
    Expects the declaration to live in `mod d_<id>` of the same crate.
    string_errors: errors are variant NAMES (strings), so the module compiles whatever the shape
    of the generated error enum is (used by the witness search)."""
    I = concrete_inner(d)
    E = d.error_type
    if string_errors:
        return _ref_module_strings(d)
    out = ['pub mod ref_%s {\n    #![allow(unused_imports, unused_variables, clippy::all)]\n    use super::*;\n    use super::d_%s::*;\n' % (d.id, d.id),
           '    pub type Inner = %s;\n' % I]
    out.append('    pub fn sanitize(x: Inner) -> Inner { %s }\n' % d.ref_sanitize_expr('x'))
    if d.has_validation:
        out.append('    pub type Error = %s;\n' % E)
        if d.custom_validation is not None:
            body = '%s(x)' % d.custom_validation.name
        else:
            body = ''
            if d.family in ('int', 'float'):
                body += 'let v = *x; '
                x = 'v'
            else:
                x = 'x'
            for v in d.validators:
                body += 'if !%s { return Err(%s::%s); } ' % (d.ref_accepts(v, x), E, VARIANT[v.kind])
            body += 'Ok(())'
        out.append('    pub fn validate(x: &Inner) -> Result<(), Error> { %s }\n' % body)
        out.append('    pub fn try_new(raw: Inner) -> Result<Inner, Error> { let s = sanitize(raw); validate(&s)?; Ok(s) }\n')
        out.append('    pub fn valid(x: &Inner) -> bool { validate(x).is_ok() }\n')
    else:
        out.append('    pub fn valid(x: &Inner) -> bool { true }\n')
    out.append('}\n')
    return ''.join(out)


def _ref_module_strings(d: Decl) -> str:
    I = concrete_inner(d)
    out = ['pub mod ref_%s {\n    #![allow(unused_imports, unused_variables, clippy::all)]\n    use super::*;\n    use super::d_%s::*;\n' % (d.id, d.id),
           '    pub type Inner = %s;\n    pub type Error = String;\n' % I]
    out.append('    pub fn sanitize(x: Inner) -> Inner { %s }\n' % d.ref_sanitize_expr('x'))
    if d.has_validation:
        if d.custom_validation is not None:
            body = '%s(x).map_err(|e| format!("{:?}", e))' % d.custom_validation.name
        else:
            body = ''
            if d.family in ('int', 'float'):
                body += 'let v = *x; '
                x = 'v'
            else:
                x = 'x'
            for v in d.validators:
                body += 'if !%s { return Err("%s".to_string()); } ' % (d.ref_accepts(v, x), VARIANT[v.kind])
            body += 'Ok(())'
        out.append('    pub fn validate(x: &Inner) -> Result<(), Error> { %s }\n' % body)
        out.append('    pub fn try_new(raw: Inner) -> Result<Inner, Error> { let s = sanitize(raw); validate(&s)?; Ok(s) }\n')
    out.append('    pub fn valid(x: &Inner) -> bool { %s }\n' % ('validate(x).is_ok()' if d.has_validation else 'true'))
    out.append('    pub fn show(r: &Result<Inner, Error>) -> String { match r { Ok(v) => format!("Ok({:?})", v), Err(e) => format!("Err({})", e) } }\n')
    out.append('}\n')
    return ''.join(out)
