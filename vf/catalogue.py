"""Catalogue of declarations (the enumerated "for all declarations" dimension).

ids are stable strings; known findings refer to them.
"""
import itertools
import random
from typing import List

from .decl import (Decl, Sanitizer, Validator, Bound, Custom, INT_TYPES, FLOAT_TYPES, int_min, int_max)
from . import aux


def camel(s):
    return ''.join(p[:1].upper() + p[1:] for p in s.split('_'))


def mk(id_, family, inner, **kw):
    d = Decl(id=id_, family=family, inner=inner, **kw)
    d.name = camel(id_)
    return d


LOWER = ['greater', 'greater_or_equal']
UPPER = ['less', 'less_or_equal']

INT_VIEW_DERIVES = ['Debug', 'Clone', 'Copy', 'PartialEq', 'Eq', 'AsRef', 'Deref', 'Borrow', 'Into']
INT_CONV_DERIVES = ['TryFrom', 'FromStr', 'Display']


def int_decls(tier='quick') -> List[Decl]:
    out = []
    for t in INT_TYPES:
        # each bound kind alone, symbolic bound
        for k in LOWER + UPPER:
            b, n = aux.sym_bound('lo' if k in LOWER else 'hi', t)
            out.append(mk('int_%s_%s_sym' % (t, k), 'int', t, validators=[Validator(k, b)], aux=[n],
                          derives=INT_VIEW_DERIVES + INT_CONV_DERIVES,
                          props=['C01', 'C03', 'C05', 'C07', 'C11', 'C13']))
        # every lower x upper pair, symbolic
        for lo in LOWER:
            for up in UPPER:
                bl, n1 = aux.sym_bound('lo', t)
                bu, n2 = aux.sym_bound('hi', t)
                out.append(mk('int_%s_%s_%s_sym' % (t, lo, up), 'int', t,
                              validators=[Validator(lo, bl), Validator(up, bu)], aux=[n1, n2],
                              derives=INT_VIEW_DERIVES + ['TryFrom'],
                              props=['C01', 'C03', 'C05', 'C07', 'C11', 'C13']))
        # upper before lower + predicate (order matters for C07)
        bl, n1 = aux.sym_bound('lo', t)
        bu, n2 = aux.sym_bound('hi', t)
        p, n3 = aux.custom('pred', t)
        out.append(mk('int_%s_le_pred_ge_sym' % t, 'int', t,
                      validators=[Validator('less_or_equal', bu), Validator('predicate', fn=p), Validator('greater_or_equal', bl)],
                      aux=[n1, n2, n3], derives=['Debug', 'TryFrom'], props=['C01', 'C03', 'C05', 'C07', 'C11']))
        # custom with/error
        v, n4 = aux.custom('vfn', t)
        out.append(mk('int_%s_custom' % t, 'int', t, custom_validation=v, custom_error='MyErr', aux=[n4, 'MyErr'],
                      derives=['Debug', 'TryFrom', 'AsRef'], props=['C01', 'C03', 'C05', 'C07', 'C13']))
        # sanitizers (two, order matters), with validation and without
        s1, n5 = aux.custom('san', t)
        s2, n6 = aux.custom('san2', t)
        out.append(mk('int_%s_san_le' % t, 'int', t, sanitizers=[Sanitizer('with', s1)],
                      validators=[Validator('less_or_equal', bu)], aux=[n5, n2],
                      derives=['Debug', 'TryFrom', 'Into'], props=['C01', 'C03', 'C05', 'C07', 'C13']))
        out.append(mk('int_%s_san2_nov' % t, 'int', t, sanitizers=[Sanitizer('with', s2)],
                      aux=[n6], derives=['Debug', 'From', 'Into', 'Deref', 'Default'], default='7', default_ref='7',
                      props=['C01', 'C03', 'C05', 'C13']))
        out.append(mk('int_%s_san_nov_tf' % t, 'int', t, sanitizers=[Sanitizer('with', s1)], aux=[n5],
                      derives=['Debug', 'TryFrom', 'Into', 'AsRef'], props=['C01', 'C03', 'C05', 'C13']))
        # literal bounds at the extremes
        mn, mx = int_min(t), int_max(t)
        lits = [('min', 'greater_or_equal', mn), ('min1', 'greater', mn), ('max', 'less_or_equal', mx), ('max1', 'less', mx),
                ('zero', 'greater', 0), ('one', 'less_or_equal', 1)]
        if mn < 0:
            lits.append(('neg1', 'greater_or_equal', -1))
            lits.append(('min_p1', 'less', mn + 1))
        lits.append(('max_m1', 'greater', mx - 1))
        for tag, k, val in lits:
            out.append(mk('int_%s_%s_lit_%s' % (t, k, tag), 'int', t, validators=[Validator(k, aux.lit_bound(val, t))],
                          derives=['Debug', 'TryFrom'], props=['C01', 'C02', 'C03', 'C05']))
        # literal pair
        out.append(mk('int_%s_ge_le_lit' % t, 'int', t,
                      validators=[Validator('greater_or_equal', aux.lit_bound(1, t)), Validator('less_or_equal', aux.lit_bound(100, t))],
                      derives=INT_VIEW_DERIVES + ['TryFrom'], props=['C01', 'C03', 'C05', 'C07', 'C11', 'C13']))
        # const_fn with a (const) custom sanitizer and predicate
        out.append(mk('int_%s_san_pred_le_const' % t, 'int', t, const_fn=True, sanitizers=[Sanitizer('with', s1)],
                      validators=[Validator('predicate', fn=p), Validator('less_or_equal', aux.lit_bound(100, t))], aux=[n5, n3],
                      derives=['Debug', 'Clone', 'Copy', 'TryFrom', 'Into'], props=['C01', 'C03', 'C05', 'C07']))
        # const_fn twin
        out.append(mk('int_%s_ge_le_lit_const' % t, 'int', t, const_fn=True,
                      validators=[Validator('greater_or_equal', aux.lit_bound(1, t)), Validator('less_or_equal', aux.lit_bound(100, t))],
                      derives=['Debug', 'Clone', 'Copy', 'TryFrom', 'Into'], props=['C01', 'C03', 'C05']))
    return out


STRING_VIEW_DERIVES = ['Debug', 'PartialEq', 'Eq', 'AsRef', 'Deref', 'Borrow', 'Into']
STRING_CONV_DERIVES = ['TryFrom', 'FromStr', 'Display']


def string_chains():
    """every ordered selection from {trim, lowercase|uppercase, with f} without repetition"""
    chains = [[]]
    basics = ['trim', 'lowercase', 'uppercase', 'with']
    for n in (1, 2, 3):
        for c in itertools.permutations(basics, n):
            if 'lowercase' in c and 'uppercase' in c:
                continue
            chains.append(list(c))
    return chains


def _string_sans(chain):
    sans = []
    names = []
    for c in chain:
        if c == 'with':
            f, n = aux.custom('san', 's')
            sans.append(Sanitizer('with', f))
            names.append(n)
        else:
            sans.append(Sanitizer(c))
    return sans, names


def string_validator_sets():
    p, pn = aux.custom('pred', 's')
    lo = Bound(src='sym_len_lo()', spec='SYM_LEN_LO()', ref='sym_len_lo()', symbolic=True)
    hi = Bound(src='sym_len_hi()', spec='SYM_LEN_HI()', ref='sym_len_hi()', symbolic=True)
    return [
        ('nov', [], []),
        ('ne', [Validator('not_empty')], []),
        ('min', [Validator('len_char_min', lo)], ['sym_len_lo']),
        ('max', [Validator('len_char_max', hi)], ['sym_len_hi']),
        ('minmax', [Validator('len_char_min', aux.lit_bound(3)), Validator('len_char_max', aux.lit_bound(20))], []),
        ('pred', [Validator('predicate', fn=p)], [pn]),
        ('all_a', [Validator('not_empty'), Validator('len_char_min', lo), Validator('len_char_max', hi), Validator('predicate', fn=p)],
         ['sym_len_lo', 'sym_len_hi', pn]),
        ('all_b', [Validator('predicate', fn=p), Validator('len_char_max', hi), Validator('len_char_min', lo), Validator('not_empty')],
         ['sym_len_lo', 'sym_len_hi', pn]),
    ]


def string_decls(tier='quick') -> List[Decl]:
    out = []
    chains = string_chains()
    vsets = string_validator_sets()
    for ci, chain in enumerate(chains):
        sans, sn = _string_sans(chain)
        cname = '_'.join({'trim': 'tr', 'lowercase': 'lo', 'uppercase': 'up', 'with': 'f'}[c] for c in chain) or 'nos'
        for vname, vals, vn in vsets:
            if tier == 'quick' and len(chain) == 3 and vname not in ('nov', 'all_a', 'minmax'):
                continue
            derives = STRING_VIEW_DERIVES + (STRING_CONV_DERIVES if vals else ['From', 'FromStr', 'Display'])
            props = ['C01', 'C03', 'C05', 'C07', 'C13']
            if 'with' not in chain:
                props.append('C11')
            out.append(mk('str_%s_%s' % (cname, vname), 'string', 'String', sanitizers=sans, validators=vals,
                          aux=sn + vn, derives=derives, props=props))
    # literal rules one of which implies another (a macro-time "simplification" that drops or merges
    # one of them keeps the accept set but changes the first-violated variant)
    L = aux.lit_bound
    redundant = [
        ('ne_min3', [Validator('not_empty'), Validator('len_char_min', L(3))]),
        ('ne_min1', [Validator('not_empty'), Validator('len_char_min', L(1))]),
        ('min3_ne', [Validator('len_char_min', L(3)), Validator('not_empty')]),
        ('min0_ne', [Validator('len_char_min', L(0)), Validator('not_empty')]),
        ('max20_ne_min3', [Validator('len_char_max', L(20)), Validator('not_empty'), Validator('len_char_min', L(3))]),
        ('min2_max2', [Validator('len_char_min', L(2)), Validator('len_char_max', L(2))]),
        ('ne_max0', [Validator('not_empty'), Validator('len_char_max', L(0))]),
    ]
    for chain in ([], ['trim']) if tier == 'quick' else ([], ['trim'], ['lowercase'], ['trim', 'uppercase']):
        sans, sn = _string_sans(chain)
        cname = '_'.join({'trim': 'tr', 'lowercase': 'lo', 'uppercase': 'up', 'with': 'f'}[c] for c in chain) or 'nos'
        for vname, vals in redundant:
            out.append(mk('str_%s_%s' % (cname, vname), 'string', 'String', sanitizers=sans, validators=vals, aux=sn,
                          derives=['Debug', 'TryFrom', 'FromStr', 'AsRef', 'Into'], props=['C01', 'C03', 'C05', 'C07', 'C13', 'C11']))
    # sanitizers without validation, TryFrom instead of From (infallible TryFrom must still sanitize)
    for chain in chains:
        if not chain or (tier == 'quick' and len(chain) == 3):
            continue
        sans, sn = _string_sans(chain)
        cname = '_'.join({'trim': 'tr', 'lowercase': 'lo', 'uppercase': 'up', 'with': 'f'}[c] for c in chain)
        props = ['C01', 'C03', 'C05', 'C13'] + (['C11'] if 'with' not in chain else [])
        out.append(mk('str_%s_nov_tf' % cname, 'string', 'String', sanitizers=sans, aux=sn,
                      derives=['Debug', 'TryFrom', 'FromStr', 'AsRef', 'Into'], props=props))
    # custom validation
    v, n = aux.custom('vfn', 's')
    sans, sn = _string_sans(['trim', 'lowercase'])
    out.append(mk('str_tr_lo_custom', 'string', 'String', sanitizers=sans, custom_validation=v, custom_error='MyErr',
                  aux=[n, 'MyErr'] + sn, derives=['Debug', 'TryFrom', 'FromStr', 'AsRef', 'Into'],
                  props=['C01', 'C03', 'C05', 'C07', 'C13']))
    return out


def any_decls(tier='quick') -> List[Decl]:
    out = []
    p, pn = aux.custom('pred', 'point')
    s, sn = aux.custom('san', 'point')
    v, vn = aux.custom('vfn', 'point')
    view = ['Debug', 'Clone', 'Copy', 'PartialEq', 'Eq', 'AsRef', 'Deref', 'Borrow', 'Into']
    out.append(mk('any_point_pred', 'any', 'Point', validators=[Validator('predicate', fn=p)], aux=['Point', pn],
                  derives=view + ['TryFrom'], props=['C01', 'C03', 'C05', 'C07', 'C13']))
    out.append(mk('any_point_san_pred', 'any', 'Point', sanitizers=[Sanitizer('with', s)], validators=[Validator('predicate', fn=p)],
                  aux=['Point', pn, sn], derives=view + ['TryFrom'], props=['C01', 'C03', 'C05', 'C07', 'C13']))
    out.append(mk('any_point_san_nov', 'any', 'Point', sanitizers=[Sanitizer('with', s)],
                  aux=['Point', sn], derives=view + ['From'], props=['C01', 'C03', 'C05', 'C13']))
    out.append(mk('any_point_san_nov_tf', 'any', 'Point', sanitizers=[Sanitizer('with', s)],
                  aux=['Point', sn], derives=view + ['TryFrom'], props=['C01', 'C03', 'C05', 'C13']))
    out.append(mk('any_point_custom', 'any', 'Point', sanitizers=[Sanitizer('with', s)], custom_validation=v, custom_error='MyErr',
                  aux=['Point', sn, vn, 'MyErr'], derives=view + ['TryFrom'], props=['C01', 'C03', 'C05', 'C07', 'C13']))
    out.append(mk('any_point_nothing', 'any', 'Point', aux=['Point'], derives=view + ['From'], props=['C01', 'C03', 'C05', 'C13']))
    # tuple and Option inner types
    for nm, ty in (('pair', '(i32, u8)'), ('opt', 'Option<i64>')):
        pp, ppn = aux.custom('pred', nm)
        sp, spn = aux.custom('san', nm)
        out.append(mk('any_%s_san_pred' % nm, 'any', ty, sanitizers=[Sanitizer('with', sp)], validators=[Validator('predicate', fn=pp)],
                      aux=[ppn, spn], derives=['Debug', 'Clone', 'Copy', 'PartialEq', 'AsRef', 'Deref', 'Borrow', 'Into', 'TryFrom'],
                      props=['C01', 'C03', 'C05', 'C07', 'C13']))
        out.append(mk('any_%s_san_nov' % nm, 'any', ty, sanitizers=[Sanitizer('with', sp)], aux=[spn],
                      derives=['Debug', 'Clone', 'Copy', 'PartialEq', 'AsRef', 'Deref', 'Into', 'From'], props=['C01', 'C03', 'C05', 'C13']))
    # a lifetime-generic inner type
    pc = Custom(name='pred_cow', src='pred_cow', spec='SPEC_PRED_COW')
    sc_ = Custom(name='san_cow', src='san_cow', spec='SPEC_SAN_COW')
    out.append(mk('any_cow_san_pred', 'any', "::std::borrow::Cow<'a, str>", generics="<'a>", generic_args="<'a>", sanitizers=[Sanitizer('with', sc_)],
                  validators=[Validator('predicate', fn=pc)], aux=['cow_fns'], derives=['Debug', 'AsRef', 'Deref', 'Into', 'TryFrom'],
                  props=['C01', 'C03', 'C05', 'C07', 'C13']))
    # generic Vec<T>
    pv, pvn = aux.custom('pred', 'vec')
    sv, svn = aux.custom('san', 'vec')
    vv, vvn = aux.custom('vfn', 'vec')
    gview = ['Debug', 'AsRef', 'Deref', 'Borrow', 'Into']
    out.append(mk('any_vec_pred', 'any', 'Vec<T>', generics='<T>', generic_args='<T>', validators=[Validator('predicate', fn=pv)],
                  aux=[pvn], derives=gview + ['TryFrom'], props=['C01', 'C03', 'C05', 'C07', 'C13']))
    out.append(mk('any_vec_san_pred', 'any', 'Vec<T>', generics='<T: Ord>', generic_args='<T>', sanitizers=[Sanitizer('with', sv)],
                  validators=[Validator('predicate', fn=pv)],
                  aux=[pvn, svn], derives=[x for x in gview if x != 'Into'] + ['TryFrom'], props=['C01', 'C03', 'C05', 'C07', 'C13']))
    out.append(mk('any_vec_san_nov', 'any', 'Vec<T>', generics='<T: Ord>', generic_args='<T>', sanitizers=[Sanitizer('with', sv)],
                  aux=[svn], derives=[x for x in gview if x != 'Into'] + ['From'], props=['C01', 'C03', 'C05', 'C13']))
    out.append(mk('any_vec_san_nov_tf', 'any', 'Vec<T>', generics='<T: Ord>', generic_args='<T>', sanitizers=[Sanitizer('with', sv)],
                  aux=[svn], derives=[x for x in gview if x != 'Into'] + ['TryFrom'], props=['C01', 'C03', 'C05', 'C13']))
    out.append(mk('any_vec_custom', 'any', 'Vec<T>', generics='<T>', generic_args='<T>', custom_validation=vv, custom_error='MyErr',
                  aux=[vvn, 'MyErr'], derives=gview + ['TryFrom'], props=['C01', 'C03', 'C05', 'C07', 'C13']))
    return out


def unchecked_decls(tier='quick') -> List[Decl]:
    out = []
    for t in ['i32', 'u64']:
        bl, n1 = aux.sym_bound('lo', t)
        out.append(mk('unck_%s_flag' % t, 'int', t, validators=[Validator('greater', bl)], aux=[n1], new_unchecked=True,
                      derives=['Debug', 'TryFrom', 'AsRef'], props=['C05']))
        out.append(mk('unck_%s_flag_const' % t, 'int', t, validators=[Validator('greater', aux.lit_bound(1, t))], new_unchecked=True, const_fn=True,
                      derives=['Debug', 'TryFrom', 'AsRef'], props=['C05']))
        out.append(mk('unck_%s_noflag' % t, 'int', t, validators=[Validator('greater', bl)], aux=[n1],
                      derives=['Debug', 'TryFrom', 'AsRef'], props=['C05']))
    out.append(mk('unck_str_flag', 'string', 'String', sanitizers=[Sanitizer('trim')], validators=[Validator('not_empty')], new_unchecked=True,
                  derives=['Debug', 'TryFrom', 'AsRef'], props=['C05']))
    p, pn = aux.custom('pred', 'point')
    out.append(mk('unck_point_flag', 'any', 'Point', validators=[Validator('predicate', fn=p)], aux=['Point', pn], new_unchecked=True,
                  derives=['Debug', 'TryFrom', 'AsRef'], props=['C05']))
    out.append(mk('unck_nov_flag', 'int', 'i16', new_unchecked=True, derives=['Debug', 'From', 'AsRef'], props=['C05']))
    # declared visibilities other than `pub` (the re-exports of type, error and parse error must carry them)
    for vis, tag in (('', 'private'), ('pub(crate)', 'pubcrate'), ('pub(super)', 'pubsuper')):
        bl, n1 = aux.sym_bound('lo', 'i32')
        dv = mk('vis_%s_i32' % tag, 'int', 'i32', validators=[Validator('greater', bl)], aux=[n1], derives=['Debug', 'TryFrom', 'FromStr'], props=['C05'])
        dv.vis = vis
        out.append(dv)
        ds = mk('vis_%s_str' % tag, 'string', 'String', sanitizers=[Sanitizer('trim')], validators=[Validator('not_empty')], derives=['Debug', 'TryFrom'], props=['C05'])
        ds.vis = vis
        out.append(ds)
    return out


def thorough_int_decls(seed=0) -> List[Decl]:
    """thorough tier: every permutation of {lower, upper, predicate} validators per integer type, and
    VERIF_SEED-driven random literal bounds (the seed only chooses declarations; inputs stay universal)"""
    out = []
    rnd = random.Random(seed)
    for t in INT_TYPES:
        bl, n1 = aux.sym_bound('lo', t)
        bu, n2 = aux.sym_bound('hi', t)
        p, n3 = aux.custom('pred', t)
        for lo in LOWER:
            for up in UPPER:
                vs = [Validator(lo, bl), Validator(up, bu), Validator('predicate', fn=p)]
                for pi, perm in enumerate(itertools.permutations(vs)):
                    out.append(mk('perm_%s_%s_%s_%d' % (t, lo, up, pi), 'int', t, validators=list(perm), aux=[n1, n2, n3],
                                  derives=['Debug', 'TryFrom'], props=['C01', 'C03', 'C05', 'C07']))
        mn, mx = int_min(t), int_max(t)
        for i in range(4):
            a = rnd.randint(mn, mx)
            b = rnd.randint(mn, mx)
            lo_v, hi_v = min(a, b), max(a, b)
            ks = (rnd.choice(LOWER), rnd.choice(UPPER))
            out.append(mk('rand_%s_%d_s%d' % (t, i, seed), 'int', t,
                          validators=[Validator(ks[0], aux.lit_bound(lo_v, t)), Validator(ks[1], aux.lit_bound(hi_v, t))],
                          derives=['Debug', 'TryFrom', 'AsRef', 'Into'], props=['C01', 'C02', 'C03', 'C05', 'C07', 'C13']))
    return out


def verus_catalogue(tier='quick', seed=0) -> List[Decl]:
    from .spellings import string_spellings
    out = int_decls(tier) + string_decls(tier) + any_decls(tier) + string_spellings(tier) + unchecked_decls(tier)
    if tier == 'thorough':
        out += thorough_int_decls(seed)
    return out


def all_decls(tier='thorough', seed=0):
    """every declaration any check may name (for --replay)"""
    from . import kani_side, spellings
    out = list(verus_catalogue(tier, seed))
    ks = kani_side
    for f in (ks.float_decls, ks.int_kani_decls, ks.default_decls, ks.fromstr_decls, ks.serde_decls, ks.arbitrary_int_decls,
              ks.arbitrary_float_decls, ks.arbitrary_string_decls, ks.canonical_decls, ks.guard_decls, ks.display_decls, ks.view_extra_decls,
              spellings.numeric_spellings):
        try:
            out += f(tier)
        except TypeError:
            out += f()
    out += ks.serde_string_decls()
    for p in ('C05', 'C09', 'C12'):
        try:
            out += ks.harnesses_for(p, tier, seed)[0]
        except Exception:
            pass
    seen = {}
    for d in out:
        seen.setdefault(d.id, d)
    return list(seen.values())
