//! BOUNDED sanity run of the axioms about `std` that the C11 lemmas assume (vf/verus_prelude.rs):
//! executed against the real standard library over every `char` (1-char strings), every 2-char
//! string over a special alphabet (all White_Space, case-expanding and context-sensitive
//! characters) and every 3-char string over a smaller one.  Not a proof; labelled bounded.
fn check(s: &str, bad: &mut Vec<String>, n: &mut u64) {
    *n += 1;
    let t = s.trim();
    let l = s.to_lowercase();
    let u = s.to_uppercase();
    let mut fail = |name: &str| { if bad.len() < 10 { bad.push(format!("{name} fails for {:?}", s)); } };
    if t.trim() != t { fail("A1 trim idempotent"); }
    if l.to_lowercase() != l { fail("A2 lowercase idempotent"); }
    if u.to_uppercase() != u { fail("A3 uppercase idempotent"); }
    let lt = t.to_lowercase();
    if lt.trim() != lt { fail("A4 trim(lower(trim x)) == lower(trim x)"); }
    let ut = t.to_uppercase();
    if ut.trim() != ut { fail("A5 trim(upper(trim x)) == upper(trim x)"); }
    let tl = l.trim();
    if tl.to_lowercase() != tl { fail("A6 lower(trim(lower x)) == trim(lower x)"); }
    let tu = u.trim();
    if tu.to_uppercase() != tu { fail("A7 upper(trim(upper x)) == trim(upper x)"); }
    // the facts behind the length validators: chars().count() is the number of chars, is_empty <=> 0 chars
    if s.is_empty() != (s.chars().count() == 0) { fail("is_empty <=> no chars"); }
    if s.to_string() != s { fail("to_string identity"); }
    { let a: String = s.into(); let b: String = String::from(s).into(); if a != s || b != s { fail("Into<String> preserves the text"); } }
}

fn main() {
    let mut bad = Vec::new();
    let mut n = 0u64;
    for c in (0u32..=0x10FFFF).filter_map(char::from_u32) {
        let s = c.to_string();
        check(&s, &mut bad, &mut n);
    }
    let mut special: Vec<char> = (0u32..=0x10FFFF).filter_map(char::from_u32)
        .filter(|c| c.is_whitespace() || c.to_lowercase().count() > 1 || c.to_uppercase().count() > 1)
        .collect();
    special.extend(['a', 'A', 'Σ', 'σ', 'ς', 'İ', 'ı', 'ǅ', 'ǆ', 'Ǆ', '\u{345}', '\u{301}', '\u{307}', 'ß', 'ẞ', '-', '0', '\u{200b}', '\u{feff}']);
    special.sort(); special.dedup();
    for &a in &special { for &b in &special { let s: String = [a, b].iter().collect(); check(&s, &mut bad, &mut n); } }
    let small = [' ', '\u{a0}', '\t', 'a', 'A', 'Σ', 'σ', 'ς', 'İ', 'ı', 'ß', '\u{307}', 'ǅ', 'ŉ', 'ﬁ', '\u{3000}', '\u{85}'];
    for &a in &small { for &b in &small { for &c in &small { for &d in &small {
        let s: String = [a, b, c, d].iter().collect(); check(&s, &mut bad, &mut n);
    } } } }
    println!("{{\"strings_checked\":{},\"special_alphabet\":{},\"failures\":{:?}}}", n, special.len(), bad);
    if !bad.is_empty() { std::process::exit(1); }
}
