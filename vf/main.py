"""Driver: ./check <PROPERTY> [--tier quick|thorough] | ./check --replay <file>"""
import argparse
import json
import os
import re
import sys
import time

sys.path.insert(0, os.environ.get('VERIF_HOME', '/verif'))

from vf import catalogue, pipeline, report, witness
from vf.annotate import annotate, Undecided
from vf.refgen import error_enum_shape_problem
from vf.report import Outcome

CLAIMED = ['C01', 'C02', 'C03', 'C04', 'C05', 'C06', 'C07', 'C09', 'C10', 'C11', 'C12', 'C13', 'C14', 'C16']
MAX_WITNESS_DECLS = 12
MAX_LINES = 12
# which entry points of the witness program count as a failing input for which property
PROP_ENTRIES = {
    'C01': ('try_new', 'new', 'into_inner'), 'C02': ('try_new', 'new', 'into_inner'), 'C07': ('try_new',),
    'C03': ('TryFrom', 'TryFrom<&str>', 'From', 'FromStr', 'Default'),
    'C05': ('try_new', 'new', 'TryFrom', 'TryFrom<&str>', 'From', 'FromStr', 'Default', 'validity', 'DeserializeInPlace'),
    'C04': ('Deserialize', 'DeserializeInPlace'), 'C10': ('Serialize', 'RoundTrip'), 'C16': ('MessageTruth', 'MessageNaming', 'Embedding'), 'C06': ('FromStr',), 'C09': ('Arbitrary',), 'C14': ('ArbitrarySurjective',), 'C11': ('canonical',), 'C13': ('AsRef', 'Deref', 'Borrow', 'Borrow<str>', 'Into', 'into_inner'),
}


# ---------------------------------------------------------------------------------- Verus side
# std functions whose vstd contract does not relate the result to the `Seq<char>` view of a string
WEAK_STD = re.compile(r'\.len\(\)')


def verus_part(out: Outcome, prop: str, decls, tag=None):
    if not decls:
        return {}
    tag = tag or prop
    t0 = time.time()
    dr = pipeline.build_dumps(decls, tag)
    out.extra['verus_dump_build_s'] = round(dr.build_s, 1)
    anns = []
    rejected = {}
    shape_failed = {}
    structural = {'n': 0, 'failed': []}
    by_id = {d.id: d for d in decls}
    for d in decls:
        if d.id in dr.rustc_rejected and 'compile_error' not in dr.dumps.get(d.id, '') and 'mod __nutype_' in dr.dumps.get(d.id, ''):
            rejected[d.id] = 'rustc: ' + dr.rustc_rejected[d.id][:200]
            continue
        if prop == 'C05' and 'mod __nutype_' in dr.dumps[d.id]:
            from vf import structure
            try:
                for what, ok, detail in structure.scan(d, dr.dumps[d.id]):
                    structural['n'] += 1
                    if not ok and what.startswith('UNDECIDED-IF-FALSE'):
                        out.undecided.append('%s: %s — %s (Verus\' picture of the module may be incomplete)' % (d.id, what[19:], detail))
                    elif not ok:
                        structural['failed'].append(('%s::structure(%s)' % (d.id, what), detail, d.id))
            except Exception as e:
                out.undecided.append('%s: structural scan error %r' % (d.id, e))
        pb = error_enum_shape_problem(d, dr.dumps[d.id]) if 'mod __nutype_' in dr.dumps[d.id] else None
        if pb:
            shape_failed[d.id] = pb
            continue
        try:
            a = annotate(d, dr.dumps[d.id])
        except Undecided as e:
            out.undecided.append('%s: %s' % (d.id, e))
            continue
        except Exception as e:   # scanner errors are undecided, never violations
            out.undecided.append('%s: annotator error %r' % (d.id, e))
            continue
        if a.rejected:
            m = re.search(r'compile_error\s*!\s*\{\s*"(.*?)"\s*\}', a.reject_text, re.S)
            rejected[d.id] = 'macro: ' + (m.group(1)[:200] if m else a.reject_text[-200:])
            continue
        anns.append(a)
    if prop != 'C02':
        for i, why in rejected.items():
            if not by_id[i].expect_reject:
                out.undecided.append('%s: catalogue declaration is not accepted (%s)' % (i, why[:120]))
    results = pipeline.verus_files(anns, tag, per_file=8, jobs=12)
    ann_by_id = {a.decl.id: a for a in anns}
    failed = {}       # key -> detail
    smt_us = 0
    nfn = 0
    for r in results:
        out.checker_cmds = ['verus <generated file> --output-json --time --error-format=json --multiple-errors 20  (one file per 8 declarations, %d files)' % len(results)]
        if not r.compile_error and not r.canary_failed_as_expected:
            out.undecided.append('%s: vacuity canary did not fail (assumptions inconsistent?)' % os.path.basename(r.path))
        for fr in r.fn_results:
            smt_us += fr.smt_us
            nfn += 1
        for dg in r.diagnostics:
            did = dg['decl']
            if did is None or did not in ann_by_id:
                if not dg['verification_failure']:
                    out.undecided.append('%s: %s' % (os.path.basename(r.path), dg['message'][:200]))
                continue
            a = ann_by_id[did]
            base = r.decl_lines[did][0] + 2     # `pub mod d_x {` + `use super::*;`
            rel = dg['line'] - base
            cands = [o for o in a.obligations if o.kind in ('contract', 'body') and o.start_line <= rel <= o.end_line]
            ob = next((o for o in cands if o.clause_line == rel), None) or next((o for o in cands if o.kind == 'body'), None)
            in_spec = rel >= a.spec_start_line
            if dg['verification_failure'] and in_spec and (dg['fn'] or '').startswith('lemma_'):
                lem = [o for o in a.obligations if o.kind == 'lemma' and o.fn == dg['fn']]
                if lem and prop in lem[0].props:
                    failed.setdefault('%s::%s' % (did, dg['fn']), {'backend': 'verus', 'message': dg['message'], 'detail': dg['rendered'], 'decl': did})
            elif dg['verification_failure']:
                if ob is not None:
                    key = '%s::%s' % (did, ob.fn)
                    props = ob.props
                else:
                    key = '%s::%s' % (did, (dg['fn'] or 'derive') + '#type_invariant')
                    props = ['C05']
                if prop in props:
                    weak = None
                    if ob is not None and a.decl.family == 'string':
                        body = '\n'.join(a.text.split('\n')[ob.start_line:ob.end_line + 1])
                        mw = WEAK_STD.search(body)
                        weak = mw.group(0) if mw else None
                    failed.setdefault(key, {'backend': 'verus', 'message': dg['message'], 'detail': dg['rendered'], 'decl': did,
                                            'tie': prop == 'C11', 'weak_dep': weak})
                else:
                    out.extra.setdefault('failing_obligations_of_other_properties', [])
                    if key not in out.extra['failing_obligations_of_other_properties']:
                        out.extra['failing_obligations_of_other_properties'].append(key)
            else:
                # not a verification failure: unsupported construct / type error
                msg = dg['message']
                if in_spec and re.search(r'no variant|no associated item|not found in|non-exhaustive|pattern', msg) and prop in ('C07', 'C01', 'C02'):
                    key = '%s::error_enum_shape' % did
                    failed.setdefault(key, {'backend': 'verus(rustc)', 'message': msg, 'detail': dg['rendered'], 'decl': did})
                else:
                    out.undecided.append('%s: %s (line %d, fn %s)' % (did, msg[:200], dg['line'], dg['fn']))
    # count obligations
    undecided_decls = set(u.split(':')[0] for u in out.undecided)
    # Verus could not take some declaration (unsupported construct, lost anchor): that is undecided,
    # never a violation by itself.  As a labelled, BOUNDED stand-in the real code of a few such
    # declarations is executed against the reference on the boundary / special inputs; only a
    # concrete failing input turns into a violation.
    und = [by_id[i] for i in sorted(undecided_decls) if i in by_id]
    picked = []
    seen_shapes = set()
    for d in und:
        shape = (d.family, d.inner, tuple(s.kind for s in d.sanitizers), tuple(v.kind for v in d.validators))
        if shape not in seen_shapes and len(picked) < 8:
            seen_shapes.add(shape)
            picked.append(d)
    for d in picked:
        try:
            wit, wlog = witness.run_witness(d)
        except Exception as e:
            wit = None
        if wit:
            wit = [w for w in wit if w.get('entry') in PROP_ENTRIES.get(prop, ())]
        if wit:
            failed['%s::%s(concrete run, Verus undecided)' % (d.id, wit[0]['entry'])] = {
                'backend': 'concrete-fallback (bounded: boundary/special inputs)', 'message': 'real code disagrees with the reference on a concrete input',
                'detail': json.dumps(wit[:3]), 'decl': d.id, 'witness': wit}
            nobl_extra = 1
    if picked:
        out.bounded.append('concrete fallback on %d declarations Verus could not take (%s…): boundary/special inputs only' % (len(picked), picked[0].id))
    nobl = 0
    for a in anns:
        if a.decl.id in undecided_decls:
            continue
        for o in a.obligations:
            if prop in o.props:
                nobl += 1
                if len(out.samples) < 6 and o.kind == 'contract' and (nobl % 37 == 1):
                    out.samples.append({'obligation': '%s::%s' % (a.decl.id, o.fn), 'clause': o.clause_text or o.clause, 'meaning': o.clause,
                                        'declaration': a.decl.source().strip(), 'backend': 'verus'})
        if prop == 'C07' and a.decl.has_validation and a.decl.custom_validation is None:
            nobl += 1   # error_enum_shape (type-checks the wildcard-free spec match against the enum)
    for did, pb in shape_failed.items():
        if prop in ('C01', 'C02', 'C07'):
            nobl += 1
            failed['%s::error_enum_shape' % did] = {'backend': 'dump-read', 'message': pb, 'detail': pb, 'decl': did}
    if structural['n']:
        nobl += structural['n']
        out.extra['structural_reads (syntactic frame conditions on the dump, counted as obligations decided by reading)'] = structural['n']
        for key, detail, did in structural['failed']:
            failed[key] = {'backend': 'dump-read', 'message': 'structural condition violated: ' + key, 'detail': detail, 'decl': did, 'witness': []}
    nfailed = len([k for k in failed])
    out.obligations += nobl
    out.discharged += max(0, nobl - nfailed)
    for k, v in failed.items():
        v['key'] = k
        v['decl_obj'] = by_id[v['decl']]
        out.failed.append(v)
    ev = out.extra.setdefault('verus', {})
    ev.update({
        'declarations': len(decls), 'declarations_verified': len(anns) - len(undecided_decls & set(ann_by_id)),
        'rejected_declarations': rejected, 'files': len(results),
        'functions_checked_by_verus': nfn, 'smt_time_ms': smt_us // 1000,
        'functions_under_contract': sorted({o.fn for a in anns for o in a.obligations if o.kind == 'contract' and prop in o.props})[:60],
        'external_items': sorted({e for a in anns for e in a.external_items})[:20],
        'uncontracted_functions_under_type_invariant_only': sorted({u for a in anns for u in a.uncontracted})[:20],
        'wall_s': round(time.time() - t0, 1),
    })
    out.trusted += [t for t in report.VERUS_TRUSTED if t not in out.trusted]
    ev['assumption_scan'] = dict(pipeline.ASSUMPTION_SCAN, note='mechanical scan for assume/admit/external_body/assume_specification/axiom: allowed only in the fixed prelude and the auxiliary items (symbolic bounds, custom functions); zero inside the modules that came from the dump')
    return rejected


# ---------------------------------------------------------------------------------- finalize
def finalize(out: Outcome):
    known = [k for k in report.load_known() if k.get('property') == out.prop and k.get('status') == 'open']
    known_keys = {k['key']: k for k in known}
    fresh = []
    import fnmatch
    announced = set()
    for f in out.failed:
        key = f['key']
        hit = next((k for k in known_keys if k == key or fnmatch.fnmatchcase(key, k)), None)
        if hit is not None and known_keys[hit].get('witness_contains'):
            # the finding is identified by its failing input: it only explains this failure when the
            # witness found now is of that kind
            wit0 = json.dumps((f.get('witness') or [{}])[0])
            if not any(s in wit0 for s in known_keys[hit]['witness_contains']):
                hit = None
        if hit is not None:
            out.known_hits.append(key)
            if 'bounded' not in (f.get('backend') or '') and 'concrete' not in (f.get('backend') or ''):
                out.known_counted += 1
            if hit not in announced:
                announced.add(hit)
                out.emit('KNOWN-FINDING: property=%s %s (first failing obligation: %s)' % (out.prop, known_keys[hit]['what'], key))
        else:
            fresh.append(f)
    # one representative per (family, inner type, function) gets a witness search against the
    # real code; every failing obligation is listed in the evidence, the first MAX_LINES as lines
    groups = {}
    for f in fresh:
        d = f.get('decl_obj')
        g = (d.family if d else '', d.inner if d else '', f['key'].split('::', 1)[1] if '::' in f['key'] else f['key'])
        groups.setdefault(g, []).append(f)
    ordered = []
    seen_fam_fn = set()
    for g in sorted(groups, key=lambda g: (g[0], g[2], g[1])):
        if (g[0], g[2]) not in seen_fam_fn:
            seen_fam_fn.add((g[0], g[2]))
            ordered.append(groups[g][0])
    for g in sorted(groups, key=lambda g: (g[0], g[2], g[1])):
        if groups[g][0] not in ordered:
            ordered.append(groups[g][0])
    rest = [f for f in fresh if f not in ordered]
    reps = (ordered + rest)[:MAX_WITNESS_DECLS]
    for f in reps:
        d = f.get('decl_obj')
        if f.get('witness') is None and d is not None:
            try:
                f['witness'], f['wlog'] = witness.run_witness(d, extra_inputs=f.get('cex_inputs', ()), features=f.get('features', ()))
            except Exception as e:
                f['witness'], f['wlog'] = None, 'witness search error: %r' % e
    # the verifier's own counterexample for (up to 3) failing Kani harnesses
    ncex = 0
    for f in reps:
        if f.get('backend') == 'kani' and f.get('kani_harness') and ncex < 3:
            try:
                from vf import kani_side
                f['cex'] = kani_side.kani_counterexample(f['kani_crate'], f['kani_harness'])
            except Exception as e:
                f['cex'] = None
            # ... replayed against the real code: the harness, compiled natively with the real macro, run
            # with the verifier's values (self-contained crate next to the replay file)
            try:
                if f.get('cex'):
                    safe = ''.join(c if c.isalnum() or c in '._-' else '_' for c in f['key'])[:150]
                    dest = os.path.join(report.REPLAY_DIR, '%s__%s_playback' % (out.prop, safe))
                    f['playback'] = kani_side.kani_native_playback(f['kani_crate'], f['kani_harness'], f['cex'], dest)
            except Exception as e:
                f['playback'] = {'reproduced': None, 'note': 'native playback error: %r' % e}
            ncex += 1
    lines = 0
    for f in ordered + rest:
        key = f['key']
        d = f.get('decl_obj')
        wit = f.get('witness')
        if wit and out.prop in PROP_ENTRIES:
            wit = [w for w in wit if w.get('entry') in PROP_ENTRIES[out.prop]]
        if f.get('weak_dep') and not wit:
            # the function calls a std function for which vstd's contract says nothing that relates
            # it to the character sequence (`str::len`): the proof may fail for that reason alone
            # (e.g. a byte-length fast path in front of `chars().count()`); without a failing input
            # on the real code this is undecided, not a violation
            out.undecided.append('%s: %s fails in a function that calls `%s`, whose assumed contract is too weak to decide it; no failing input found on the real code' % (out.prop, key, f['weak_dep']))
            continue
        if f.get('tie') and not wit:
            # the obligation ties the spec functions to the code (it belongs to another property);
            # without a failing input for THIS property it is undecided, not a violation
            out.undecided.append('%s: contract %s (tie between code and spec) fails; %s is undecided for this declaration' % (out.prop, key, out.prop))
            continue
        payload = {
            'property': out.prop, 'obligation': key, 'backend': f.get('backend'),
            'declaration': d.source() if d is not None else f.get('declaration', ''),
            'decl_id': d.id if d is not None else None,
            'verifier_message': f.get('message'), 'verifier_output': f.get('detail', '')[:6000],
            'counterexample (Kani concrete playback: the values of the kani::any() calls in order)': (f.get('cex') or {}).get('values') if isinstance(f.get('cex'), dict) else f.get('cex'),
            'counterexample_failing_check': (f.get('cex') or {}).get('failing_check') if isinstance(f.get('cex'), dict) else None,
            'kani_playback': f.get('playback'),
            'witnesses_against_real_code': (wit or [])[:5],
            'witness_log': (f.get('wlog') or '')[-1500:] if not wit else '',
            'replay_cmd': './check --replay <this file>',
        }
        pb = f.get('playback') or {}
        found = bool(wit) or pb.get('reproduced') is True
        out.violations.append((key, None, found))
        if lines < MAX_LINES:
            path = report.write_replay(out.prop, key, payload)
            lines += 1
            out.emit('VIOLATION property=%s replay=%s obligation=%s%s' % (out.prop, path, key, '' if found else ' no-failing-input-found'))
    if len(fresh) > MAX_LINES:
        out.emit('... and %d more failing obligations of %s (all listed in the evidence file)' % (len(fresh) - MAX_LINES, out.prop))
    if out.undecided:
        for u in out.undecided[:20]:
            out.emit('UNDECIDED: ' + u)
    out.write_evidence()
    out.emit('%s: %d obligations, %d discharged, %d failed (%d known), %d undecided, %.1fs'
             % (out.prop, out.obligations, out.discharged, len(out.failed), len(out.known_hits), len(out.undecided), time.time() - out.t0))
    if out.violations:
        return 1
    if out.undecided or out.obligations == 0:
        return 2
    return 0


def c16_decls(tier):
    from vf.catalogue import mk
    from vf.decl import Validator, Bound, Sanitizer
    from vf import aux
    out = []
    ints = ['i32', 'u8', 'i64', 'u128', 'isize'] if tier == 'quick' else catalogue.INT_TYPES
    for t in ints + ['f32', 'f64']:
        fl = t in ('f32', 'f64')
        fam = 'float' if fl else 'int'
        for k in ('greater', 'greater_or_equal', 'less', 'less_or_equal'):
            b, n = aux.sym_bound('lo' if k.startswith('g') else 'hi', t)
            out.append(mk('c16_%s_%s_sym' % (t, k), fam, t, validators=[Validator(k, b)], aux=[n], derives=['Debug'], props=['C16']))
            lits = [('p', '7.5' if fl else '7')] + ([('n', '-7.5' if fl else '-7')] if (fl or t[0] == 'i') else []) + [('big', '1e30' if fl else '100')]
            for tag, src in lits:
                if fl:
                    bb = Bound(src, '', '(%s as %s)' % (src, t))
                else:
                    bb = aux.lit_bound(int(src), t)
                out.append(mk('c16_%s_%s_lit_%s' % (t, k, tag), fam, t, validators=[Validator(k, bb)], derives=['Debug'], props=['C16']))
        if t == 'i32':
            # a type whose own name ends in `Error`
            out.append(mk('c16_i32_less_named_error', 'int', t, validators=[Validator('less', aux.lit_bound(7, t))], derives=['Debug'], props=['C16']))
        if t == 'u128':
            out.append(mk('c16_u128_ge_lit_2p127', 'int', t, validators=[Validator('greater_or_equal', aux.lit_bound(1 << 127, t))], derives=['Debug'], props=['C16']))
            out.append(mk('c16_u128_lt_lit_max', 'int', t, validators=[Validator('less', aux.lit_bound((1 << 128) - 1, t))], derives=['Debug'], props=['C16']))
        # several validators in one declaration, embedding through FromStr and serde
        bl, n1 = aux.sym_bound('lo', t)
        bu, n2 = aux.sym_bound('hi', t)
        out.append(mk('c16_%s_ge_lt_embed' % t, fam, t, validators=[Validator('greater_or_equal', bl), Validator('less', bu)], aux=[n1, n2],
                      derives=['Debug', 'FromStr', 'Deserialize'], props=['C16']))
        out.append(mk('c16_%s_le_gt_embed' % t, fam, t, validators=[Validator('less_or_equal', bu), Validator('greater', bl)], aux=[n1, n2],
                      derives=['Debug', 'FromStr', 'Deserialize'], props=['C16']))
    lo = Bound(src='sym_len_lo()', spec='SYM_LEN_LO()', ref='sym_len_lo()', symbolic=True)
    hi = Bound(src='sym_len_hi()', spec='SYM_LEN_HI()', ref='sym_len_hi()', symbolic=True)
    out.append(mk('c16_str_min_sym', 'string', 'String', validators=[Validator('len_char_min', lo)], aux=['sym_len_lo'], derives=['Debug'], props=['C16']))
    out.append(mk('c16_str_max_sym', 'string', 'String', validators=[Validator('len_char_max', hi)], aux=['sym_len_hi'], derives=['Debug'], props=['C16']))
    out.append(mk('c16_str_min_max_lit', 'string', 'String', sanitizers=[Sanitizer('trim')],
                  validators=[Validator('len_char_min', aux.lit_bound(3)), Validator('not_empty'), Validator('len_char_max', aux.lit_bound(20))],
                  derives=['Debug', 'Deserialize'], props=['C16']))
    out.append(mk('c16_str_max0', 'string', 'String', validators=[Validator('len_char_max', aux.lit_bound(0))], derives=['Debug'], props=['C16']))
    # bounds written as expressions that have no type of their own: the message must print the value
    # the validator compares with (the expression evaluated as a value of the inner type), not the
    # value the expression has as an `i32` / `f64`
    for did, fam, t, k, src, val, ref in [
            ('c16_i64_less_untyped_shl31', 'int', 'i64', 'less', '(1 << 31)', 1 << 31, '(2147483648 as i64)'),
            ('c16_u32_ge_untyped_shl31', 'int', 'u32', 'greater_or_equal', '(1 << 31)', 1 << 31, '(2147483648 as u32)'),
            ('c16_u64_ge_untyped_not0', 'int', 'u64', 'greater_or_equal', '!0', (1 << 64) - 1, 'u64::MAX'),
            ('c16_i16_greater_untyped_sum', 'int', 'i16', 'greater', '(100 + 28)', 128, '(128 as i16)'),
            ('c16_f32_less_untyped_16777217', 'float', 'f32', 'less', '(16777217.0)', 16777216.0, '(16777217.0 as f32)'),
            ('c16_str_min_untyped_shl31', 'string', 'String', 'len_char_min', '(1 << 31)', 1 << 31, '(2147483648 as usize)')]:
        d = mk(did, fam, t, validators=[Validator(k, Bound(src=src, spec=str(val) if fam != 'float' else '', ref=ref, value=val))], derives=['Debug'], props=['C16'])
        d.note = 'untyped-expression-bound'
        out.append(d)
    return out


def c16_part(out: Outcome, tier):
    from vf import c16, kani_side
    decls = c16_decls(tier)
    dr = pipeline.build_dumps(decls, 'C16', features=('serde',))
    verus_decls, float_hs, float_decls = [], [], []
    embed_decls = []
    nrun_untyped = []
    by_id = {d.id: d for d in decls}
    for d in decls:
        txt = dr.dumps[d.id]
        if 'mod __nutype_' not in txt or d.id in dr.rustc_rejected:
            out.undecided.append('%s: declaration no longer accepted' % d.id)
            continue
        if d.note == 'untyped-expression-bound':
            # decided by running the real code (bounded): the message must name the value the validator
            # compares with, and what it states must agree with the constructor around that value
            import copy
            key0 = '%s::Display(untyped expression bound, run)' % d.id
            try:
                wit, wlog = witness.run_witness(copy.copy(d))
            except Exception as e:
                wit, wlog = None, repr(e)
            if wit is None:
                out.undecided.append('%s: the run did not build: %s' % (key0, (wlog or '')[-200:]))
                continue
            out.obligations += 1
            bad = [w for w in wit if w.get('entry') in ('MessageNaming', 'MessageTruth')]
            if bad:
                out.failed.append({'key': key0, 'backend': 'concrete run (bounded)',
                                   'message': 'the message does not state the bound the validator compares with', 'detail': json.dumps(bad[:3]),
                                   'decl': d.id, 'decl_obj': d, 'witness': bad})
            else:
                out.discharged += 1
            nrun_untyped.append(d.id)
            continue
        info = c16.analyse(d, txt)
        if info is None:
            out.undecided.append('%s: Display impl of %s not found in the expansion' % (d.id, d.error_type))
            continue
        d.c16 = []
        for ent in info:
            var = ent['variant']
            key0 = '%s::Display[%s]' % (d.id, var)
            out.obligations += 1
            if ent.get('missing'):
                out.obligations -= 1
                out.undecided.append('%s: the Display arm of the variant could not be read from the expansion' % key0)
                continue
            if not ent['names_ok'] or not ent['bound_ok']:
                # the syntactic read does not recognise how type name / bound are passed: decide by RUNNING
                # the real code (bounded): the produced message must contain the type name and the bound
                import copy
                try:
                    wit, wlog = witness.run_witness(copy.copy(d))
                except Exception as e:
                    wit, wlog = None, repr(e)
                bad = [w for w in (wit or []) if w.get('entry') == 'MessageNaming']
                if wit is None:
                    out.obligations -= 1
                    out.undecided.append('%s: naming of type/bound not readable and the run did not build' % key0)
                elif bad:
                    out.failed.append({'key': key0 + '#names_type_and_bound', 'backend': 'concrete run (bounded)',
                                       'message': 'the message does not name the type and the declared bound', 'detail': json.dumps(bad[:2]),
                                       'decl': d.id, 'decl_obj': d, 'witness': bad})
                else:
                    out.discharged += 1
                    out.bounded.append('%s: naming decided by running the real code (bounded)' % key0) if len(out.bounded) < 6 else None
            else:
                out.discharged += 1
            if ent['stated'] is None:
                out.undecided.append('%s: wording not in the phrase table: %r' % (key0, ent['fmt']))
                continue
            if d.family == 'float':
                v = ent['validator']
                subj, rel = ent['stated']
                body = (kani_side.sym_setup(d) +
                        '        let x: %s = kani::any();\n        kani::assume(!x.is_nan());\n' % d.inner +
                        '        let b: %s = %s;\n        kani::assume(!b.is_nan());\n' % (d.inner, v.bound.ref) +
                        '        let stated = x %s b;\n        let accepted = %s;\n' % (rel, d.ref_accepts(v, 'x')) +
                        '        assert!(stated == accepted, "the relation the message states holds exactly for the values the validator accepts");\n')
                h = kani_side.Harness(d, 'Display[%s]#relation' % var, ['C16'], body,
                                      clause='forall non-NaN x: (message: "%s")  x %s bound  <=>  validator %s accepts x' % (ent['fmt'][:60], rel, v.kind))
                float_hs.append(h)
                if d not in float_decls:
                    float_decls.append(d)
            else:
                d.c16.append(ent)
        if 'FromStr' in d.derives or 'Deserialize' in d.derives:
            embed_decls.append(d)
        if d.family != 'float' and d.c16:
            verus_decls.append(d)
    # Verus lemmas (ints, strings): only the lemma obligations are counted for C16
    for d in verus_decls:
        d.derives = ['Debug']          # the Verus side needs nothing else here
        d.props = ['C16']
    if verus_decls:
        verus_part(out, 'C16', verus_decls, tag='C16v')
    if float_hs:
        kani_side.kani_run_harnesses(out, 'C16', 'C16', float_decls, float_hs)
    # embedding of the validation message in the FromStr / serde errors: decided by RUNNING the real
    # code on boundary inputs (bounded, labelled), not by reading the text of the expansion
    nrun = 0
    for d in embed_decls[:6]:
        import copy
        dd = copy.copy(d)
        try:
            wit, wlog = witness.run_witness(dd)
        except Exception as e:
            wit, wlog = None, repr(e)
        if wit is None:
            out.undecided.append('%s: embedding run did not build: %s' % (d.id, (wlog or '')[-200:]))
            continue
        nrun += 1
        bad = [w for w in wit if w.get('entry') == 'Embedding']
        if bad:
            out.failed.append({'key': '%s::embedding' % d.id, 'backend': 'concrete run (bounded)', 'message': 'the FromStr / serde error does not contain the validation error\'s Display text',
                               'detail': json.dumps(bad[:3]), 'decl': d.id, 'decl_obj': d, 'witness': bad})
    out.bounded.append('embedding of the validation message in FromStr/serde errors: concrete runs of the real code on boundary inputs for %d declarations (bounded, not counted)' % nrun)
    if nrun_untyped:
        out.bounded.append('untyped expression bounds (%s): message naming/truth decided by running the real code on boundary inputs (bounded)' % ', '.join(nrun_untyped))
    out.trusted.append('C16: the phrase -> relation table in vf/c16.py (reading of English) is trusted; unknown wording is undecided')


def std_axioms_sanity(out):
    """bounded run of the assumed std axioms against the real standard library (labelled bounded)"""
    env = dict(pipeline.ENV)
    env['CARGO_TARGET_DIR'] = os.path.join(pipeline.VERIF, 'target', 'stdaxioms')
    rc, o, e, _ = pipeline.sh(['cargo', 'run', '--release', '--offline', '-q'], cwd=os.path.join(pipeline.VERIF, 'vf', 'stdaxioms'), env=env, timeout=900)
    line = (o.strip().splitlines() or [''])[-1]
    out.bounded.append('std axioms A1-A7 (vf/verus_prelude.rs) executed against real std, bounded: %s' % line[:300])
    if rc != 0:
        out.undecided.append('an assumed std axiom is FALSE on a concrete string, the C11 lemmas are not trustworthy: ' + line[:400])


def formats_sanity(out):
    """bounded check of the assumption about serde_json / ron / rmp-serde (newtype protocol, transparent encoding)"""
    env = dict(pipeline.ENV)
    env['CARGO_TARGET_DIR'] = os.path.join(pipeline.VERIF, 'target', 'formats')
    rc, o, e, _ = pipeline.sh(['cargo', 'run', '--release', '--offline', '-q'], cwd=os.path.join(pipeline.VERIF, 'vf', 'formats'), env=env, timeout=1800)
    line = (o.strip().splitlines() or [e[-300:]])[-1]
    out.bounded.append('assumption "JSON/RON/MessagePack follow serde\'s newtype protocol and encode a newtype struct as its inner value" executed on sample documents against the real crates (bounded): %s' % line[:300])
    if rc != 0:
        out.undecided.append('a supported format does not follow the assumed newtype protocol on a sample document: ' + line[:400])


def run_property(prop, tier, seed):
    out = Outcome(prop, tier, seed)
    if prop == 'C16':
        try:
            c16_part(out, tier)
        except Undecided as e:
            out.undecided.append(str(e)[:1500])
        return finalize(out)
    try:
        decls = [d for d in catalogue.verus_catalogue(tier, seed) if prop in d.props and d.verus]
        verus_part(out, prop, decls)
        if prop == 'C11':
            std_axioms_sanity(out)
        if prop in ('C04', 'C10'):
            formats_sanity(out)
        from vf import kani_side
        kani_side.kani_part(out, prop, tier, seed)
    except Undecided as e:
        out.undecided.append(str(e)[:1500])
    return finalize(out)


def replay(path):
    with open(path) as f:
        p = json.load(f)
    print('property   :', p['property'])
    print('obligation :', p['obligation'])
    print('declaration:\n' + p.get('declaration', ''))
    print('verifier   :', p.get('verifier_message'))
    pb = p.get('kani_playback') or {}
    pb_failed = False
    if pb.get('dir') and os.path.isdir(pb['dir']) and pb.get('test_name'):
        from vf import kani_side
        print('verifier counterexample:', json.dumps(p.get('counterexample (Kani concrete playback: the values of the kani::any() calls in order)')))
        r = kani_side.run_native_playback(pb['dir'], pb['test_name'], pb.get('should_panic_harness', False), pb.get('stubs_not_applied_natively', ()))
        print('native playback of the harness on the real code (%s): reproduced=%s %s' % (r.get('cmd'), r.get('reproduced'), r.get('native_panic') or r.get('note') or ''))
        if r.get('reproduced'):
            print('REAL CODE FAILS UNDER THE VERIFIER\'S COUNTEREXAMPLE: check=%s values=%s' % (p.get('counterexample_failing_check'), json.dumps([v.get('value') for v in (p.get('counterexample (Kani concrete playback: the values of the kani::any() calls in order)') or [])])))
            pb_failed = True
    did = p.get('decl_id')
    d = None
    cands = catalogue.all_decls()
    if p['property'] == 'C16':
        cands = cands + c16_decls('thorough')
    for c in cands:
        if c.id == did:
            d = c
    if d is None:
        print('declaration not in the catalogue any more; verifier output follows\n', p.get('verifier_output', ''))
        return 1
    if pb_failed:
        return 1
    wit, log = witness.run_witness(d)
    if wit is None:
        print('witness program did not build:\n', log)
        return 2
    if p['property'] in PROP_ENTRIES:
        wit = [w for w in wit if w.get('entry') in PROP_ENTRIES[p['property']]]
    for w in wit[:5]:
        print('REAL CODE DISAGREES: entry=%(entry)s input=%(input)s bounds=%(bounds)s real=%(real)s expected=%(expected)s' % w)
    if not wit:
        print('no failing input among the boundary/special inputs (obligation:', p['obligation'], ')')
        print(p.get('verifier_output', '')[:3000])
        return 0
    return 1


def setup():
    """Warm the cargo target directories (offline) so the first check does not pay for them."""
    decls = [d for d in catalogue.verus_catalogue('quick', 0) if d.id in ('int_i32_less_sym', 'str_tr_lo_ne')]
    try:
        pipeline.build_dumps(decls, 'setup')
        witness.run_witness(decls[0])
        from vf import kani_side
        kani_side.warm()
        o = Outcome('setup', 'quick', 0)
        std_axioms_sanity(o)
        formats_sanity(o)
    except Exception as e:
        print('setup warm-up problem (checks will rebuild on demand):', repr(e)[:500])
    print('setup done')
    return 0


def main():
    ap = argparse.ArgumentParser()
    ap.add_argument('prop', nargs='?')
    ap.add_argument('--tier', default=os.environ.get('VERIF_TIER', 'quick'))
    ap.add_argument('--replay')
    ap.add_argument('--setup', action='store_true')
    args = ap.parse_args()
    if args.setup:
        sys.exit(setup())
    if args.replay:
        sys.exit(replay(args.replay))
    seed = int(os.environ.get('VERIF_SEED', '0') or 0)
    if args.prop not in CLAIMED:
        print('unknown or unclaimed property', args.prop)
        sys.exit(2)
    sys.exit(run_property(args.prop, args.tier, seed))


if __name__ == '__main__':
    main()
