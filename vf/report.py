"""Evidence files, known findings, VIOLATION / KNOWN-FINDING lines, exit codes."""
import json
import os
import time

VERIF = os.environ.get('VERIF_HOME', '/verif')
EVIDENCE_DIR = os.environ.get('VERIF_EVIDENCE_DIR', os.path.join(VERIF, 'evidence'))
REPLAY_DIR = os.environ.get('VERIF_REPLAY_DIR', os.path.join(VERIF, 'replay'))
KNOWN = os.path.join(VERIF, 'known_findings.json')

VERUS_TRUSTED = [
    'Verus 0.2026.09.13 + Z3 soundness; rustfmt preserves tokens (whitespace-only reformatting of the dump)',
    'assumed std contracts in vf/verus_prelude.rs: str::trim/trim_start/trim_end/to_lowercase/to_uppercase/to_ascii_lowercase/to_ascii_uppercase -> distinct uninterpreted spec functions; <Chars as Iterator>::count == remaining().len(); String::len -> uninterpreted; vstd\'s own specs for str::is_empty, str::chars, str::to_string, String deref',
    'axioms: call_ensures(<String|&str as Into<String>>::into,(x,),s) ==> s@ == x@',
    'custom user functions (with=/predicate=/validate(with=)) are total, deterministic functions of their argument: external_body with `ensures r == UNINTERPRETED(x)`',
    'symbolic bounds: external_body `fn sym_*() ensures r == UNINTERPRETED()` (one proof covers every bound value)',
    'items marked #[verifier::external] by the annotator (Display/Error impls, non-string FromStr, Default with validation) are outside Verus; they are listed per declaration and covered on the Kani side or by the token scan',
    'declarations are ENUMERATED (catalogue), not quantified: the proof is for all inputs of each listed declaration',
    'usize/isize are 64-bit (global size_of usize == 8)',
]

KANI_TRUSTED = [
    'Kani 0.68 / CBMC 6.11 soundness; Kani\'s pinned nightly toolchain and its models of intrinsics; cfg(kani)',
    'the harness crate is compiled with the REAL macro from /repo (path dependency); nothing is extracted on this side',
    'reference functions generated from the abstract declaration (README reading) are the oracle',
    'float bound validators: NaN violates no bound (documented nutype design; `finite` is the NaN guard)',
]


def load_known():
    if not os.path.exists(KNOWN):
        return []
    with open(KNOWN) as f:
        return json.load(f).get('findings', [])


class Outcome:
    def __init__(self, prop, tier, seed):
        self.prop = prop
        self.tier = tier
        self.seed = seed
        self.t0 = time.time()
        self.obligations = 0
        self.discharged = 0
        self.failed = []          # dicts: key, backend, message, detail
        self.undecided = []       # strings
        self.samples = []
        self.extra = {}
        self.assumptions = []
        self.trusted = []
        self.checker_cmds = []
        self.bounded = []         # labelled bounded / by-text parts (not counted)
        self.violations = []      # (key, replay path, witness found)
        self.known_hits = []
        self.known_counted = 0   # known-finding failures that had been counted as obligations
        self.lines = []

    def emit(self, line):
        print(line, flush=True)
        self.lines.append(line)

    def write_evidence(self):
        os.makedirs(EVIDENCE_DIR, exist_ok=True)
        nknown = getattr(self, 'known_counted', 0)
        cov = {
            'obligations': self.obligations - nknown,
            'discharged': self.discharged,
            'obligations_failing_as_listed_open_known_findings (not counted above)': nknown,
            'checker_cmd': ' ; '.join(self.checker_cmds) or 'n/a',
            'trusted_base': self.trusted,
            'samples': self.samples[:12],
            'failed_obligations': [f['key'] for f in self.failed],
            'known_findings_hit': self.known_hits,
            'undecided': self.undecided[:50],
            'bounded_or_by_text_parts_not_counted': self.bounded,
        }
        cov.update(self.extra)
        ev = {
            'property_id': self.prop,
            'tier': self.tier,
            'seed': self.seed,
            'level': 'proof',
            'coverage': cov,
            'assumptions': self.assumptions or self.trusted,
            'wall_s': round(time.time() - self.t0, 2),
            'violations': len(self.violations),
        }
        with open(os.path.join(EVIDENCE_DIR, self.prop + '.json'), 'w') as f:
            json.dump(ev, f, indent=1)
        return ev


def write_replay(prop, key, payload):
    os.makedirs(REPLAY_DIR, exist_ok=True)
    safe = ''.join(c if c.isalnum() or c in '._-' else '_' for c in key)[:150]
    path = os.path.join(REPLAY_DIR, '%s__%s.json' % (prop, safe))
    with open(path, 'w') as f:
        json.dump(payload, f, indent=1)
    return path
