"""Harness-side serde formats for the Kani proofs of C04 / C10 (real serde traits, real generated
impls).  `Fmt<T>` is a Deserializer that either follows serde's newtype-struct protocol (mode 0:
`visit_newtype_struct` with a deserializer for the inner value, which may itself fail) or violates
it (other modes: visits some other shape).  `RecSer` is a Serializer that records the call it
receives.  Neither formats anything: `de::Error::custom` / `ser::Error::custom` ignore the message."""

PRIMS = ['i8', 'i16', 'i32', 'i64', 'i128', 'u8', 'u16', 'u32', 'u64', 'u128', 'f32', 'f64']

SERDE_ITEMS = r'''
pub mod sfmt {
    #![allow(dead_code, unused_variables)]
    use serde::de::{self, Deserializer, Visitor};
    use serde::ser::{self, Serializer, Serialize};

    #[derive(Debug, Clone, Copy, PartialEq, Eq)]
    pub enum DErr { Inner, Custom, Other }
    impl ::core::fmt::Display for DErr { fn fmt(&self, f: &mut ::core::fmt::Formatter<'_>) -> ::core::fmt::Result { Ok(()) } }
    impl ::std::error::Error for DErr {}
    impl de::Error for DErr { fn custom<T: ::core::fmt::Display>(_msg: T) -> Self { DErr::Custom } }
    impl ser::Error for DErr { fn custom<T: ::core::fmt::Display>(_msg: T) -> Self { DErr::Custom } }

    pub static mut SEEN_NAME_OK: bool = false;
    pub static mut EXPECT_NAME: &str = "";
    pub static mut NEWTYPE_CALLS: usize = 0;
    /// how the inner value was requested from the inner deserializer: 1 = with the inner type's own
    /// `deserialize_<t>` method (what `<Inner as Deserialize>::deserialize` does), 2 = any other way
    pub static mut INNER_REQ: u8 = 0;

    /// deserializer for the inner primitive value: hands `v` to whatever the inner type's visitor
    /// asks for, or fails with DErr::Inner when `ok` is false
    pub struct Prim<T> { pub v: T, pub ok: bool }
    /// the document: mode 0 follows the newtype protocol, other modes violate it
    pub struct Fmt<T> { pub v: T, pub ok: bool, pub mode: u8 }

    /// a sequence / map holding exactly the inner value (for documents that present the newtype as a
    /// 1-element sequence or a 1-entry map instead of a newtype struct)
    pub struct OneSeq<T> { pub v: Option<Prim<T>> }
    impl<'de, T> de::SeqAccess<'de> for OneSeq<T> where Prim<T>: Deserializer<'de, Error = DErr> {
        type Error = DErr;
        fn next_element_seed<S: de::DeserializeSeed<'de>>(&mut self, seed: S) -> Result<Option<S::Value>, DErr> {
            match self.v.take() { Some(p) => seed.deserialize(p).map(Some), None => Ok(None) }
        }
    }
    pub struct OneMap<T> { pub v: Option<Prim<T>>, pub key_done: bool }
    impl<'de, T> de::MapAccess<'de> for OneMap<T> where Prim<T>: Deserializer<'de, Error = DErr> {
        type Error = DErr;
        fn next_key_seed<K: de::DeserializeSeed<'de>>(&mut self, seed: K) -> Result<Option<K::Value>, DErr> {
            if self.key_done { return Ok(None); }
            self.key_done = true;
            match self.v.take() { Some(p) => seed.deserialize(p).map(Some), None => Ok(None) }
        }
        fn next_value_seed<V: de::DeserializeSeed<'de>>(&mut self, _seed: V) -> Result<V::Value, DErr> { Err(DErr::Other) }
    }

    macro_rules! prim_impl {
        ($t:ty, $de:ident, $visit:ident) => {
            impl<'de> Deserializer<'de> for Prim<$t> {
                type Error = DErr;
                fn deserialize_any<V: Visitor<'de>>(self, visitor: V) -> Result<V::Value, DErr> {
                    unsafe { INNER_REQ = 2; }
                    if self.ok { visitor.$visit(self.v) } else { Err(DErr::Inner) }
                }
                fn $de<V: Visitor<'de>>(self, visitor: V) -> Result<V::Value, DErr> {
                    unsafe { INNER_REQ = 1; }
                    if self.ok { visitor.$visit(self.v) } else { Err(DErr::Inner) }
                }
                serde::forward_to_deserialize_any! { @OTHERS@ }
            }
            impl<'de> Deserializer<'de> for Fmt<$t> {
                type Error = DErr;
                fn deserialize_any<V: Visitor<'de>>(self, visitor: V) -> Result<V::Value, DErr> { Err(DErr::Other) }
                fn deserialize_newtype_struct<V: Visitor<'de>>(self, name: &'static str, visitor: V) -> Result<V::Value, DErr> {
                    unsafe { NEWTYPE_CALLS += 1; SEEN_NAME_OK = name == EXPECT_NAME; }
                    match self.mode {
                        0 => visitor.visit_newtype_struct(Prim { v: self.v, ok: self.ok }),
                        1 => visitor.$visit(self.v),
                        2 => visitor.visit_unit(),
                        3 => visitor.visit_str("7"),
                        4 => visitor.visit_none(),
                        5 => visitor.visit_bool(true),
                        6 => visitor.visit_some(Prim { v: self.v, ok: self.ok }),
                        7 => visitor.visit_seq(OneSeq { v: Some(Prim { v: self.v, ok: self.ok }) }),
                        8 => visitor.visit_map(OneMap { v: Some(Prim { v: self.v, ok: self.ok }), key_done: false }),
                        9 => visitor.visit_i64(7),
                        10 => visitor.visit_f64(7.0),
                        11 => visitor.visit_char('7'),
                        12 => visitor.visit_string(String::from("7")),
                        13 => visitor.visit_bytes(&[7u8]),
                        14 => visitor.visit_borrowed_str("7"),
                        15 => visitor.visit_i128(7),
                        16 => visitor.visit_u128(7),
                        _ => visitor.visit_u64(7),
                    }
                }
                serde::forward_to_deserialize_any! {
                    bool i8 i16 i32 i64 i128 u8 u16 u32 u64 u128 f32 f64 char str string bytes byte_buf option unit
                    unit_struct seq tuple tuple_struct map struct enum identifier ignored_any
                }
            }
        };
    }
@PRIM_IMPLS@

    // String documents (concrete strings only: bounded, see DESIGN)
    /// how a String document hands its text to the visitor (formats differ: owned string, borrowed-for-the-
    /// call str, or - e.g. MessagePack `bin` - UTF-8 bytes, which serde's own String visitor accepts too)
    pub static mut STR_SHAPE: u8 = 0;
    impl<'de> Deserializer<'de> for Prim<String> {
        type Error = DErr;
        fn deserialize_any<V: Visitor<'de>>(self, visitor: V) -> Result<V::Value, DErr> {
            if !self.ok { return Err(DErr::Inner); }
            match unsafe { STR_SHAPE } {
                1 => visitor.visit_str(self.v.as_str()),
                2 => visitor.visit_bytes(self.v.as_bytes()),
                3 => visitor.visit_byte_buf(self.v.into_bytes()),
                _ => visitor.visit_string(self.v),
            }
        }
        serde::forward_to_deserialize_any! {
            bool i8 i16 i32 i64 i128 u8 u16 u32 u64 u128 f32 f64 char str string bytes byte_buf option unit
            unit_struct newtype_struct seq tuple tuple_struct map struct enum identifier ignored_any
        }
    }
    impl<'de> Deserializer<'de> for Fmt<String> {
        type Error = DErr;
        fn deserialize_any<V: Visitor<'de>>(self, visitor: V) -> Result<V::Value, DErr> { Err(DErr::Other) }
        fn deserialize_newtype_struct<V: Visitor<'de>>(self, name: &'static str, visitor: V) -> Result<V::Value, DErr> {
            unsafe { NEWTYPE_CALLS += 1; SEEN_NAME_OK = name == EXPECT_NAME; }
            match self.mode {
                0 => visitor.visit_newtype_struct(Prim { v: self.v, ok: self.ok }),
                1 => visitor.visit_string(self.v),
                2 => visitor.visit_unit(),
                _ => visitor.visit_u64(7),
            }
        }
        serde::forward_to_deserialize_any! {
            bool i8 i16 i32 i64 i128 u8 u16 u32 u64 u128 f32 f64 char str string bytes byte_buf option unit
            unit_struct seq tuple tuple_struct map struct enum identifier ignored_any
        }
    }

    // ---------------------------------------------------------------- recording serializer
    #[derive(Debug, Clone, Copy, PartialEq, Eq)]
    pub struct Rec { pub newtype_calls: u8, pub name_ok: bool, pub prim_kind: u8, pub bits: u128, pub other_calls: u8 }
    pub const EMPTY: Rec = Rec { newtype_calls: 0, name_ok: false, prim_kind: 0, bits: 0, other_calls: 0 };
    pub static mut SER_FAIL: bool = false;
    pub static mut LAST_STR: Option<String> = None;

    pub struct RecSer { pub depth: u8 }
    macro_rules! ser_prim {
        ($name:ident, $t:ty, $kind:expr, $bits:expr) => {
            fn $name(self, v: $t) -> Result<Rec, DErr> {
                if unsafe { SER_FAIL } { return Err(DErr::Inner); }
                if self.depth == 1 { let f: fn($t) -> u128 = $bits; Ok(Rec { prim_kind: $kind, bits: f(v), ..EMPTY }) } else { Ok(Rec { other_calls: 1, ..EMPTY }) }
            }
        };
    }
    impl Serializer for RecSer {
        type Ok = Rec;
        type Error = DErr;
        type SerializeSeq = ser::Impossible<Rec, DErr>;
        type SerializeTuple = ser::Impossible<Rec, DErr>;
        type SerializeTupleStruct = ser::Impossible<Rec, DErr>;
        type SerializeTupleVariant = ser::Impossible<Rec, DErr>;
        type SerializeMap = ser::Impossible<Rec, DErr>;
        type SerializeStruct = ser::Impossible<Rec, DErr>;
        type SerializeStructVariant = ser::Impossible<Rec, DErr>;
        ser_prim!(serialize_i8, i8, 1, |v| v as u8 as u128);
        ser_prim!(serialize_i16, i16, 2, |v| v as u16 as u128);
        ser_prim!(serialize_i32, i32, 3, |v| v as u32 as u128);
        ser_prim!(serialize_i64, i64, 4, |v| v as u64 as u128);
        ser_prim!(serialize_i128, i128, 5, |v| v as u128);
        ser_prim!(serialize_u8, u8, 6, |v| v as u128);
        ser_prim!(serialize_u16, u16, 7, |v| v as u128);
        ser_prim!(serialize_u32, u32, 8, |v| v as u128);
        ser_prim!(serialize_u64, u64, 9, |v| v as u128);
        ser_prim!(serialize_u128, u128, 10, |v| v);
        ser_prim!(serialize_f32, f32, 11, |v| v.to_bits() as u128);
        ser_prim!(serialize_f64, f64, 12, |v| v.to_bits() as u128);
        ser_prim!(serialize_bool, bool, 13, |v| v as u128);
        ser_prim!(serialize_char, char, 14, |v| v as u128);
        fn serialize_str(self, v: &str) -> Result<Rec, DErr> {
            if unsafe { SER_FAIL } { return Err(DErr::Inner); }
            unsafe { LAST_STR = Some(v.to_string()); }
            let b = v.as_bytes();
            let mut acc: u128 = b.len() as u128;
            let mut i = 0;
            while i < b.len() && i < 8 { acc = acc * 257 + b[i] as u128; i += 1; }
            if self.depth == 1 { Ok(Rec { prim_kind: 15, bits: acc, ..EMPTY }) } else { Ok(Rec { other_calls: 1, ..EMPTY }) }
        }
        fn serialize_bytes(self, _v: &[u8]) -> Result<Rec, DErr> { Ok(Rec { other_calls: 1, ..EMPTY }) }
        fn serialize_none(self) -> Result<Rec, DErr> { Ok(Rec { other_calls: 1, ..EMPTY }) }
        fn serialize_some<T: ?Sized + Serialize>(self, _value: &T) -> Result<Rec, DErr> { Ok(Rec { other_calls: 1, ..EMPTY }) }
        fn serialize_unit(self) -> Result<Rec, DErr> { Ok(Rec { other_calls: 1, ..EMPTY }) }
        fn serialize_unit_struct(self, _name: &'static str) -> Result<Rec, DErr> { Ok(Rec { other_calls: 1, ..EMPTY }) }
        fn serialize_unit_variant(self, _name: &'static str, _i: u32, _v: &'static str) -> Result<Rec, DErr> { Ok(Rec { other_calls: 1, ..EMPTY }) }
        fn serialize_newtype_struct<T: ?Sized + Serialize>(self, name: &'static str, value: &T) -> Result<Rec, DErr> {
            if self.depth != 0 { return Ok(Rec { other_calls: 1, ..EMPTY }); }
            let inner = value.serialize(RecSer { depth: 1 })?;
            Ok(Rec { newtype_calls: 1, name_ok: name == unsafe { EXPECT_NAME }, ..inner })
        }
        fn serialize_newtype_variant<T: ?Sized + Serialize>(self, _name: &'static str, _i: u32, _v: &'static str, _value: &T) -> Result<Rec, DErr> { Ok(Rec { other_calls: 1, ..EMPTY }) }
        fn serialize_seq(self, _len: Option<usize>) -> Result<Self::SerializeSeq, DErr> { Err(DErr::Other) }
        fn serialize_tuple(self, _len: usize) -> Result<Self::SerializeTuple, DErr> { Err(DErr::Other) }
        fn serialize_tuple_struct(self, _name: &'static str, _len: usize) -> Result<Self::SerializeTupleStruct, DErr> { Err(DErr::Other) }
        fn serialize_tuple_variant(self, _name: &'static str, _i: u32, _v: &'static str, _len: usize) -> Result<Self::SerializeTupleVariant, DErr> { Err(DErr::Other) }
        fn serialize_map(self, _len: Option<usize>) -> Result<Self::SerializeMap, DErr> { Err(DErr::Other) }
        fn serialize_struct(self, _name: &'static str, _len: usize) -> Result<Self::SerializeStruct, DErr> { Err(DErr::Other) }
        fn serialize_struct_variant(self, _name: &'static str, _i: u32, _v: &'static str, _len: usize) -> Result<Self::SerializeStructVariant, DErr> { Err(DErr::Other) }
    }
}
'''

ALL_FWD = ['bool', 'i8', 'i16', 'i32', 'i64', 'i128', 'u8', 'u16', 'u32', 'u64', 'u128', 'f32', 'f64', 'char', 'str', 'string', 'bytes',
           'byte_buf', 'option', 'unit', 'unit_struct', 'newtype_struct', 'seq', 'tuple', 'tuple_struct', 'map', 'struct', 'enum',
           'identifier', 'ignored_any']

PRIM_KIND = {'i8': 1, 'i16': 2, 'i32': 3, 'i64': 4, 'i128': 5, 'u8': 6, 'u16': 7, 'u32': 8, 'u64': 9, 'u128': 10, 'f32': 11, 'f64': 12}


def serde_items_expanded():
    """prim_impl expanded by hand per type (forward_to_deserialize_any! needs a literal list)."""
    text = SERDE_ITEMS
    a = text.index('    macro_rules! prim_impl {')
    b = text.index('@PRIM_IMPLS@')
    macro = text[a:b]
    body_a = macro.index('            impl<\'de> Deserializer<\'de> for Prim<$t> {')
    body_b = macro.rindex('        };')
    body = macro[body_a:body_b]
    impls = []
    for t in PRIMS:
        others = ' '.join(x for x in ALL_FWD if x != t)
        impls.append(body.replace('$t', t).replace('$de', 'deserialize_' + t).replace('$visit', 'visit_' + t).replace('@OTHERS@', others))
    return text[:a] + '\n'.join(impls) + text[b + len('@PRIM_IMPLS@'):]
