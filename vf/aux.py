"""Auxiliary items a catalogue declaration may refer to (symbolic bounds, constants, custom
functions, custom error types), each in three renderings:

  cargo : plain Rust for the crate that is built with the real macro (dump side, replay)
  verus : the same item as Verus sees it (external_body + uninterpreted spec function)
  kani  : plain Rust whose value is chosen by the harness (symbolic via a static)

These are the ONLY places (besides the fixed prelude) where assumptions are introduced on the
Verus side; the generated code itself is never given an assumption.
"""
from .decl import INT_TYPES, FLOAT_TYPES, Bound, Custom

NUM_TYPES = INT_TYPES + FLOAT_TYPES


def _items():
    items = {}

    def add(name, cargo, verus, kani=None):
        items[name] = {'cargo': cargo, 'verus': verus, 'kani': kani if kani is not None else cargo}

    for t in NUM_TYPES:
        T = t.upper()
        for which, val in (('lo', '3'), ('hi', '100')):
            lit = val + ('.0' if t in FLOAT_TYPES else '')
            add('sym_%s_%s' % (which, t),
                'pub fn sym_%s_%s() -> %s { %s }\n' % (which, t, t, lit),
                'pub uninterp spec fn SYM_%s_%s() -> %s;\n'
                '#[verifier::external_body]\n'
                'pub fn sym_%s_%s() -> (r: %s) ensures r == SYM_%s_%s() { %s }\n'
                % (which.upper(), T, t, which, t, t, which.upper(), T, lit),
                'pub static mut SYM_%s_%s: %s = %s;\n'
                'pub fn sym_%s_%s() -> %s { unsafe { SYM_%s_%s } }\n'
                % (which.upper(), T, t, lit, which, t, t, which.upper(), T))
        five = '5.0' if t in FLOAT_TYPES else '5'
        add('five_%s' % t, 'pub const fn five_%s() -> %s { %s }\n' % (t, t, five),
            'pub const fn five_%s() -> (r: %s) ensures r == %s { %s }\n' % (t, t, five, five))
        # constants
        lit = '10.0' if t in FLOAT_TYPES else '10'
        add('K_%s' % T, 'pub const K_%s: %s = %s;\n' % (T, t, lit), 'pub const K_%s: %s = %s;\n' % (T, t, lit))
        # custom sanitizer / predicate / validator over T
        if t in FLOAT_TYPES:
            san_body = 'if x < 0.0 { -x } else { x }'
            pred_body = '*x != 7.0'
        else:
            san_body = 'if x > 50 { 50 } else { x }'
            pred_body = '*x != 7'
        add('san_%s' % t,
            'pub const fn san_%s(x: %s) -> %s { %s }\n' % (t, t, t, san_body),
            'pub uninterp spec fn SPEC_SAN_%s(x: %s) -> %s;\n'
            '#[verifier::external_body]\n'
            'pub const fn san_%s(x: %s) -> (r: %s) ensures r == SPEC_SAN_%s(x) { unimplemented!() }\n'
            % (T, t, t, t, t, t, T))
        add('san2_%s' % t,
            'pub fn san2_%s(x: %s) -> %s { %s }\n' % (t, t, t, 'if x < (1 as %s) { 1 as %s } else { x }' % (t, t)),
            'pub uninterp spec fn SPEC_SAN2_%s(x: %s) -> %s;\n'
            '#[verifier::external_body]\n'
            'pub fn san2_%s(x: %s) -> (r: %s) ensures r == SPEC_SAN2_%s(x) { unimplemented!() }\n'
            % (T, t, t, t, t, t, T))
        add('san3_%s' % t,
            'pub fn san3_%s(x: %s) -> %s { x / (2 as %s) + (10 as %s) }\n' % (t, t, t, t, t),
            'pub uninterp spec fn SPEC_SAN3_%s(x: %s) -> %s;\n'
            '#[verifier::external_body]\n'
            'pub fn san3_%s(x: %s) -> (r: %s) ensures r == SPEC_SAN3_%s(x) { unimplemented!() }\n'
            % (T, t, t, t, t, t, T))
        if t in FLOAT_TYPES:
            # maps NaN (and negatives) to a number: a sanitizer that is NOT the identity on NaN
            add('san4_%s' % t,
                'pub fn san4_%s(x: %s) -> %s { if x >= 0.0 { x } else { 0.0 } }\n' % (t, t, t),
                'pub uninterp spec fn SPEC_SAN4_%s(x: %s) -> %s;\n'
                '#[verifier::external_body]\n'
                'pub fn san4_%s(x: %s) -> (r: %s) ensures r == SPEC_SAN4_%s(x) { unimplemented!() }\n'
                % (T, t, t, t, t, t, T))
        # a PARTIAL predicate: only defined on values the rule written before it admits (x > 0);
        # being called on anything else is an error of the caller (it would divide by zero)
        add('pred_partial_%s' % t,
            'pub fn pred_partial_%s(x: &%s) -> bool { assert!(*x > (0 as %s), "predicate called on a value that an earlier rule excludes"); *x != (7 as %s) }\n' % (t, t, t, t),
            '')
        add('ONE_%s' % T, 'pub const ONE_%s: %s = 1 as %s;\n' % (T, t, t), 'pub const ONE_%s: %s = 1 as %s;\n' % (T, t, t))
        add('pred_%s' % t,
            'pub const fn pred_%s(x: &%s) -> bool { %s }\n' % (t, t, pred_body),
            'pub uninterp spec fn SPEC_PRED_%s(x: %s) -> bool;\n'
            '#[verifier::external_body]\n'
            'pub const fn pred_%s(x: &%s) -> (r: bool) ensures r == SPEC_PRED_%s(*x) { unimplemented!() }\n'
            % (T, t, t, t, T))
        add('vfn_%s' % t,
            'pub fn vfn_%s(x: &%s) -> Result<(), MyErr> { if %s { Ok(()) } else { Err(MyErr::Bad) } }\n' % (t, t, pred_body),
            'pub uninterp spec fn SPEC_VFN_%s(x: %s) -> Result<(), MyErr>;\n'
            '#[verifier::external_body]\n'
            'pub fn vfn_%s(x: &%s) -> (r: Result<(), MyErr>) ensures r == SPEC_VFN_%s(*x) { unimplemented!() }\n'
            % (T, t, t, t, T))
    # user constants whose NAMES coincide with names a generator might use itself, and user modules with MAX / MIN
    add('USER_MAX_U8', 'pub const MAX: u8 = 200;\n', 'pub const MAX: u8 = 200;\n')
    add('USER_MIN_I16', 'pub const MIN: i16 = -100;\n', 'pub const MIN: i16 = -100;\n')
    for t in NUM_TYPES:
        if t in FLOAT_TYPES:
            add('limits_%s' % t, 'pub mod limits_%s { pub const MAX: %s = 100.5; pub const MIN: %s = -100.5; }\n' % (t, t, t), '')
        else:
            lo = '-100' if t[0] == 'i' else '5'
            add('limits_%s' % t, 'pub mod limits_%s { pub const MAX: %s = 100; pub const MIN: %s = %s; }\n' % (t, t, t, lo), '')
    add('MyErr',
        '#[derive(Debug, Clone, Copy, PartialEq, Eq)]\npub enum MyErr { Bad, Worse }\n'
        'impl ::core::fmt::Display for MyErr { fn fmt(&self, f: &mut ::core::fmt::Formatter<\'_>) -> ::core::fmt::Result { write!(f, "my err") } }\n'
        'impl ::core::error::Error for MyErr {}\n',
        '#[derive(Debug, Clone, Copy, PartialEq, Eq)]\npub enum MyErr { Bad, Worse }\n')
    # ---- string custom functions
    add('san_s',
        'pub fn san_s(s: String) -> String { s.replace(\'-\', "") }\n',
        'pub uninterp spec fn SPEC_SAN_S(s: Seq<char>) -> Seq<char>;\n'
        '#[verifier::external_body]\n'
        'pub fn san_s(s: String) -> (r: String) ensures r@ == SPEC_SAN_S(s@) { unimplemented!() }\n')
    add('san2_s',
        'pub fn san2_s(s: String) -> String { s.replace(\'_\', " ") }\n',
        'pub uninterp spec fn SPEC_SAN2_S(s: Seq<char>) -> Seq<char>;\n'
        '#[verifier::external_body]\n'
        'pub fn san2_s(s: String) -> (r: String) ensures r@ == SPEC_SAN2_S(s@) { unimplemented!() }\n')
    add('pred_s',
        'pub fn pred_s(s: &str) -> bool { !s.contains(\'@\') }\n',
        'pub uninterp spec fn SPEC_PRED_S(s: Seq<char>) -> bool;\n'
        '#[verifier::external_body]\n'
        'pub fn pred_s(s: &str) -> (r: bool) ensures r == SPEC_PRED_S(s@) { unimplemented!() }\n')
    add('vfn_s',
        'pub fn vfn_s(s: &str) -> Result<(), MyErr> { if s.contains(\'@\') { Err(MyErr::Bad) } else { Ok(()) } }\n',
        'pub uninterp spec fn SPEC_VFN_S(s: Seq<char>) -> Result<(), MyErr>;\n'
        '#[verifier::external_body]\n'
        'pub fn vfn_s(s: &str) -> (r: Result<(), MyErr>) ensures r == SPEC_VFN_S(s@) { unimplemented!() }\n')
    add('sym_len_lo',
        'pub fn sym_len_lo() -> usize { 2 }\n',
        'pub uninterp spec fn SYM_LEN_LO() -> usize;\n#[verifier::external_body]\n'
        'pub fn sym_len_lo() -> (r: usize) ensures r == SYM_LEN_LO() { 2 }\n',
        'pub static mut SYM_LEN_LO: usize = 2;\npub fn sym_len_lo() -> usize { unsafe { SYM_LEN_LO } }\n')
    add('sym_len_hi',
        'pub fn sym_len_hi() -> usize { 8 }\n',
        'pub uninterp spec fn SYM_LEN_HI() -> usize;\n#[verifier::external_body]\n'
        'pub fn sym_len_hi() -> (r: usize) ensures r == SYM_LEN_HI() { 8 }\n',
        'pub static mut SYM_LEN_HI: usize = 8;\npub fn sym_len_hi() -> usize { unsafe { SYM_LEN_HI } }\n')
    add('K_LEN', 'pub const K_LEN: usize = 5;\n', 'pub const K_LEN: usize = 5;\n')
    add('LEN_P16', 'pub const LEN_P16: usize = 0x10;\n', 'pub const LEN_P16: usize = 0x10;\n')
    add('LEN_P32', 'pub const LEN_P32: usize = 0x20;\n', 'pub const LEN_P32: usize = 0x20;\n')
    # ---- "any" family: generic and concrete custom functions
    add('san_vec',
        'pub fn san_vec<T: Ord>(mut v: Vec<T>) -> Vec<T> { v.sort(); v }\n',
        'pub uninterp spec fn SPEC_SAN_VEC<T>(v: Vec<T>) -> Vec<T>;\n#[verifier::external_body]\n'
        'pub fn san_vec<T: Ord>(v: Vec<T>) -> (r: Vec<T>) ensures r == SPEC_SAN_VEC(v) { unimplemented!() }\n')
    add('pred_vec',
        'pub fn pred_vec<T>(v: &Vec<T>) -> bool { !v.is_empty() }\n',
        'pub uninterp spec fn SPEC_PRED_VEC<T>(v: Vec<T>) -> bool;\n#[verifier::external_body]\n'
        'pub fn pred_vec<T>(v: &Vec<T>) -> (r: bool) ensures r == SPEC_PRED_VEC(*v) { unimplemented!() }\n')
    add('vfn_vec',
        'pub fn vfn_vec<T>(v: &Vec<T>) -> Result<(), MyErr> { if v.is_empty() { Err(MyErr::Bad) } else { Ok(()) } }\n',
        'pub uninterp spec fn SPEC_VFN_VEC<T>(v: Vec<T>) -> Result<(), MyErr>;\n#[verifier::external_body]\n'
        'pub fn vfn_vec<T>(v: &Vec<T>) -> (r: Result<(), MyErr>) ensures r == SPEC_VFN_VEC(*v) { unimplemented!() }\n')
    add('Point',
        '#[derive(Debug, Clone, Copy, PartialEq, Eq, PartialOrd, Ord, Hash, Default)]\npub struct Point { pub x: i32, pub y: i32 }\n',
        '#[derive(Debug, Clone, Copy, PartialEq, Eq)]\npub struct Point { pub x: i32, pub y: i32 }\n')
    # Point with a FromStr whose outcome is chosen by the harness (any deterministic parser)
    add('PointFromStr',
        'impl ::core::str::FromStr for Point { type Err = MyErr; fn from_str(s: &str) -> Result<Self, MyErr> { let mut it = s.split(\',\'); let x = it.next().and_then(|v| v.trim().parse().ok()).ok_or(MyErr::Bad)?; let y = it.next().and_then(|v| v.trim().parse().ok()).ok_or(MyErr::Worse)?; Ok(Point { x, y }) } }\n',
        '',
        'pub static mut PT_PARSE_OK: bool = true;\npub static mut PT_PARSE_VAL: Point = Point { x: 0, y: 0 };\npub static mut PT_PARSE_ERR: MyErr = MyErr::Bad;\n'
        'pub static mut PT_CALLS: usize = 0;\npub static mut PT_PTR: usize = 0;\npub static mut PT_LEN: usize = 0;\n'
        'impl ::core::str::FromStr for Point { type Err = MyErr; fn from_str(s: &str) -> Result<Self, MyErr> { unsafe { PT_CALLS += 1; PT_PTR = s.as_ptr() as usize; PT_LEN = s.len(); if PT_PARSE_OK { Ok(PT_PARSE_VAL) } else { Err(PT_PARSE_ERR) } } } }\n')
    # generic custom functions through a user trait (generic newtypes `struct X<T: Sat>(T)`, instantiated at i32)
    add('Sat',
        'pub trait Sat: Sized { fn sat(self) -> Self; fn ok(&self) -> bool; }\n'
        'impl Sat for i32 { fn sat(self) -> i32 { if self > 50 { 50 } else { self } } fn ok(&self) -> bool { *self != 7 } }\n'
        'pub fn san_gen<T: Sat>(x: T) -> T { x.sat() }\npub fn pred_gen<T: Sat>(x: &T) -> bool { x.ok() }\n'
        'pub fn vfn_gen<T: Sat>(x: &T) -> Result<(), MyErr> { if x.ok() { Ok(()) } else { Err(MyErr::Worse) } }\n'
        # a default that depends on T: valid for i32 (5), invalid for u8 (7 is rejected by ok())
        'pub trait Dflt: Sat { fn dflt() -> Self; }\nimpl Dflt for i32 { fn dflt() -> i32 { 5 } }\n'
        'impl Sat for u8 { fn sat(self) -> u8 { self } fn ok(&self) -> bool { *self != 7 } }\nimpl Dflt for u8 { fn dflt() -> u8 { 7 } }\n',
        '')
    for nm, ty in (('pair', '(i32, u8)'), ('opt', 'Option<i64>')):
        NM = nm.upper()
        add('san_%s' % nm,
            'pub fn san_%s(x: %s) -> %s { x }\n' % (nm, ty, ty),
            'pub uninterp spec fn SPEC_SAN_%s(x: %s) -> %s;\n#[verifier::external_body]\n'
            'pub fn san_%s(x: %s) -> (r: %s) ensures r == SPEC_SAN_%s(x) { unimplemented!() }\n' % (NM, ty, ty, nm, ty, ty, NM))
        add('pred_%s' % nm,
            'pub fn pred_%s(x: &%s) -> bool { true }\n' % (nm, ty),
            'pub uninterp spec fn SPEC_PRED_%s(x: %s) -> bool;\n#[verifier::external_body]\n'
            'pub fn pred_%s(x: &%s) -> (r: bool) ensures r == SPEC_PRED_%s(*x) { unimplemented!() }\n' % (NM, ty, nm, ty, NM))
    add('arr_fns',
        'pub fn san_arr(mut a: [i32; 3]) -> [i32; 3] { if a[0] > a[1] { let t = a[0]; a[0] = a[1]; a[1] = t; } a }\n'
        'pub fn pred_arr(a: &[i32; 3]) -> bool { a[2] != 7 }\n', '')
    add('RE_STATIC',
        'pub static RE_STATIC: ::std::sync::LazyLock<::regex::Regex> = ::std::sync::LazyLock::new(|| ::regex::Regex::new("^[a-z]+[0-9]?$").unwrap());\n', '')
    add('cow_fns',
        "pub fn san_cow<'a>(c: ::std::borrow::Cow<'a, str>) -> ::std::borrow::Cow<'a, str> { c }\npub fn pred_cow<'a>(c: &::std::borrow::Cow<'a, str>) -> bool { !c.is_empty() }\n",
        "pub uninterp spec fn SPEC_SAN_COW<'a>(c: ::std::borrow::Cow<'a, str>) -> ::std::borrow::Cow<'a, str>;\n#[verifier::external_body]\n"
        "pub fn san_cow<'a>(c: ::std::borrow::Cow<'a, str>) -> (r: ::std::borrow::Cow<'a, str>) ensures r == SPEC_SAN_COW(c) { unimplemented!() }\n"
        "pub uninterp spec fn SPEC_PRED_COW<'a>(c: ::std::borrow::Cow<'a, str>) -> bool;\n#[verifier::external_body]\n"
        "pub fn pred_cow<'a>(c: &::std::borrow::Cow<'a, str>) -> (r: bool) ensures r == SPEC_PRED_COW(*c) { unimplemented!() }\n")
    add('Meters',
        '#[derive(Debug, Clone, Copy, PartialEq, Default)]\npub struct Meters(pub i32);\n'
        'impl<\'a> arbitrary::Arbitrary<\'a> for Meters { fn arbitrary(u: &mut arbitrary::Unstructured<\'a>) -> arbitrary::Result<Self> { Ok(Meters(u.arbitrary()?)) } }\n'
        'pub fn san_m(m: Meters) -> Meters { Meters(if m.0 > 50 { 50 } else { m.0 }) }\npub fn san_m2(m: Meters) -> Meters { Meters(if m.0 < 1 { 1 } else { m.0 }) }\npub fn pred_m(m: &Meters) -> bool { m.0 != 7 && m.0 != 1 }\n',
        '')
    # inner type whose Display records the formatter it is handed (C13: Display transparency)
    add('Probe',
        '#[derive(Debug, Clone, Copy, PartialEq)]\npub struct Probe(pub u8);\n'
        'pub static mut PROBE_LOG: [u64; 8] = [0; 8];\n'
        'impl ::core::fmt::Display for Probe { fn fmt(&self, f: &mut ::core::fmt::Formatter<\'_>) -> ::core::fmt::Result { unsafe { PROBE_LOG[0] += 1; '
        'PROBE_LOG[1] = match f.width() { Some(w) => w as u64 + 1, None => 0 }; PROBE_LOG[2] = match f.precision() { Some(w) => w as u64 + 1, None => 0 }; '
        'PROBE_LOG[3] = (f.sign_plus() as u64) | ((f.sign_minus() as u64) << 1) | ((f.alternate() as u64) << 2) | ((f.sign_aware_zero_pad() as u64) << 3); '
        'PROBE_LOG[4] = match f.align() { None => 0, Some(::core::fmt::Alignment::Left) => 1, Some(::core::fmt::Alignment::Right) => 2, Some(::core::fmt::Alignment::Center) => 3 }; '
        'PROBE_LOG[5] = f.fill() as u64; PROBE_LOG[6] = self.0 as u64; } f.write_str("P") } }\n'
        'pub struct CountWriter { pub n: usize, pub acc: u64 }\n'
        'impl ::core::fmt::Write for CountWriter { fn write_str(&mut self, s: &str) -> ::core::fmt::Result { let b = s.as_bytes(); let mut i = 0; while i < b.len() && i < 4 { self.acc = self.acc * 257 + b[i] as u64; i += 1; } self.n += b.len(); Ok(()) } }\n',
        '')
    add('san_point',
        'pub fn san_point(p: Point) -> Point { Point { x: p.x.clamp(0, 100), y: p.y.clamp(0, 100) } }\n',
        'pub uninterp spec fn SPEC_SAN_POINT(p: Point) -> Point;\n#[verifier::external_body]\n'
        'pub fn san_point(p: Point) -> (r: Point) ensures r == SPEC_SAN_POINT(p) { unimplemented!() }\n')
    add('pred_point',
        'pub fn pred_point(p: &Point) -> bool { p.x <= p.y }\n',
        'pub uninterp spec fn SPEC_PRED_POINT(p: Point) -> bool;\n#[verifier::external_body]\n'
        'pub fn pred_point(p: &Point) -> (r: bool) ensures r == SPEC_PRED_POINT(*p) { unimplemented!() }\n')
    add('vfn_point',
        'pub fn vfn_point(p: &Point) -> Result<(), MyErr> { if p.x <= p.y { Ok(()) } else { Err(MyErr::Worse) } }\n',
        'pub uninterp spec fn SPEC_VFN_POINT(p: Point) -> Result<(), MyErr>;\n#[verifier::external_body]\n'
        'pub fn vfn_point(p: &Point) -> (r: Result<(), MyErr>) ensures r == SPEC_VFN_POINT(*p) { unimplemented!() }\n')
    return items


ITEMS = _items()


def sym_bound(which, t):
    name = 'sym_%s_%s' % (which, t)
    return Bound(src=name + '()', spec='SYM_%s_%s()' % (which.upper(), t.upper()), ref=name + '()', symbolic=True), name


def lit_bound(value, t=None, src=None):
    """Literal bound; spec is the mathematical value, ref is the typed literal."""
    s = src if src is not None else str(value)
    if t in FLOAT_TYPES:
        return Bound(src=s, spec='', ref='(%s as %s)' % (s, t), value=value)
    if t is None:
        return Bound(src=s, spec=str(value), ref=s, value=value)
    if value < 0:
        return Bound(src=s, spec='(%d)' % value, ref='(%d as %s)' % (value, t) if value >= -(1 << 127) + 1 else '%s::MIN' % t, value=value)
    return Bound(src=s, spec=str(value), ref='(%d as %s)' % (value, t), value=value)


def custom(kind, t, spelling='path'):
    """kind in san|san2|pred|vfn; t a numeric type, 's', 'vec' or 'point'."""
    name = '%s_%s' % (kind, t)
    spec = 'SPEC_%s_%s' % (kind.upper(), t.upper())
    return Custom(name=name, src=name, spec=spec), name


def render(names, mode):
    seen = []
    for n in names:
        if n not in seen:
            seen.append(n)
    # MyErr first, Point first (types before functions)
    seen.sort(key=lambda n: (0 if n in ('MyErr', 'Point', 'Probe', 'Sat', 'Meters') else (1 if n == 'PointFromStr' else 2)))
    return ''.join(ITEMS[n][mode] for n in seen)
