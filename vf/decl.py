"""Abstract declarations, their printer (-> `#[nutype(..)]` source) and the independent spec generator.

The spec generator never looks at generated code: it reads the declaration the way the README
documents it (sanitizers in written order, validators in written order, first failure wins).
"""
from dataclasses import dataclass, field
from typing import List, Optional, Dict

INT_TYPES = ['u8', 'u16', 'u32', 'u64', 'u128', 'usize', 'i8', 'i16', 'i32', 'i64', 'i128', 'isize']
FLOAT_TYPES = ['f32', 'f64']
INT_BITS = {'u8': 8, 'u16': 16, 'u32': 32, 'u64': 64, 'u128': 128, 'usize': 64,
            'i8': 8, 'i16': 16, 'i32': 32, 'i64': 64, 'i128': 128, 'isize': 64}


def int_min(t):
    return 0 if t[0] == 'u' else -(1 << (INT_BITS[t] - 1))


def int_max(t):
    return (1 << INT_BITS[t]) - 1 if t[0] == 'u' else (1 << (INT_BITS[t] - 1)) - 1


VARIANT = {
    'greater': 'GreaterViolated', 'greater_or_equal': 'GreaterOrEqualViolated',
    'less': 'LessViolated', 'less_or_equal': 'LessOrEqualViolated', 'finite': 'FiniteViolated',
    'predicate': 'PredicateViolated', 'not_empty': 'NotEmptyViolated',
    'len_char_min': 'LenCharMinViolated', 'len_char_max': 'LenCharMaxViolated', 'regex': 'RegexViolated',
}
REL = {'greater': '>', 'greater_or_equal': '>=', 'less': '<', 'less_or_equal': '<='}


@dataclass
class Bound:
    src: str            # as written in the attribute
    spec: str           # Verus spec expression with the denotation of `src` (parenthesised by user)
    ref: str            # executable Rust expression with the same denotation (reference / Kani)
    value: Optional[object] = None   # python value when known (literal bounds)
    symbolic: bool = False


@dataclass
class Custom:
    """A user function named in the declaration (`with = f`, `predicate = p`)."""
    name: str           # path of the function among the auxiliary items
    src: str            # how it is written in the attribute (path or closure text)
    spec: str           # name of the uninterpreted spec function (Verus) standing for it
    idempotent: bool = False


@dataclass
class Sanitizer:
    kind: str           # trim | lowercase | uppercase | with
    fn: Optional[Custom] = None


@dataclass
class Validator:
    kind: str
    bound: Optional[Bound] = None
    fn: Optional[Custom] = None


@dataclass
class Decl:
    id: str                       # stable id, also used to derive the type name
    family: str                   # int | float | string | any
    inner: str                    # inner type as written, e.g. i32, String, Vec<T>
    name: str = ''                # type name
    generics: str = ''            # e.g. "<T: Ord>" ('' if none)
    generic_args: str = ''        # e.g. "<T>"
    sanitizers: List[Sanitizer] = field(default_factory=list)
    validators: List[Validator] = field(default_factory=list)
    custom_validation: Optional[Custom] = None     # validate(with = f, error = E)
    custom_error: str = ''
    derives: List[str] = field(default_factory=list)
    default: Optional[str] = None                  # default expression as written
    default_ref: Optional[str] = None
    const_fn: bool = False
    new_unchecked: bool = False
    attr_override: Optional[str] = None            # exact attribute text (spelling variants)
    aux: List[str] = field(default_factory=list)   # names of auxiliary items needed
    props: List[str] = field(default_factory=list) # properties this declaration serves
    verus: bool = True                             # goes to the Verus side
    kani: bool = False                             # goes to the Kani side
    expect_reject: bool = False
    vis: str = 'pub'                               # declared visibility of the newtype ('' = private)
    note: str = ''
    extra_attrs: str = ''                          # further attributes written between #[nutype(..)] and the struct

    @property
    def has_validation(self):
        return bool(self.validators) or self.custom_validation is not None

    @property
    def error_type(self):
        if self.custom_validation is not None:
            return self.custom_error
        return self.name + 'Error'

    def default_spec(self):
        return self.default_ref if self.default_ref is not None else self.default

    @property
    def self_ty(self):
        return self.name + self.generic_args

    # ------------------------------------------------------------------ printer
    def attr_text(self):
        if self.attr_override is not None:
            return self.attr_override
        parts = []
        if self.new_unchecked:
            parts.append('new_unchecked')
        if self.const_fn:
            parts.append('const_fn')
        if self.sanitizers:
            parts.append('sanitize(' + ', '.join(
                s.kind if s.kind != 'with' else 'with = ' + s.fn.src for s in self.sanitizers) + ')')
        if self.custom_validation is not None:
            parts.append('validate(with = %s, error = %s)' % (self.custom_validation.src, self.custom_error))
        elif self.validators:
            vs = []
            for v in self.validators:
                if v.kind in ('finite', 'not_empty'):
                    vs.append(v.kind)
                elif v.kind == 'predicate':
                    vs.append('predicate = ' + v.fn.src)
                elif v.kind == 'regex':
                    vs.append('regex = ' + v.bound.src)
                else:
                    vs.append('%s = %s' % (v.kind, v.bound.src))
            parts.append('validate(' + ', '.join(vs) + ')')
        if self.derives:
            parts.append('derive(' + ', '.join(self.derives) + ')')
        if self.default is not None:
            parts.append('default = ' + self.default)
        return ', '.join(parts)

    def source(self):
        return '#[nutype(%s)]\n%s%sstruct %s%s(%s);\n' % (self.attr_text(), (self.extra_attrs + '\n') if self.extra_attrs else '',
                                                        (self.vis + ' ') if self.vis else '', self.name, self.generics, self.inner)

    # ------------------------------------------------------------------ spec generator (Verus)
    def view_type(self):
        return 'Seq<char>' if self.family == 'string' else self.inner

    def spec_view_of(self, expr):
        return expr + '@' if self.family == 'string' else expr

    def spec_sanitize_body(self, x='x'):
        e = x
        for s in self.sanitizers:
            if s.kind == 'trim':
                e = 'spec_trim(%s)' % e
            elif s.kind == 'lowercase':
                e = 'spec_lower(%s)' % e
            elif s.kind == 'uppercase':
                e = 'spec_upper(%s)' % e
            elif s.kind == 'with':
                e = '%s(%s)' % (s.fn.spec, e)
            else:
                raise ValueError(s.kind)
        return e

    def spec_accepts(self, v: Validator, x='x'):
        """Spec-level boolean: validator `v` accepts value x (README reading)."""
        k = v.kind
        if k in REL:
            if self.family == 'float':
                raise ValueError('floats are not specified on the Verus side')
            return '(%s %s (%s))' % (x, REL[k], v.bound.spec)
        if k == 'not_empty':
            return '(%s.len() != 0)' % x
        if k == 'len_char_min':
            return '(%s.len() >= (%s))' % (x, v.bound.spec)
        if k == 'len_char_max':
            return '(%s.len() <= (%s))' % (x, v.bound.spec)
        if k == 'predicate':
            return '%s(%s)' % (v.fn.spec, x)
        raise ValueError(k)

    def spec_validate_body(self, x='x'):
        E = self.error_type
        if self.custom_validation is not None:
            return '%s(%s)' % (self.custom_validation.spec, x)
        out = ''
        for v in self.validators:
            out += 'if !%s { Err(%s::%s) } else ' % (self.spec_accepts(v, x), E, VARIANT[v.kind])
        out += '{ Ok(()) }' if self.validators else 'Ok(())'
        return out

    # ------------------------------------------------------------------ executable reference (Rust)
    def ref_sanitize_expr(self, x='x'):
        e = x
        for s in self.sanitizers:
            if s.kind == 'trim':
                e = '%s.trim().to_string()' % e
            elif s.kind == 'lowercase':
                e = '%s.to_lowercase()' % e
            elif s.kind == 'uppercase':
                e = '%s.to_uppercase()' % e
            elif s.kind == 'with':
                e = '%s(%s)' % (s.fn.name, e)
        return e

    def ref_accepts(self, v: Validator, x='x'):
        """Executable boolean (x: &Inner for strings/any, value for numerics)."""
        k = v.kind
        if k in REL:
            if self.family == 'float':
                # documented design: a bound is violated iff the IEEE comparison in the rejecting
                # direction holds; NaN therefore violates no bound.
                neg = {'greater': '<=', 'greater_or_equal': '<', 'less': '>=', 'less_or_equal': '>'}[k]
                return '!(%s %s (%s))' % (x, neg, v.bound.ref)
            return '(%s %s (%s))' % (x, REL[k], v.bound.ref)
        if k == 'finite':
            return '%s.is_finite()' % x
        if k == 'not_empty':
            return '(%s.chars().count() != 0)' % x
        if k == 'len_char_min':
            return '(%s.chars().count() >= (%s))' % (x, v.bound.ref)
        if k == 'len_char_max':
            return '(%s.chars().count() <= (%s))' % (x, v.bound.ref)
        if k == 'predicate':
            if self.family in ('int', 'float'):
                return '%s(&%s)' % (v.fn.name, x)
            return '%s(%s)' % (v.fn.name, x)
        if k == 'regex':
            return '::regex::Regex::new(%s).unwrap().is_match(%s)' % (v.bound.ref, x)
        raise ValueError(k)
