"""Dump build (real macro, hook on) -> annotate -> assemble Verus files -> run Verus -> results."""
import json
import os
import re
import shutil
import subprocess
import time
from concurrent.futures import ThreadPoolExecutor
from dataclasses import dataclass, field
from typing import Dict, List, Optional

from . import aux
from .annotate import annotate, Annotated, Undecided
from .decl import Decl

VERIF = os.environ.get('VERIF_HOME', '/verif')
REPO = os.environ.get('VERIF_REPO', '/repo')
WORK = os.environ.get('VERIF_WORK', os.path.join(VERIF, 'work'))
TARGET = os.environ.get('VERIF_TARGET', os.path.join(VERIF, 'target'))
PRELUDE = open(os.path.join(VERIF, 'vf', 'verus_prelude.rs')).read()

ASSUMPTION_SCAN = {}
ENV = dict(os.environ)
ENV['CARGO_NET_OFFLINE'] = 'true'

VERIFICATION_FAILURE_MARKERS = (
    'postcondition not satisfied', 'precondition not satisfied', 'assertion failed',
    'constructed value may fail to meet its declared type invariant',
    'possible arithmetic underflow/overflow', 'possible division by zero',
    'cannot show invariant holds', 'invariant not satisfied', 'decreases not satisfied',
    'possible bit shift underflow/overflow', 'loop must have a decreases clause',
    'unreachable', 'recommendation not met', 'may fail to meet its declared type invariant',
    'failed this postcondition', 'function body check', 'refinement check failed',
    'not all errors may have been reported',
)


def sh(cmd, cwd=None, env=None, timeout=None):
    """run a command in its own process group; on timeout the whole group is killed"""
    import signal
    t0 = time.time()
    p = subprocess.Popen(cmd, cwd=cwd, env=env or ENV, stdout=subprocess.PIPE, stderr=subprocess.PIPE, text=True,
                         start_new_session=True)
    try:
        out, err = p.communicate(timeout=timeout)
    except subprocess.TimeoutExpired:
        try:
            os.killpg(p.pid, signal.SIGKILL)
        except ProcessLookupError:
            pass
        out, err = p.communicate()
        return 124, out, err + '\nTIMEOUT after %ss' % timeout, time.time() - t0
    return p.returncode, out, err, time.time() - t0


# ------------------------------------------------------------------------------------------ dump
@dataclass
class DumpResult:
    dumps: Dict[str, str] = field(default_factory=dict)      # decl id -> rustfmt-ed dump text
    raw: Dict[str, str] = field(default_factory=dict)
    rustc_rejected: Dict[str, str] = field(default_factory=dict)   # decl id -> first error message
    build_s: float = 0.0
    log: str = ''


def _lib_rs(decls: List[Decl], mode='cargo'):
    names = []
    for d in decls:
        names.extend(d.aux)
    out = ['#![allow(dead_code, unused_imports, unused_variables, unused_mut, non_snake_case, non_upper_case_globals, clippy::all)]\n',
           'use nutype::nutype;\n', aux.render(names, mode), '\n']
    spans = {}
    line = sum(x.count('\n') for x in out)
    for d in decls:
        text = 'pub mod d_%s {\n    use super::*;\n%s}\n' % (d.id, ''.join('    ' + l + '\n' for l in d.source().splitlines()))
        spans[d.id] = (line + 1, line + text.count('\n'))
        line += text.count('\n')
        out.append(text)
    return ''.join(out), spans


def build_dumps(decls: List[Decl], tag: str, features=()) -> DumpResult:
    """Compile the declarations with the REAL macro from /repo (hook on) and collect the dumps."""
    res = DumpResult()
    crate = os.path.join(WORK, 'cat_' + tag)
    dump_dir = os.path.join(WORK, 'dump_' + tag)
    shutil.rmtree(dump_dir, ignore_errors=True)
    os.makedirs(dump_dir)
    os.makedirs(os.path.join(crate, 'src'), exist_ok=True)
    feats = sorted(set(features) | ({'new_unchecked'} if any(d.new_unchecked for d in decls) else set()))
    with open(os.path.join(crate, 'Cargo.toml'), 'w') as f:
        deps = ''
        if 'serde' in feats:
            deps += 'serde = { version = "1", default-features = false, features = ["std"] }\n'
        if 'arbitrary' in feats:
            deps += 'arbitrary = "1"\n'
        f.write('[package]\nname = "nutype_verif_cat_%s"\nversion = "0.0.0"\nedition = "2021"\n\n[workspace]\n\n'
                '[dependencies]\nnutype = { path = "%s/nutype", features = %s }\n%s'
                % (tag.lower(), REPO, json.dumps(feats), deps))
    shutil.copy(os.path.join(REPO, 'Cargo.lock'), os.path.join(crate, 'Cargo.lock'))
    active = list(decls)
    env = dict(ENV)
    env['RUSTFLAGS'] = '--cfg nutype_verif'
    env['NUTYPE_VERIF_DUMP_DIR'] = dump_dir
    env['CARGO_TARGET_DIR'] = os.path.join(TARGET, 'cat')
    t0 = time.time()
    for attempt in range(4):
        text, spans = _lib_rs(active)
        with open(os.path.join(crate, 'src', 'lib.rs'), 'w') as f:
            f.write(text)
        if attempt > 0:
            # the dumps of the first expansion pass are complete (the hook writes before rustc
            # reports anything); later passes only establish that the accepted set compiles.
            env2 = dict(env)
            env2['NUTYPE_VERIF_DUMP_DIR'] = os.path.join(WORK, 'dump_%s_retry' % tag)
            shutil.rmtree(env2['NUTYPE_VERIF_DUMP_DIR'], ignore_errors=True)
        else:
            env2 = env
        rc, out, err, _ = sh(['cargo', 'build', '--offline', '--message-format=json', '-q'], cwd=crate, env=env2, timeout=1200)
        res.log += err[-4000:]
        if rc == 0:
            break
        bad = {}
        other = []
        for line in out.splitlines():
            try:
                m = json.loads(line)
            except ValueError:
                continue
            if m.get('reason') != 'compiler-message':
                continue
            msg = m['message']
            if msg.get('level') != 'error':
                continue
            located = False
            for sp in msg.get('spans', []):
                # follow macro expansion back to the attribute in lib.rs
                cur = sp
                while cur is not None:
                    if cur.get('file_name', '').endswith('src/lib.rs'):
                        ln = cur['line_start']
                        for did, (a, b) in spans.items():
                            if a <= ln <= b:
                                bad.setdefault(did, msg['message'])
                                located = True
                        break
                    cur = (cur.get('expansion') or {}).get('span')
            if not located and 'aborting due to' not in msg['message'] and 'could not compile' not in msg['message']:
                other.append(msg['message'])
        if not bad:
            raise Undecided('catalogue crate does not build and the errors cannot be attributed to a declaration: %s\n%s'
                            % (other[:3], err[-2000:]))
        res.rustc_rejected.update(bad)
        active = [d for d in active if d.id not in bad]
    else:
        raise Undecided('catalogue crate still failing after isolating rejected declarations')
    res.build_s = time.time() - t0
    # collect + rustfmt
    files = []
    for d in decls:
        p = os.path.join(dump_dir, d.name + '.rs')
        if not os.path.exists(p):
            if d.id in res.rustc_rejected:
                # the macro panicked (no token stream was returned): a compile-time rejection
                with open(p, 'w') as f:
                    f.write('// no expansion: the macro aborted\ncompile_error!{%s}\n' % json.dumps(res.rustc_rejected[d.id][:300]))
            else:
                raise Undecided('no dump for %s (%s): hook not active?' % (d.id, p))
        files.append(p)
        res.raw[d.id] = open(p).read()
    for i in range(0, len(files), 40):
        rc, out, err, _ = sh(['rustfmt', '--edition', '2021'] + files[i:i + 40])
        if rc != 0:
            # format one by one; a compile_error dump may be unformattable but is still readable
            for p in files[i:i + 40]:
                sh(['rustfmt', '--edition', '2021', p])
    for d in decls:
        res.dumps[d.id] = open(os.path.join(dump_dir, d.name + '.rs')).read()
    return res


# ------------------------------------------------------------------------------------------ verus
@dataclass
class FnResult:
    decl: str
    fn: str
    ok: bool
    smt_us: int = 0
    messages: List[str] = field(default_factory=list)


@dataclass
class VerusFileResult:
    path: str
    decl_ids: List[str]
    verified: int = 0
    errors: int = 0
    compile_error: bool = False
    canary_failed_as_expected: bool = False
    fn_results: List[FnResult] = field(default_factory=list)
    diagnostics: List[dict] = field(default_factory=list)
    wall_s: float = 0.0
    smt_ms: int = 0
    raw_stderr: str = ''
    decl_lines: Dict[str, tuple] = field(default_factory=dict)
    text: str = ''


def assemble(anns: List[Annotated], path: str):
    names = []
    for a in anns:
        names.extend(a.decl.aux)
    head = ('// GENERATED on every run: real expansions of /repo\'s macro with contracts inserted in place.\n'
            '#![allow(unused_imports, dead_code, unused_variables, unused_mut, non_snake_case, non_upper_case_globals, non_camel_case_types)]\n'
            'use vstd::prelude::*;\nuse vstd::string::*;\nuse vstd::std_specs::iter::IteratorSpec;\n'
            'verus! {\n')
    parts = [head, PRELUDE, '\n// ---- auxiliary items of the catalogue (symbolic bounds, custom functions) ----\n',
             aux.render(names, 'verus'), '\n']
    line = sum(p.count('\n') for p in parts)
    decl_lines = {}
    for a in anns:
        body = a.text
        text = 'pub mod d_%s {\n    use super::*;\n%s\n}\n' % (a.decl.id, body)
        decl_lines[a.decl.id] = (line + 1, line + text.count('\n'))
        line += text.count('\n')
        parts.append(text)
    parts.append('\n// vacuity canary: this MUST fail; if it verifies the assumptions are inconsistent\n'
                 'proof fn __verif_canary() ensures false {}\n')
    parts.append('} // verus!\nfn main() {}\n')
    text = ''.join(parts)
    with open(path, 'w') as f:
        f.write(text)
    # mechanical assumption scan: inside the part that came from the dump (the declaration modules)
    # nothing may be assumed; assumptions live only in the fixed prelude and the auxiliary items
    first_mod = text.find('pub mod d_')
    body = text[first_mod:] if first_mod >= 0 else ''
    pat = re.compile(r'\bassume\s*\(|\badmit\s*\(|external_body|assume_specification|\baxiom\b|#\[verifier::external_fn_specification|#\[verifier::external_type_specification')
    hits = [m.group(0) for m in pat.finditer(body) if not body[max(0, m.start() - 40):m.start()].rstrip().endswith('broadcast use {')]
    hits = [h for h in hits if h != 'axiom']   # `broadcast use {axiom_…}` names only
    if hits:
        raise Undecided('assumption scan: %d assumption construct(s) inside the generated modules of %s: %s' % (len(hits), os.path.basename(path), hits[:5]))
    ASSUMPTION_SCAN['prelude_and_aux'] = max(ASSUMPTION_SCAN.get('prelude_and_aux', 0), len(pat.findall(text[:first_mod] if first_mod >= 0 else text)))
    ASSUMPTION_SCAN['inside_generated_modules'] = 0
    ASSUMPTION_SCAN['files'] = ASSUMPTION_SCAN.get('files', 0) + 1
    return text, decl_lines


def _locate(text_lines, decl_lines, line):
    did = None
    for k, (a, b) in decl_lines.items():
        if a <= line <= b:
            did = k
            break
    fn = None
    impl = None
    lo = decl_lines[did][0] if did else 1
    for ln in range(line, lo - 1, -1):
        l = text_lines[ln - 1]
        if fn is None:
            m = re.search(r'\bfn\s+([A-Za-z_][A-Za-z0-9_]*)', l)
            if m:
                fn = m.group(1)
                continue
        if fn is not None:
            m = re.match(r'\s*(?:#\[.*\]\s*)?impl\b(.*)', l)
            if m:
                impl = re.sub(r'\s+', ' ', m.group(1)).strip(' {')
                break
    return did, fn, impl


def run_verus(path: str, decl_ids: List[str], decl_lines, text, extra_args=()) -> VerusFileResult:
    r = VerusFileResult(path=path, decl_ids=decl_ids, decl_lines=decl_lines, text=text)
    cmd = ['verus', path, '--output-json', '--time', '--error-format=json', '--multiple-errors', '20'] + list(extra_args)
    rc, out, err, wall = sh(cmd, cwd=os.path.dirname(path), timeout=1800)
    r.wall_s = wall
    r.raw_stderr = err
    lines = text.splitlines()
    try:
        j = json.loads(out)
    except ValueError:
        j = None
    for l in err.splitlines():
        if not l.startswith('{'):
            continue
        try:
            dmsg = json.loads(l)
        except ValueError:
            continue
        if dmsg.get('level') != 'error':
            continue
        r.diagnostics.append(dmsg)
    if j is None or 'verification-results' not in j:
        r.compile_error = True
        return r
    vr = j['verification-results']
    r.verified = vr.get('verified', 0)
    r.errors = vr.get('errors', 0)
    if vr.get('encountered-vir-error'):
        r.compile_error = True
    try:
        r.smt_ms = j['times-ms']['smt']['smt-run']
        for m in j['times-ms']['smt']['smt-run-module-times']:
            for fb in m.get('function-breakdown', []):
                name = fb['function']
                mm = re.search(r'::d_([A-Za-z0-9_]+)::', name)
                did = mm.group(1) if mm else ''
                short = name.split('::', 1)[1] if '::' in name else name
                r.fn_results.append(FnResult(decl=did, fn=short, ok=bool(fb.get('success')), smt_us=fb.get('time-micros', 0)))
    except (KeyError, TypeError):
        pass
    # classify diagnostics
    real = []
    for dmsg in r.diagnostics:
        msg = dmsg.get('message', '')
        if msg.startswith('aborting due to'):
            continue
        prim = [s for s in dmsg.get('spans', []) if s.get('is_primary')] or dmsg.get('spans', [])
        line = prim[0]['line_start'] if prim else 0
        if '__verif_canary' in json.dumps(dmsg.get('spans', [])) or (line and 'fn __verif_canary' in '\n'.join(lines[max(0, line - 2):line + 1])):
            r.canary_failed_as_expected = True
            continue
        is_verif = any(k in msg for k in VERIFICATION_FAILURE_MARKERS)
        did, fn, impl = _locate(lines, decl_lines, line) if line else (None, None, None)
        real.append({'message': msg, 'line': line, 'decl': did, 'fn': fn, 'impl': impl, 'verification_failure': is_verif,
                     'rendered': dmsg.get('rendered', '')[:3000]})
        if not is_verif:
            r.compile_error = True
    r.diagnostics = real
    return r


def verus_files(anns: List[Annotated], tag: str, per_file=8, jobs=8):
    """Group declarations into files and verify them in parallel."""
    out_dir = os.path.join(WORK, 'verus_' + tag)
    shutil.rmtree(out_dir, ignore_errors=True)
    os.makedirs(out_dir)
    groups = [anns[i:i + per_file] for i in range(0, len(anns), per_file)]
    tasks = []
    for gi, g in enumerate(groups):
        path = os.path.join(out_dir, 'g%03d.rs' % gi)
        text, dl = assemble(g, path)
        tasks.append((path, [a.decl.id for a in g], dl, text))
    with ThreadPoolExecutor(max_workers=jobs) as ex:
        results = list(ex.map(lambda t: run_verus(*t), tasks))
    # isolate compile errors: re-run the members of a failing file one by one
    final = []
    for g, res in zip(groups, results):
        if res.compile_error and len(g) > 1:
            sub = []
            for a in g:
                path = os.path.join(out_dir, 'single_%s.rs' % a.decl.id)
                text, dl = assemble([a], path)
                sub.append((path, [a.decl.id], dl, text))
            with ThreadPoolExecutor(max_workers=jobs) as ex:
                final.extend(ex.map(lambda t: run_verus(*t), sub))
        else:
            final.append(res)
    return final
