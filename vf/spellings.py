"""C02: catalogue that varies only the SPELLING of a declaration.  The abstract declaration lists
every rule that is written; the reference enforces each of them with the value the bound
expression denotes under Rust's expression semantics (the expression is spliced, parenthesised,
into the reference).  A declaration the macro (or rustc) rejects holds vacuously."""
from .catalogue import mk
from .decl import Sanitizer, Validator, Bound, Custom, FLOAT_TYPES
from . import aux


def _b(src, t):
    """bound written as `src`, denoting the Rust expression `(src)` of type t"""
    return Bound(src=src, spec='', ref='((%s) as %s)' % (src, t) if _is_plain_number(src) else '(%s)' % src)


def _is_plain_number(s):
    s2 = s.replace('_', '').replace('.', '').replace('-', '').replace('e', '').replace('+', '')
    return s2.isdigit()


def numeric_spellings(tier='quick'):
    out = []
    int_types = ['i32', 'u8', 'i64', 'i128', 'usize'] if tier == 'quick' else ['i8', 'i16', 'i32', 'i64', 'i128', 'isize', 'u8', 'u16', 'u32', 'u64', 'u128', 'usize']
    for t in int_types:
        signed = t[0] == 'i'
        K = 'K_%s' % t.upper()
        sp = [('lit5', '5', []), ('under', '1_0', []), ('const', K, [K]), ('paren', '(5)', []), ('shift_arith', '(1 << 4) - 1', []),
              ('const_shift', '%s << 1' % K, [K]), ('tmax', '%s::MAX' % t, []), ('tmin', '%s::MIN' % t, []),
              ('call', 'five_%s()' % t, ['five_' + t]), ('typed_lit', '5%s' % t, []), ('sum', '5 + 1', []), ('shift', '1 << 3', []),
              ('userpath_max', 'limits_%s::MAX' % t, ['limits_' + t]), ('userpath_min', 'limits_%s::MIN' % t, ['limits_' + t]),
              ('const_minus', '%s - 1' % K, [K]), ('cast', '(300u16 as %s)' % t if t != 'u8' else '(3u16 as u8)', []),
              # decimal literals with leading zeros (NOT octal in Rust), radix literals, suffixed zero
              ('lead0', '010', []), ('lead00', '0100', []), ('lead0_45', '055', []), ('hex', '0x1F', []), ('oct', '0o17', []), ('bin', '0b1010', []),
              ('typed_zero', '0%s' % t, []), ('typed_under', '1_0%s' % t, []),
              # expressions made of untyped literals only: they take the INNER type (not i32), which `>>`, `/`, `%` make visible
              ('not_shr', '!0 >> 1', []), ('not_div', '!0 / 4', []), ('shl_shr', '(1 << 7) >> 7', []), ('rem', '(1 << 9) % 7', []),
              # unary operators directly on a literal (a parser that folds signs must not take `!` for `-`)
              ('not0', '!0', []), ('not7', '!7', []), ('notparen', '!(7)', [])]
        if signed:
            sp += [('neg5', '-5', []), ('negconst', '-%s' % K, [K]), ('negparen', '-(5)', []), ('parenneg', '(-5)', []),
                   ('negcall', '-five_%s()' % t, ['five_' + t]), ('negunder', '-1_0', []), ('neglead0', '-0100', []),
                   ('negneg', '-(-5)', []), ('notneg', '!-5', []), ('negnot', '-!5', []), ('negparenneg', '-(-(5))', [])]
        for tag, src, names in sp:
            for kind in (['greater', 'less_or_equal'] if (tier == 'quick' and not tag.startswith('userpath')) else ['greater', 'greater_or_equal', 'less', 'less_or_equal']):
                d = mk('sp_%s_%s_%s' % (t, kind, tag), 'int', t, validators=[Validator(kind, _b(src, t))], aux=names,
                       derives=['Debug', 'TryFrom'], props=['C02'])
                d.note = 'bound spelling `%s`' % src
                out.append(d)
    for t in FLOAT_TYPES:
        K = 'K_%s' % t.upper()
        sp = [('lit', '5.5', []), ('intlit', '5', []), ('neg', '-5.5', []), ('negint', '-5', []), ('exp', '1e2', []), ('negexp', '-1e-2', []),
              ('under', '1_000.5', []), ('const', K, [K]), ('negconst', '-%s' % K, [K]), ('negparen', '-(5.5)', []), ('parenneg', '(-5.5)', []),
              ('tmax', '%s::MAX' % t, []), ('negtmax', '-%s::MAX' % t, []), ('inf', '%s::INFINITY' % t, []), ('neginf', '-%s::INFINITY' % t, []),
              ('neginf2', '%s::NEG_INFINITY' % t, []), ('call', 'five_%s()' % t, ['five_' + t]), ('negcall', '-five_%s()' % t, ['five_' + t]),
              ('typed', '5.5%s' % t, []), ('arith', '2.0 * 3.0', []), ('const_arith', '%s / 4.0' % K, [K]), ('negzero', '-0.0', []),
              ('minpos', '%s::MIN_POSITIVE' % t, []), ('huge', '1e400', []), ('lead0', '010.5', []), ('lead0int', '0100', []), ('typed_zero', '0%s' % t, []),
              ('computed', '0.1 + 0.2', []), ('negneg', '-(-5.5)', []),
              ('userpath_max', 'limits_%s::MAX' % t, ['limits_' + t]), ('userpath_min', 'limits_%s::MIN' % t, ['limits_' + t])]
        for tag, src, names in sp:
            for kind in (['greater_or_equal', 'less'] if (tier == 'quick' and not tag.startswith('userpath')) else ['greater', 'greater_or_equal', 'less', 'less_or_equal']):
                d = mk('sp_%s_%s_%s' % (t, kind, tag), 'float', t, validators=[Validator(kind, _b(src, t))], aux=names,
                       derives=['Debug', 'TryFrom'], props=['C02'])
                d.note = 'bound spelling `%s`' % src
                out.append(d)
    # ---- layouts (i32 and f64)
    for t in ['i32', 'f64']:
        fl = t in FLOAT_TYPES
        fam = 'float' if fl else 'int'
        lo, hi = ('0.5', '10.5') if fl else ('0', '10')
        vlo = Validator('greater', _b(lo, t))
        vhi = Validator('less', _b(hi, t))
        s, sn = aux.custom('san', t)
        p, pn = aux.custom('pred', t)
        vp = Validator('predicate', fn=p)

        def lay(tag, attr, sans, vals, names, default=None, derives=('Debug', 'TryFrom')):
            d = mk('sp_%s_layout_%s' % (t, tag), fam, t, sanitizers=sans, validators=vals, aux=names, derives=list(derives), props=['C02'],
                   default=default, default_ref=default)
            d.attr_override = attr
            d.note = 'layout: ' + attr
            return d
        out.append(lay('order_dvs', 'derive(Debug, TryFrom), validate(greater = %s, less = %s), sanitize(with = san_%s)' % (lo, hi, t),
                       [Sanitizer('with', s)], [vlo, vhi], [sn]))
        out.append(lay('trailing', 'sanitize(with = san_%s,), validate(greater = %s, less = %s,), derive(Debug, TryFrom,),' % (t, lo, hi),
                       [Sanitizer('with', s)], [vlo, vhi], [sn]))
        out.append(lay('two_validate', 'validate(greater = %s), validate(less = %s), derive(Debug, TryFrom)' % (lo, hi), [], [vlo, vhi], []))
        out.append(lay('two_validate_rev', 'validate(less = %s), derive(Debug, TryFrom), validate(greater = %s)' % (hi, lo), [], [vhi, vlo], []))
        out.append(lay('two_sanitize', 'sanitize(with = san_%s), sanitize(with = san2_%s), validate(less = %s), derive(Debug, TryFrom)' % (t, t, hi),
                       [Sanitizer('with', s), Sanitizer('with', aux.custom('san2', t)[0])], [vhi], [sn, 'san2_' + t]))
        out.append(lay('two_derive', 'derive(Debug), validate(less = %s), derive(TryFrom)' % hi, [], [vhi], []))
        out.append(lay('two_default', 'default = %s, validate(less = %s), derive(Debug, TryFrom, Default), default = %s' % (('1.0', hi, '2.0') if fl else ('1', hi, '2')),
                       [], [vhi], [], default='2.0' if fl else '2', derives=('Debug', 'TryFrom', 'Default')))
        dm = lay('mixed_custom_builtin', 'validate(less = %s, with = vfn_%s, error = MyErr), derive(Debug, TryFrom)' % (hi, t), [], [vhi], ['vfn_' + t, 'MyErr'])
        dm.expect_reject = True
        dm.custom_validation = aux.custom('vfn', t)[0]
        dm.custom_error = 'MyErr'
        dm.note = 'mixed: built-in validators together with with/error (must be rejected; if accepted both the built-in rule and the custom function must be enforced)'
        out.append(dm)
        out.append(lay('validate_then_pred', 'validate(predicate = pred_%s, less = %s), derive(Debug, TryFrom)' % (t, hi), [], [vp, vhi], [pn]))
        # several LITERAL rules of which one looks implied by the others (a generator that prunes "redundant"
        # rules at expansion time must still enforce each written rule: NaN passes every bound but not `finite`)
        if fl:
            fin = Validator('finite')
            ge, le = Validator('greater_or_equal', _b('0.0', t)), Validator('less_or_equal', _b('1.0', t))
            out.append(lay('fin_ge_le_lit', 'validate(finite, greater_or_equal = 0.0, less_or_equal = 1.0), derive(Debug, TryFrom)', [], [fin, ge, le], []))
            out.append(lay('ge_le_fin_lit', 'validate(greater_or_equal = 0.0, less_or_equal = 1.0, finite), derive(Debug, TryFrom)', [], [ge, le, fin], []))
            out.append(lay('gt_fin_lt_lit', 'validate(greater = %s, finite, less = %s), derive(Debug, TryFrom)' % (lo, hi), [], [vlo, fin, vhi], []))
            out.append(lay('fin_lt_lit', 'validate(finite, less = %s), derive(Debug, TryFrom)' % hi, [], [fin, vhi], []))
        else:
            out.append(lay('ge_gt_lit', 'validate(greater_or_equal = 0, greater = 5, less = 10), derive(Debug, TryFrom)', [],
                           [Validator('greater_or_equal', _b('0', t)), Validator('greater', _b('5', t)), vhi], []))
            out.append(lay('le_lt_pred_lit', 'validate(less_or_equal = 10, less = 10, predicate = pred_%s), derive(Debug, TryFrom)' % t, [],
                           [Validator('less_or_equal', _b('10', t)), vhi, vp], [pn]))
        # closure spellings
        san_body = 'if x < 0.0 { -x } else { x }' if fl else 'if x > 50 { 50 } else { x }'
        pred_body = '*x != 7.0' if fl else '*x != 7'
        for tag, san_src, pred_src in [('closure_untyped', '|x| %s' % san_body, '|x| %s' % pred_body),
                                       ('closure_typed', '|x: %s| %s' % (t, san_body), '|x: &%s| %s' % (t, pred_body)),
                                       ('closure_mut', '|mut x| { x = %s; x }' % san_body, '|x| { %s }' % pred_body),
                                       ('closure_ret', '|x: %s| -> %s { %s }' % (t, t, san_body), '|x: &%s| -> bool { %s }' % (t, pred_body)),
                                       ('path', 'san_%s' % t, 'pred_%s' % t),
                                       ('qualified_path', 'crate::san_%s' % t, 'self::super::pred_%s' % t)]:
            sc = Custom(name=s.name, src=san_src, spec=s.spec)
            pc = Custom(name=p.name, src=pred_src, spec=p.spec)
            d = mk('sp_%s_%s' % (t, tag), fam, t, sanitizers=[Sanitizer('with', sc)], validators=[Validator('predicate', fn=pc), vhi],
                   aux=[sn, pn], derives=['Debug', 'TryFrom'], props=['C02'])
            d.note = 'closure/path spelling'
            out.append(d)
    for d in out:
        d.verus = False
        d.kani = True
    return out


def string_spellings(tier='quick'):
    out = []
    p, pn = aux.custom('pred', 's')
    s, sn = aux.custom('san', 's')

    def lay(tag, attr, sans, vals, names, derives=('Debug', 'TryFrom', 'AsRef')):
        d = mk('sp_str_%s' % tag, 'string', 'String', sanitizers=sans, validators=vals, aux=names, derives=list(derives), props=['C02'])
        d.attr_override = attr
        d.note = 'layout: ' + attr
        return d
    T, L, U = Sanitizer('trim'), Sanitizer('lowercase'), Sanitizer('uppercase')
    ne = Validator('not_empty')

    def mn(src, spec):
        return Validator('len_char_min', Bound(src, spec, '(%s)' % src))

    def mx(src, spec):
        return Validator('len_char_max', Bound(src, spec, '(%s)' % src))
    out.append(lay('order_dvs', 'derive(Debug, TryFrom, AsRef), validate(not_empty, len_char_max = 10), sanitize(trim, lowercase)', [T, L], [ne, mx('10', '10')], []))
    out.append(lay('trailing', 'sanitize(trim, lowercase,), validate(not_empty, len_char_max = 10,), derive(Debug, TryFrom, AsRef,),', [T, L], [ne, mx('10', '10')], []))
    out.append(lay('two_validate', 'sanitize(trim), validate(not_empty), validate(len_char_max = 10), derive(Debug, TryFrom, AsRef)', [T], [ne, mx('10', '10')], []))
    out.append(lay('two_validate_rev', 'validate(len_char_max = 10), sanitize(trim), derive(Debug, TryFrom, AsRef), validate(not_empty)', [T], [mx('10', '10'), ne], []))
    out.append(lay('two_sanitize', 'sanitize(trim), sanitize(lowercase), validate(not_empty), derive(Debug, TryFrom, AsRef)', [T, L], [ne], []))
    out.append(lay('two_sanitize_rev', 'sanitize(uppercase), validate(not_empty), sanitize(trim), derive(Debug, TryFrom, AsRef)', [U, T], [ne], []))
    out.append(lay('two_derive', 'derive(Debug), sanitize(trim), validate(not_empty), derive(TryFrom, AsRef)', [T], [ne], []))
    out.append(lay('len_const', 'validate(len_char_min = K_LEN, len_char_max = K_LEN), derive(Debug, TryFrom, AsRef)', [], [mn('K_LEN', 'K_LEN'), mx('K_LEN', 'K_LEN')], ['K_LEN']))
    out.append(lay('len_under', 'validate(len_char_max = 1_0), derive(Debug, TryFrom, AsRef)', [], [mx('1_0', '10')], []))
    out.append(lay('len_paren_arith', 'validate(len_char_min = (1 + 2), len_char_max = (K_LEN * 2)), derive(Debug, TryFrom, AsRef)', [],
                   [mn('(1 + 2)', '3'), mx('(K_LEN * 2)', '10')], ['K_LEN']))
    out.append(lay('len_call', 'validate(len_char_min = sym_len_lo(), len_char_max = sym_len_hi()), derive(Debug, TryFrom, AsRef)', [],
                   [mn('sym_len_lo()', 'SYM_LEN_LO()'), mx('sym_len_hi()', 'SYM_LEN_HI()')], ['sym_len_lo', 'sym_len_hi']))
    out.append(lay('len_typed', 'validate(len_char_max = 10usize), derive(Debug, TryFrom, AsRef)', [], [mx('10usize', '10')], []))
    out.append(lay('len_sum', 'validate(len_char_max = 5 + 5), derive(Debug, TryFrom, AsRef)', [], [mx('5 + 5', '10')], []))
    out.append(lay('with_path_mid', 'sanitize(trim, with = san_s, lowercase), validate(predicate = pred_s, not_empty), derive(Debug, TryFrom, AsRef)',
                   [T, Sanitizer('with', s), L], [Validator('predicate', fn=p), ne], [sn, pn]))
    out.append(lay('qualified_paths', 'sanitize(with = crate::san_s), validate(predicate = crate::pred_s), derive(Debug, TryFrom, AsRef)',
                   [Sanitizer('with', s)], [Validator('predicate', fn=p)], [sn, pn]))
    return out
