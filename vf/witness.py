"""Witness search and replay against the REAL code.

When an obligation fails, a small crate using /repo's macro (hook off) evaluates every derived
entry point of the declaration and the executable reference on boundary / special inputs (and on
the verifier's counterexample, when it gave one) and reports the first disagreement.  The replay
file records the input; `./check --replay <file>` re-runs exactly that comparison."""
import json
import os
import shutil

from . import aux
from .decl import Decl, INT_TYPES, FLOAT_TYPES
from .refgen import ref_module, concrete_inner, concrete_self
from .pipeline import sh, ENV, WORK, VERIF
from . import pipeline


def _candidates(d: Decl, extra):
    I = concrete_inner(d)
    if d.family == 'int':
        t = d.inner
        xs = ['%s::MIN' % t, '%s::MIN.wrapping_add(1)' % t, '0', '1', '2', '3', '4', '6', '7', '8', '9', '10', '11', '15', '16', '17', '49', '50', '51',
              '99', '100', '101', '%s::MAX' % t, '%s::MAX - 1' % t,
              'sym_lo_%s()' % t, 'sym_lo_%s().wrapping_add(1)' % t, 'sym_lo_%s().wrapping_sub(1)' % t,
              'sym_hi_%s()' % t, 'sym_hi_%s().wrapping_add(1)' % t, 'sym_hi_%s().wrapping_sub(1)' % t]
        if t[0] == 'i':
            xs += ['-1', '-2', '-5', '-10', '-11', '-9', '-100', '-101']
        xs = ['(%s) as %s' % (x, t) if not x.startswith(t) and 'sym_' not in x else x for x in xs]
    elif d.family == 'float':
        t = d.inner
        xs = ['%s::NAN' % t, '-%s::NAN' % t, '%s::INFINITY' % t, '%s::NEG_INFINITY' % t, '0.0', '-0.0', '%s::MIN_POSITIVE' % t,
              '%s::from_bits(1)' % t, '1.0', '-1.0', '2.5', '3.0', '7.0', '9.99', '10.0', '10.01', '-10.0', '99.5', '100.0', '100.5', '%s::MAX' % t, '%s::MIN' % t,
              '%s::EPSILON' % t, 'sym_lo_%s()' % t, 'sym_hi_%s()' % t,
              '%s::from_bits(sym_lo_%s().to_bits().wrapping_add(1))' % (t, t), '%s::from_bits(sym_lo_%s().to_bits().wrapping_sub(1))' % (t, t),
              '%s::from_bits(sym_hi_%s().to_bits().wrapping_add(1))' % (t, t), '%s::from_bits(sym_hi_%s().to_bits().wrapping_sub(1))' % (t, t)]
    elif d.family == 'string':
        return None
    elif I == 'Point':
        xs = ['Point { x: %d, y: %d }' % (a, b) for a in (-1, 0, 5, 100, 101) for b in (-1, 0, 5, 100, 101)]
    elif I.startswith('Vec<'):
        xs = ['vec![]', 'vec![1]', 'vec![2, 1]', 'vec![1, 2, 3]', 'vec![3, 2, 1, 0]']
    else:
        xs = ['Default::default()']
    return list(extra) + xs


ARB_MAIN = r"""
    // ---- Arbitrary (C09 / C14): run the real generator on byte patterns; a panic or an invalid value is a witness
    {
        std::panic::set_hook(Box::new(|_| {}));
        let mut pats: Vec<Vec<u8>> = vec![vec![]];
        for len in 1..=17usize { pats.push(vec![0u8; len]); pats.push(vec![0xFFu8; len]); pats.push(vec![0x80u8; len]); pats.push(vec![0x7Fu8; len]);
            let mut v = vec![0u8; len]; v[len - 1] = 1; pats.push(v.clone()); v[0] = 0x80; pats.push(v); let mut v = vec![0xFFu8; len]; v[0] = 0x7F; pats.push(v);
            pats.push((0..len).map(|i| (i * 37 + 11) as u8).collect()); }
        for b0 in 0..=255u8 { pats.push(vec![b0]); for b1 in [0u8, 1, 0x7F, 0x80, 0xFF] { pats.push(vec![b0, b1]); pats.push(vec![b1, b0, 0, 0]); pats.push(vec![0, 0, b1, b0]); pats.push(vec![0, 0, 0x80, 0x7F, b0, b1, 0, 0]); } }
        for len in [1usize, 2, 4, 8, 16] { for b in 0..=255u8 { let mut v = vec![0u8; len]; v[0] = 0x80; v[len - 1] = b; pats.push(v); let mut v = vec![0xFFu8; len]; v[0] = 0x7F; v[len - 1] = b; pats.push(v); let mut v = vec![0u8; len]; v[len - 1] = b; pats.push(v); } }
        @SETUP@
        for (si, set) in settings.iter().enumerate() {
            set();
            let setting = format!("arbitrary setting #{}", si);
            for p in pats.iter() {
                let r = std::panic::catch_unwind(|| { let mut u = arbitrary::Unstructured::new(p); <@S@ as arbitrary::Arbitrary>::arbitrary(&mut u).map(|v| v.into_inner()) });
                match r {
                    Err(_) => report("Arbitrary", &format!("bytes {:?}", p), &setting, "PANIC".to_string(), "Ok(valid value) or Err(arbitrary::Error)".to_string(), &mut n),
                    Ok(Ok(i)) => if !@R@::valid(&i) { report("Arbitrary", &format!("bytes {:?}", p), &setting, format!("Ok({:?}) which the validators reject", i), "a valid value".to_string(), &mut n) },
                    Ok(Err(_)) => {}
                }
            }
        }
    }
"""


ARB_SURJ_MAIN = r"""
    // ---- C14: the generator's range equals the valid set (exhaustive over all inputs of <= 2 bytes, for
    // settings whose valid set lies strictly inside the window [-300, 300])
    {
        @SETUP@
        for (si, set) in settings.iter().enumerate() {
            set();
            let lo_w: i128 = -300; let hi_w: i128 = 300;
            let in_ty = |x: i128| x >= (@I@::MIN as i128) && x <= (@I@::MAX as i128);
            let valid: Vec<@I@> = (lo_w..=hi_w).filter(|x| in_ty(*x)).map(|x| x as @I@).filter(|x| @R@::valid(x)).collect();
            let edge = |x: i128| in_ty(x) && @R@::valid(&(x as @I@));
            if valid.is_empty() || valid.len() > 300 || edge(lo_w) || edge(hi_w) || edge(hi_w + 1) || edge(lo_w - 1) || @R@::valid(&@I@::MIN) || @R@::valid(&@I@::MAX) { continue; }
            let mut produced = std::collections::BTreeSet::new();
            let mut run = |p: &[u8]| { if let Ok(Ok(v)) = std::panic::catch_unwind(|| { let mut u = arbitrary::Unstructured::new(p); <@S@ as arbitrary::Arbitrary>::arbitrary(&mut u).map(|v| v.into_inner()) }) { produced.insert(v); } };
            run(&[]);
            for a in 0..=255u8 { run(&[a]); for b in 0..=255u8 { run(&[a, b]); } }
            for v in valid.iter() { if !produced.contains(v) { report("ArbitrarySurjective", &format!("valid value {:?}", v), &format!("arbitrary setting #{}", si), "never produced by any input of <= 2 bytes".to_string(), "produced by some input".to_string(), &mut n); } }
        }
    }
"""


ARB_STRING_MAIN = r"""
    // ---- String Arbitrary (C09), BOUNDED exploration: a length-selector byte followed by up to 4 chars
    // (4 little-endian bytes each) from an alphabet of whitespace / case-expanding / multi-byte chars,
    // plus all-zero / all-0xFF inputs of every length up to 64
    {
        std::panic::set_hook(Box::new(|_| {}));
        let alphabet: [u32; 10] = [0x20, 0x61, 0x41, 0xDF, 0x130, 0xA0, 0x1C5, 0x149, 0xFB01, 0x09];
        let mut pats: Vec<Vec<u8>> = vec![vec![]];
        for len in 1..=64usize { pats.push(vec![0u8; len]); pats.push(vec![0xFFu8; len]); }
        let enc = |cs: &[u32]| -> Vec<u8> { cs.iter().flat_map(|c| c.to_le_bytes()).collect() };
        for l in 0..=24u8 {
            pats.push(vec![l]);
            for &a in &alphabet { let mut v = vec![l]; v.extend(enc(&[a])); pats.push(v);
                for &b in &alphabet { let mut v = vec![l]; v.extend(enc(&[a, b])); pats.push(v);
                    for &c in &alphabet { let mut v = vec![l]; v.extend(enc(&[a, b, c])); pats.push(v.clone());
                        if l % 4 == 1 { for &e in &[0x20u32, 0xDF, 0x61] { let mut v4 = v.clone(); v4.extend(enc(&[e])); pats.push(v4); } } } } }
        }
        let mut explored = 0usize;
        for (lo, hi) in [(2usize, 8usize), (0, 0), (1, 1), (1, 3), (3, 3)] {
            unsafe { SYM_LEN_LO = lo; SYM_LEN_HI = hi; }
            let setting = format!("len_lo={} len_hi={}", lo, hi);
            // the property only speaks about declarations whose valid set is non-empty
            if !(0..=80usize).any(|k| { let c = "a".repeat(k); @R@::valid(&@R@::sanitize(c)) }) { continue; }
            for p in pats.iter() {
                explored += 1;
                let r = std::panic::catch_unwind(|| { let mut u = arbitrary::Unstructured::new(p); <@S@ as arbitrary::Arbitrary>::arbitrary(&mut u).map(|v| v.into_inner()) });
                match r {
                    Err(_) => report("Arbitrary", &format!("bytes {:?}", p), &setting, "PANIC".to_string(), "Ok(valid value) or Err(arbitrary::Error)".to_string(), &mut n),
                    Ok(Ok(i)) => if !@R@::valid(&i) || @R@::sanitize(i.clone()) != i { report("Arbitrary", &format!("bytes {:?}", p), &setting, format!("Ok({:?}) which is not a valid sanitized value", i), "a valid value".to_string(), &mut n) },
                    Ok(Err(_)) => {}
                }
            }
        }
        println!("{{\"explored_string_arbitrary_inputs\":{}}}", explored);
    }
"""


def arb_settings(d: Decl):
    t = d.inner
    T = t.upper()
    uses = [n for n in d.aux if n.startswith('sym_lo_') or n.startswith('sym_hi_')]
    if not uses:
        return 'let settings: Vec<Box<dyn Fn()>> = vec![Box::new(|| {})];'
    if d.family == 'int':
        pairs = [('1', '10'), ('%s::MIN' % t, '%s::MAX' % t), ('0', '100'), ('5', '7')]
        pairs = [('(%s) as %s' % (a, t) if '::' not in a else a, '(%s) as %s' % (b, t) if '::' not in b else b) for a, b in pairs]
    else:
        pairs = [('0.0', '1.0'), ('-5.0', '5.0'), ('100.0', '200.0'), ('-1e30', '1e30'), ('1e30', '2e30'), ('%s::MIN' % t, '%s::MAX' % t),
                 # infinite bounds (legal; with `finite` every finite value on that side is valid)
                 ('%s::NEG_INFINITY' % t, '%s::INFINITY' % t), ('%s::NEG_INFINITY' % t, '1.0'), ('0.0', '%s::INFINITY' % t)]
    return 'let settings: Vec<Box<dyn Fn()>> = vec![%s];' % ', '.join('Box::new(|| unsafe { SYM_LO_%s = %s; SYM_HI_%s = %s; })' % (T, a, T, b) for a, b in pairs)


def witness_crate(d: Decl, extra_inputs=()):
    """Rust source of a program that prints JSON lines {entry, input, real, expected} for every
    disagreement between the real code and the reference."""
    I = concrete_inner(d)
    S = concrete_self(d)
    has_v = d.has_validation
    names = list(d.aux)
    for t in INT_TYPES + FLOAT_TYPES:
        if d.inner == t:
            names += ['sym_lo_' + t, 'sym_hi_' + t]
    if d.family == 'string':
        names += ['sym_len_lo', 'sym_len_hi']
    out = ['#![allow(dead_code, unused_imports, unused_variables, unused_mut, static_mut_refs, non_snake_case, overflowing_literals, clippy::all)]\n',
           'use nutype::nutype;\nuse std::convert::TryFrom;\nuse std::str::FromStr;\nuse std::borrow::Borrow;\n',
           aux.render(names, 'kani'), '\n',
           'pub mod d_%s {\n    use super::*;\n%s}\n' % (d.id, ''.join('    ' + l + '\n' for l in d.source().splitlines())),
           'use d_%s::*;\n' % d.id,
           ref_module(d, string_errors=True)]
    R = 'ref_%s' % d.id
    out.append('fn esc(s: &str) -> String { let mut o = String::new(); for c in s.chars() { match c { \'"\' => o.push_str("\\\\\\""), \'\\\\\' => o.push_str("\\\\\\\\"), c if (c as u32) < 0x20 => o.push_str(&format!("\\\\u{:04x}", c as u32)), c => o.push(c) } } o }\n')
    if 'Deserialize' in d.derives and d.family == 'string':
        out.append('pub struct NtBytes<\'a>(pub &\'a [u8]);\n'
                   'impl<\'de, \'a> serde::Deserializer<\'de> for NtBytes<\'a> {\n    type Error = serde::de::value::Error;\n'
                   '    fn deserialize_any<V: serde::de::Visitor<\'de>>(self, _v: V) -> Result<V::Value, Self::Error> { Err(<Self::Error as serde::de::Error>::custom("not a newtype struct")) }\n'
                   '    fn deserialize_newtype_struct<V: serde::de::Visitor<\'de>>(self, _name: &\'static str, v: V) -> Result<V::Value, Self::Error> { v.visit_newtype_struct(serde::de::value::BytesDeserializer::new(self.0)) }\n'
                   '    serde::forward_to_deserialize_any! { bool i8 i16 i32 i64 i128 u8 u16 u32 u64 u128 f32 f64 char str string bytes byte_buf option unit unit_struct seq tuple tuple_struct map struct enum identifier ignored_any }\n}\n')
    out.append('static mut PER_ENTRY: Option<std::collections::HashMap<String, usize>> = None;\n'
               'fn report(entry: &str, input: &str, setting: &str, real: String, expected: String, n: &mut usize) {\n'
               '    if real != expected { *n += 1; let c = unsafe { let m = PER_ENTRY.get_or_insert_with(Default::default); let e = m.entry(entry.to_string()).or_insert(0); *e += 1; *e }; if c <= 3 { println!("{{\\"entry\\":\\"{}\\",\\"input\\":\\"{}\\",\\"bounds\\":\\"{}\\",\\"real\\":\\"{}\\",\\"expected\\":\\"{}\\"}}", esc(entry), esc(input), esc(setting), esc(&real), esc(&expected)); } }\n}\n')
    # expected result as debug string
    if has_v:
        exp = '%s::show(&%s::try_new(x.clone()))' % (R, R)
        real_ctor = 'format!("{:?}", %s::try_new(x.clone()).map(|v| v.into_inner()))' % S
    else:
        exp = 'format!("{:?}", %s::sanitize(x.clone()))' % R
        real_ctor = 'format!("{:?}", %s::new(x.clone()).into_inner())' % S
    body = ['fn check_one(x: %s, label: &str, setting: &str, n: &mut usize) {\n' % I,
            '    let expected = %s;\n' % exp,
            '    report("%s", label, setting, %s, expected.clone(), n);\n' % ('try_new' if has_v else 'new', real_ctor)]
    if has_v and d.custom_validation is None:
        # C16 probe: the constructor's verdict and, for a rejection, the Display text of the error
        body.append('    match %s::try_new(x.clone()) { Ok(_) => println!("{{\\"probe\\":\\"{}\\",\\"setting\\":\\"{}\\",\\"verdict\\":\\"Ok\\",\\"message\\":\\"\\"}}", esc(label), esc(setting)), '
                    'Err(e) => println!("{{\\"probe\\":\\"{}\\",\\"setting\\":\\"{}\\",\\"verdict\\":\\"{:?}\\",\\"message\\":\\"{}\\"}}", esc(label), esc(setting), e, esc(&e.to_string())) }\n' % S)
    if 'TryFrom' in d.derives:
        if has_v:
            body.append('    report("TryFrom", label, setting, format!("{:?}", %s::try_from(x.clone()).map(|v| v.into_inner())), expected.clone(), n);\n' % S)
        else:
            body.append('    report("TryFrom", label, setting, format!("{:?}", %s::try_from(x.clone()).map(|v| v.into_inner()).unwrap()), expected.clone(), n);\n' % S)
        if d.family == 'string':
            body.append('    report("TryFrom<&str>", label, setting, format!("{:?}", %s::try_from(x.as_str()).map(|v| v.into_inner())%s), expected.clone(), n);\n' % (S, '' if has_v else '.unwrap()'))
    if 'From' in d.derives:
        body.append('    report("From", label, setting, format!("{:?}", %s::from(x.clone()).into_inner()), expected.clone(), n);\n' % S)
    if 'FromStr' in d.derives and d.family == 'string':
        if has_v:
            body.append('    report("FromStr", label, setting, format!("{:?}", %s::from_str(x.as_str()).map(|v| v.into_inner())), expected.clone(), n);\n' % S)
        else:
            body.append('    report("FromStr", label, setting, format!("{:?}", %s::from_str(x.as_str()).map(|v| v.into_inner()).unwrap()), expected.clone(), n);\n' % S)
    if has_v and d.custom_validation is None and d.family in ('int', 'float'):
        # C16 embedding: the FromStr / serde error text contains the validation error's Display text
        if 'FromStr' in d.derives:
            body.append('    if let Err(e) = %s::try_new(x.clone()) { if let Err(pe) = %s::from_str(&format!("{:?}", x)) { let (a, b) = (pe.to_string(), e.to_string()); if let Ok(_) = format!("{:?}", x).parse::<%s>() { report("Embedding", &format!("FromStr {}", label), setting, format!("contains={}", a.contains(&b)), "contains=true".to_string(), n); } } }\n' % (S, S, I))
        if 'Deserialize' in d.derives:
            body.append('    if let Err(e) = %s::try_new(x.clone()) { if let Ok(doc) = serde_json::to_string(&x) { if doc != "null" { if let Err(se) = serde_json::from_str::<%s>(&doc) { report("Embedding", &format!("serde_json {}", doc), setting, format!("contains={}", se.to_string().contains(&e.to_string())), "contains=true".to_string(), n); } } } }\n' % (S, S))
    if 'FromStr' in d.derives and d.family in ('int', 'float'):
        # non-string FromStr (C06): inner parse, then the constructor
        body.append('    for s in [format!("{:?}", x), format!("{}", x), format!(" {}", x), format!("{}\\n", x), format!("\\u{a0}{}", x), format!("+{}", x), String::new(), "abc".to_string(), "99999999999999999999999999999999999999999999".to_string(), "-0".to_string(), "NaN".to_string(), "inf".to_string(), "1e400".to_string()] {\n')
        body.append('        let expected_fs = match s.parse::<%s>() { Err(e) => format!("Err(Parse({:?}))", e), Ok(v) => %s };\n'
                    % (I, ('match %s::try_new(v) { Ok(i) => format!("Ok({:?})", i), Err(e) => format!("Err(Validate({}))", e) }' % R) if has_v
                       else 'format!("Ok({:?})", %s::sanitize(v))' % R))
        body.append('        report("FromStr", &format!("{:?}", s), setting, format!("{:?}", %s::from_str(&s).map(|v| v.into_inner())), expected_fs, n);\n' % S)
        body.append('    }\n')
    if 'Deserialize' in d.derives and d.family in ('int', 'float', 'string'):
        # C04: JSON documents carrying the candidate (and wrongly typed ones)
        body.append('    if let Ok(doc) = serde_json::to_string(&x) { if doc != "null" {\n')
        body.append('        let expected_de = %s;\n' % (('match %s::try_new(x.clone()) { Ok(i) => format!("Ok({:?})", i), Err(_) => "Err".to_string() }' % R) if has_v else 'format!("Ok({:?})", %s::sanitize(x.clone()))' % R))
        body.append('        for (tag, d2) in [("", doc.clone()), (" in Vec", format!("[{}]", doc)), (" in Option", doc.clone())] {\n')
        body.append('            let real_de = if tag == " in Vec" { match serde_json::from_str::<Vec<%s>>(&d2) { Ok(mut v) => format!("Ok({:?})", v.pop().unwrap().into_inner()), Err(_) => "Err".to_string() } } '
                    'else if tag == " in Option" { match serde_json::from_str::<Option<%s>>(&d2) { Ok(Some(v)) => format!("Ok({:?})", v.into_inner()), _ => "Err".to_string() } } '
                    'else { match serde_json::from_str::<%s>(&d2) { Ok(v) => format!("Ok({:?})", v.into_inner()), Err(_) => "Err".to_string() } };\n' % (S, S, S))
        body.append('            report("Deserialize", &format!("JSON {}{}", d2, tag), setting, real_de, expected_de.clone(), n);\n        }\n')
        # deserialize_in_place (public, safe; serde's Vec / Option impls forward to it) on an EXISTING valid value
        olds = {'string': '["a", "abc", " b ", "hello world"].map(|s| s.to_string())', 'int': '[0 as %s, 1 as %s, 7 as %s, 50 as %s, 100 as %s]' % ((I,) * 5),
                'float': '[0.0 as %s, 1.0 as %s, 7.5 as %s, 100.0 as %s]' % ((I,) * 4)}[d.family]
        body.append('        for o in %s {\n' % olds)
        body.append('            let made = %s;\n' % ('%s::try_new(o.clone()).ok()' % S if has_v else 'Some(%s::new(o.clone()))' % S))
        body.append('            if let Some(mut place) = made {\n'
                    '                let r = <%s as serde::Deserialize>::deserialize_in_place(&mut serde_json::Deserializer::from_str(&doc), &mut place);\n' % S +
                    '                let now = place.into_inner();\n'
                    '                let real_ip = format!("{} / existing value still valid: {}", match &r { Ok(()) => format!("Ok({:?})", now), Err(_) => "Err".to_string() }, %s::valid(&now));\n' % R +
                    '                report("DeserializeInPlace", &format!("deserialize_in_place of JSON {} into an existing {:?}", doc, o), setting, real_ip, format!("{} / existing value still valid: true", expected_de), n);\n'
                    '            }\n        }\n    } }\n')
        if d.family == 'string':
            # newtype-protocol documents that hand the text over as UTF-8 bytes
            # (also byte payloads that are NOT valid UTF-8: the inner String rejects them, so must the newtype)
            body.append('    for (bi, bytes) in [x.as_bytes().to_vec(), { let mut b = x.as_bytes().to_vec(); b.push(0xFF); b }, { let mut b = vec![0x61u8, 0xFF]; b.extend_from_slice(x.as_bytes()); b }, vec![0x61u8, 0xC3]].into_iter().enumerate() {\n'
                        '        let via_string: Result<String, serde::de::value::Error> = <String as serde::Deserialize>::deserialize(serde::de::value::BytesDeserializer::new(&bytes));\n'
                        '        let expected_b = match via_string { Ok(s0) => %s, Err(_) => "Err".to_string() };\n'
                        % (('match %s::try_new(s0) { Ok(i) => format!("Ok({:?})", i), Err(_) => "Err".to_string() }' % R) if has_v else 'format!("Ok({:?})", %s::sanitize(s0))' % R))
            body.append('        let real_b = match <%s as serde::Deserialize>::deserialize(NtBytes(&bytes)) { Ok(v) => format!("Ok({:?})", v.into_inner()), Err(_) => "Err".to_string() };\n' % S)
            body.append('        report("Deserialize", &(if bi == 0 { format!("newtype struct around the UTF-8 bytes of {}", label) } else { format!("newtype struct around the bytes {:?} (not valid UTF-8)", bytes) }), setting, real_b, expected_b, n);\n    }\n')
        if d.family in ('int', 'float'):
            # documents written by hand (not renderings of an inner value): wider than the inner type, more
            # precise than it, integers for floats - the newtype must do exactly what the inner type does
            docs = '["1e39", "-1e39", "3.4028235677973366e38", "1152921573326323713", "16777217", "0.1", "7", "-7", "18446744073709551616", "340282366920938463463374607431768211455", "1.5", "1e400"]'
            body.append('    if label.starts_with("0") || label.starts_with("(0)") { for doc in %s {\n' % docs)
            body.append('        let expected_h = match serde_json::from_str::<%s>(doc) { Ok(x0) => %s, Err(_) => "Err".to_string() };\n'
                        % (I, ('match %s::try_new(x0) { Ok(i) => format!("Ok({:?})", i), Err(_) => "Err".to_string() }' % R) if has_v else 'format!("Ok({:?})", %s::sanitize(x0))' % R))
            body.append('        let real_h = match serde_json::from_str::<%s>(doc) { Ok(v) => format!("Ok({:?})", v.into_inner()), Err(_) => "Err".to_string() };\n' % S)
            body.append('        report("Deserialize", &format!("hand-written JSON {}", doc), setting, real_h, expected_h, n);\n    } }\n')
        body.append('    for bad in ["null", "[]", "{}", "true"] { report("Deserialize", &format!("JSON {}", bad), setting, if serde_json::from_str::<%s>(bad).is_ok() { "Ok".to_string() } else { "Err".to_string() }, "Err".to_string(), n); }\n' % S)
    # views on the obtained value
    ctor = '%s::try_new(x.clone()).ok()' % S if has_v else 'Some(%s::new(x.clone()))' % S
    body.append('    if let Some(v) = %s {\n' % ctor)
    body.append('        let inner = format!("{:?}", %s::sanitize(x.clone()));\n' % R)
    copyish = d.family in ('int', 'float') or I == 'Point'
    if 'AsRef' in d.derives:
        tgt = 'str' if d.family == 'string' else I
        body.append('        { let r: &%s = v.as_ref(); report("AsRef", label, setting, format!("{:?}", r), inner.clone(), n); }\n' % tgt)
    if 'Deref' in d.derives:
        body.append('        { let r: &%s = &*v; report("Deref", label, setting, format!("{:?}", r), inner.clone(), n); }\n' % I)
    if 'Borrow' in d.derives:
        body.append('        { let r: &%s = v.borrow(); report("Borrow", label, setting, format!("{:?}", r), inner.clone(), n); }\n' % I)
        if d.family == 'string':
            body.append('        { let r: &str = v.borrow(); report("Borrow<str>", label, setting, format!("{:?}", r), inner.clone(), n); }\n')
    if 'Into' in d.derives and ('Clone' in d.derives or copyish and 'Copy' in d.derives):
        body.append('        { let r: %s = v.clone().into(); report("Into", label, setting, format!("{:?}", r), inner.clone(), n); }\n' % I)
    if 'Clone' in d.derives or (copyish and 'Copy' in d.derives) or True:
        # canonical form (C11): re-entering the constructor with the stored value reproduces it
        if has_v:
            body.append('        { let i2 = %s::try_new(x.clone()).ok().unwrap().into_inner(); report("canonical", label, setting, format!("{:?}", %s::try_new(i2.clone()).map(|w| w.into_inner())), format!("Ok({:?})", i2), n); }\n' % (S, S))
        else:
            body.append('        { let i2 = %s::new(x.clone()).into_inner(); report("canonical", label, setting, format!("{:?}", %s::new(i2.clone()).into_inner()), format!("{:?}", i2), n); }\n' % (S, S))
    if 'Serialize' in d.derives and d.family in ('int', 'float', 'string'):
        body.append('        { let a = serde_json::to_string(&v).map_err(|_| ()); let b = serde_json::to_string(&%s::sanitize(x.clone())).map_err(|_| ()); report("Serialize", label, setting, format!("{:?}", a), format!("{:?}", b), n);\n' % R)
        if 'Deserialize' in d.derives:
            body.append('          if let Ok(doc) = a { if doc != "null" { let back = serde_json::from_str::<%s>(&doc).map(|w| w.into_inner()).map_err(|_| ()); report("RoundTrip", &format!("{} as JSON {}", label, doc), setting, format!("{:?}", back), format!("Ok({})", inner), n); } } }\n' % S)
        else:
            body.append('        }\n')
    # canonical chains (C11) through the other derived entry points: re-entering with the stored value
    if d.family == 'string' and 'FromStr' in d.derives:
        body.append('        { let i2 = %s; let e = format!("Ok({:?})", i2); report("canonical", &format!("{} via FromStr", label), setting, format!("{:?}", %s::from_str(i2.as_str()).map(|w| w.into_inner())), e, n); }\n'
                    % (('%s::try_new(x.clone()).ok().unwrap().into_inner()' % S) if has_v else ('%s::new(x.clone()).into_inner()' % S), S))
    if 'TryFrom' in d.derives:
        body.append('        { let i2 = %s; let e = format!("Ok({:?})", i2); report("canonical", &format!("{} via TryFrom", label), setting, format!("{:?}", %s::try_from(i2.clone()).map(|w| w.into_inner())), e, n); }\n'
                    % (('%s::try_new(x.clone()).ok().unwrap().into_inner()' % S) if has_v else ('%s::new(x.clone()).into_inner()' % S), S))
    body.append('        report("into_inner", label, setting, format!("{:?}", v.into_inner()), inner.clone(), n);\n')
    body.append('    }\n}\n')
    out.extend(body)
    # main: settings x candidates
    main = ['fn main() {\n    let mut n = 0usize;\n']
    cands = _candidates(d, extra_inputs)
    if d.family in ('int', 'float'):
        t = d.inner
        T = t.upper()
        if d.family == 'int':
            settings = [('3', '100'), ('0', '0'), ('%s::MIN' % t, '%s::MAX' % t), ('100', '3'), ('1', '1'), ('%s::MAX' % t, '%s::MIN' % t), ('10', '11')]
            settings = [('(%s) as %s' % (a, t) if '::' not in a else a, '(%s) as %s' % (b, t) if '::' not in b else b) for a, b in settings]
        else:
            settings = [('3.0', '100.0'), ('(0.1 + 0.2)', '(1.1 * 3.0)'), ('0.0', '0.0'), ('-0.0', '0.0'), ('%s::NEG_INFINITY' % t, '%s::INFINITY' % t), ('100.0', '3.0'),
                        ('%s::NAN' % t, '1.0'), ('1.0', '%s::NAN' % t), ('%s::MIN' % t, '%s::MAX' % t), ('1e30', '1e31'), ('-1e-40', '1e-40')]
        main.append('    let settings: Vec<(%s, %s)> = vec![%s];\n' % (t, t, ', '.join('(%s, %s)' % s for s in settings)))
        main.append('    for (lo, hi) in settings {\n        unsafe { SYM_LO_%s = lo; SYM_HI_%s = hi; }\n        let setting = format!("lo={:?} hi={:?}", lo, hi);\n' % (T, T))
        main.append('        let cands: Vec<(%s, &str)> = vec![%s];\n' % (t, ', '.join('(%s, %s)' % (c, json.dumps(c)) for c in cands)))
        main.append('        for (x, label) in cands { check_one(x, &format!("{} = {:?}", label, x), &setting, &mut n); }\n    }\n')
    elif d.family == 'string':
        main.append('    let alphabet = [" ", "a", "A", "\\u{df}", "\\u{130}", "\\u{3a3}", "\\u{a0}", "-", "@", "\\u{1c6}", "\\t", "_", "7", "\\u{1c5}", "\\u{1f88}", "\\u{feff}", "\\u{2003}", "\\u{200b}"];\n')
        main.append('    let mut cands: Vec<String> = vec![String::new()];\n'
                    '    for a in alphabet { cands.push(a.to_string()); for b in alphabet { cands.push(format!("{a}{b}")); for c in alphabet { cands.push(format!("{a}{b}{c}")); } } }\n'
                    '    for n in [4usize, 5, 7, 8, 9, 19, 20, 21, 22] { cands.push("x".repeat(n)); cands.push("\\u{df}".repeat(n)); cands.push(format!(" {} ", "Q".repeat(n))); }\n'
                    # long inputs that the sanitizers SHORTEN (custom sanitizers of the catalogue drop `-` / `_`; trim drops the padding)
                    '    for n in [9usize, 13, 33, 40, 90] { cands.push("-".repeat(n)); cands.push("-a".repeat(n)); cands.push(format!("{}ab{}", " ".repeat(n), " ".repeat(n))); cands.push(format!("{}b", "_".repeat(n))); }\n')
        for e in extra_inputs:
            main.append('    cands.insert(0, %s.to_string());\n' % e)
        main.append('    for (lo, hi) in [(2usize, 8usize), (0, 0), (3, 3), (8, 2), (1, 20)] {\n        unsafe { SYM_LEN_LO = lo; SYM_LEN_HI = hi; }\n'
                    '        let setting = format!("len_lo={} len_hi={}", lo, hi);\n'
                    '        for x in cands.iter() { check_one(x.clone(), &format!("{:?}", x), &setting, &mut n); }\n    }\n')
    else:
        main.append('    let cands: Vec<(%s, &str)> = vec![%s];\n' % (I, ', '.join('(%s, %s)' % (c, json.dumps(c)) for c in cands)))
        main.append('    for (x, label) in cands { check_one(x, label, "", &mut n); }\n')
    if 'Arbitrary' in d.derives and d.family in ('int', 'float'):
        main.append(ARB_MAIN.replace('@S@', S).replace('@R@', R).replace('@I@', I).replace('@SETUP@', arb_settings(d)))
    if 'Arbitrary' in d.derives and d.family == 'int':
        main.append(ARB_SURJ_MAIN.replace('@S@', S).replace('@R@', R).replace('@I@', I).replace('@SETUP@', arb_settings(d)))
    if 'Arbitrary' in d.derives and d.family == 'string':
        main.append(ARB_STRING_MAIN.replace('@S@', S).replace('@R@', R))
    main.append('    println!("{{\\"mismatches\\":{}}}", n);\n}\n')
    out.extend(main)
    return ''.join(out)


def run_witness(d: Decl, extra_inputs=(), features=()):
    """Build and run the witness program against /repo's macro (hook off). Returns
    (list of mismatch dicts, log). A build failure returns (None, log)."""
    crate = os.path.join(WORK, 'witness', d.id)
    shutil.rmtree(crate, ignore_errors=True)
    os.makedirs(os.path.join(crate, 'src'))
    feats = sorted(set(features) | ({'new_unchecked'} if d.new_unchecked else set()) | ({'arbitrary'} if 'Arbitrary' in d.derives else set()) | ({'serde'} if 'Deserialize' in d.derives or 'Serialize' in d.derives else set()) | ({'regex'} if any(v.kind == 'regex' for v in d.validators) else set()))
    with open(os.path.join(crate, 'Cargo.toml'), 'w') as f:
        deps = ''
        if 'serde' in feats:
            deps += 'serde = { version = "1", default-features = false, features = ["std"] }\nserde_json = "1"\n'
        if 'arbitrary' in feats:
            deps += 'arbitrary = "1"\n'
        if 'regex' in feats:
            deps += 'regex = "1"\n'
        f.write('[package]\nname = "nutype_verif_witness_%s"\nversion = "0.0.0"\nedition = "2021"\n\n[workspace]\n\n'
                '[dependencies]\nnutype = { path = "%s/nutype", features = %s }\n%s' % (d.id.lower(), pipeline.REPO, json.dumps(feats), deps))
    shutil.copy(os.path.join(pipeline.REPO, 'Cargo.lock'), os.path.join(crate, 'Cargo.lock'))
    with open(os.path.join(crate, 'src', 'main.rs'), 'w') as f:
        f.write(witness_crate(d, extra_inputs))
    env = dict(ENV)
    # one binary per declaration (unique package name) and one target dir per work dir: concurrent
    # witness runs must never execute each other's binaries
    env['CARGO_TARGET_DIR'] = os.path.join(pipeline.WORK, 'target_witness')
    rc, out, err, _ = sh(['cargo', 'run', '--offline', '-q'], cwd=crate, env=env, timeout=900)
    if rc != 0:
        return None, err[-3000:]
    res = []
    probes = []
    for l in out.splitlines():
        try:
            j = json.loads(l)
        except ValueError:
            continue
        if 'entry' in j:
            res.append(j)
        elif 'probe' in j:
            probes.append(j)
    res.extend(c16_witnesses(d, probes))
    res.extend(c16_naming_witnesses(d, probes))
    return res, '\n'.join(l for l in out.splitlines() if '"probe"' not in l)[-2000:]


def c16_naming_witnesses(d, probes):
    """C16: every bound-violation message produced by the real code names the newtype and the declared
    bound (the bound's value under the setting in force)."""
    import re
    out = []
    seen = set()
    for p in probes:
        if p['verdict'] == 'Ok' or not p['message'] or (p['setting'], p['verdict']) in seen:
            continue
        seen.add((p['setting'], p['verdict']))
        var = p['verdict']
        v = next((v for v in d.validators if v.bound is not None and var.startswith({'greater': 'GreaterViolated', 'greater_or_equal': 'GreaterOrEqualViolated', 'less': 'LessViolated', 'less_or_equal': 'LessOrEqualViolated', 'len_char_min': 'LenCharMinViolated', 'len_char_max': 'LenCharMaxViolated'}.get(v.kind, '~'))), None)
        if v is None:
            continue
        msg = p['message']
        if d.name not in msg:
            out.append({'entry': 'MessageNaming', 'input': p['probe'], 'bounds': p['setting'], 'real': msg, 'expected': 'a message naming the type %s' % d.name})
            continue
        # expected bound value: literal, or the setting of the symbolic bound
        want = None
        if v.bound.symbolic:
            m = re.search(r'(?:len_)?%s=(\S+)' % ('lo' if ('lo' in v.bound.src) else 'hi'), p['setting'])
            want = m.group(1) if m else None
        elif v.bound.value is not None:
            want = str(v.bound.value)
        else:
            want = v.bound.src.replace('_', '')
        if want is None:
            continue
        nums = re.findall(r'-?\d+(?:\.\d+)?(?:e-?\d+)?|-?inf|NaN', msg.replace(d.name, ''))
        def same(a, b):
            try:
                return float(a) == float(b)
            except ValueError:
                return a == b
        if not any(same(x, want) for x in nums):
            out.append({'entry': 'MessageNaming', 'input': p['probe'], 'bounds': p['setting'], 'real': msg, 'expected': 'a message naming the declared bound %s' % want})
    return out[:3]


def c16_witnesses(d, probes):
    """C16: find a probed value for which what the real message states (phrase table, bound read
    from the message text) disagrees with the real constructor's verdict."""
    import re
    from .c16 import stated_relation
    if len([v for v in d.validators if v.kind != 'not_empty']) != 1 or d.family == 'any' or d.sanitizers:
        return []   # the message speaks about the sanitized value; only sanitizer-free single-bound declarations are probed
    msgs = {}
    for p in probes:
        if p['verdict'] != 'Ok' and p['message']:
            msgs[(p['setting'], p['verdict'])] = p['message']
    out = []
    for (setting, variant), msg in msgs.items():
        m = re.search(r'must be (?:greater than|greater or equal to|greater than or equal to|less than|less or equal to|less than or equal to|more than|at most|at least) (-?[0-9][0-9_.e+-]*|-?inf|NaN)', msg)
        rel = stated_relation(re.sub(r'(must be (?:[a-z ]+?)) (-?[0-9][0-9_.e+-]*|-?inf|NaN)', r'\1 {:#?}', msg))
        if not m or rel is None:
            continue
        try:
            bound = float(m.group(1).rstrip('.'))
        except ValueError:
            continue
        subj, r = rel
        for p in probes:
            if p['setting'] != setting:
                continue
            lab = p['probe']
            try:
                if d.family == 'string':
                    import ast
                    x = float(len(ast.literal_eval(lab)))
                else:
                    x = float(lab.split('=')[-1].strip())
            except (ValueError, SyntaxError):
                continue
            if x != x:
                continue
            stated = {'>': x > bound, '>=': x >= bound, '<': x < bound, '<=': x <= bound}[r]
            accepted = p['verdict'] == 'Ok'
            if stated != accepted and abs(x) < 2 ** 53:
                out.append({'entry': 'MessageTruth', 'input': lab, 'bounds': setting,
                            'real': 'constructor %s the value' % ('accepts' if accepted else 'rejects'),
                            'expected': 'message %r states the value is %s' % (msg, 'allowed' if stated else 'forbidden')})
                break
    return out[:3]
