#!/bin/sh
# Offline warm-up: nothing is fetched; builds the dependency graphs used by the checks once.
cd /verif
export CARGO_NET_OFFLINE=true
mkdir -p work evidence replay
python3 /verif/vf/main.py --setup
