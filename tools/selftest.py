#!/usr/bin/env python3
"""Self-test of the machinery: apply each stored seeded change (/verif/seeded/<id>/patch.diff) to a
scratch worktree of /repo HEAD (outside /repo and /verif, removed afterwards) and require the
check(s) of the property it breaks to exit 1 with a VIOLATION line; finally require the unchanged
tree to stay silent for the same checks.   usage: tools/selftest.py [id ...]"""
import json, os, subprocess, sys, glob
ids = sys.argv[1:] or sorted(os.path.basename(os.path.dirname(p)) for p in glob.glob('/verif/seeded/*/meta.json'))
env = dict(os.environ, VERIF_WORK='/verif/work_selftest', VERIF_TARGET='/verif/work_selftest/target', VERIF_EVIDENCE_DIR='/verif/work_selftest/evidence', VERIF_REPLAY_DIR='/verif/work_selftest/replay')
ok = True
for sid in ids:
    meta = json.load(open('/verif/seeded/%s/meta.json' % sid))
    wt = '/tmp/selftest_' + sid
    subprocess.run('git -C /repo worktree remove --force %s' % wt, shell=True, capture_output=True)
    subprocess.run('git -C /repo worktree add -q %s HEAD' % wt, shell=True, check=True)
    try:
        r = subprocess.run('git apply /verif/seeded/%s/patch.diff' % sid, shell=True, cwd=wt, capture_output=True, text=True)
        if r.returncode != 0:
            print(sid, 'PATCH DOES NOT APPLY', r.stderr[-200:]); ok = False; continue
        prop = meta['breaks_property']
        p = subprocess.run(['./check', prop], cwd='/verif', env=dict(env, VERIF_REPO=wt), capture_output=True, text=True)
        viol = [l for l in p.stdout.splitlines() if l.startswith('VIOLATION')]
        good = p.returncode == 1 and viol
        print(sid, prop, 'CAUGHT' if good else 'MISSED (exit %d)' % p.returncode, viol[0][:160] if viol else '')
        ok = ok and bool(good)
    finally:
        subprocess.run('git -C /repo worktree remove --force %s' % wt, shell=True, capture_output=True)
sys.exit(0 if ok else 1)
