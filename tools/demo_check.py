#!/usr/bin/env python3
"""Re-confirm a stored seeded change against /repo HEAD: patch applies, pinned suite green with it,
demo fails with it and passes without.  usage: tools/demo_check.py <seeded id> ..."""
import json, os, re, shutil, subprocess, sys
def sh(cmd, cwd=None, env=None):
    e = dict(os.environ, CARGO_NET_OFFLINE='true'); e.update(env or {})
    p = subprocess.run(cmd, shell=True, executable='/bin/bash', cwd=cwd, stdout=subprocess.PIPE, stderr=subprocess.STDOUT, text=True, env=e)
    return p.returncode, p.stdout
for sid in sys.argv[1:]:
    src = '/verif/seeded/' + sid
    wt, demo = '/tmp/dc_' + sid, '/tmp/dc_demo_' + sid
    sh('git -C /repo worktree remove --force ' + wt); shutil.rmtree(demo, ignore_errors=True)
    sh('git -C /repo worktree add -q %s HEAD' % wt)
    rc, o = sh('git apply %s/patch.diff' % src, cwd=wt)
    res = {'id': sid, 'applies': rc == 0}
    if rc == 0:
        rc, o = sh('cargo nextest run --workspace --no-fail-fast --tool-config-file pb:/w/lib/nextest.toml --profile pb --test-threads 8 --offline 2>&1 | tail -3', cwd=wt, env={'CARGO_TARGET_DIR': '/tmp/sv_target'})
        res['suite'] = o.strip().splitlines()[-1] if o.strip() else ''
        shutil.copytree(src + '/demo', demo)
        def set_path(p):
            for root, _, files in os.walk(demo):
                for f in files:
                    if f == 'Cargo.toml':
                        t = open(os.path.join(root, f)).read()
                        t = re.sub(r'/tmp/seed[0-9]*_[A-Za-z0-9]+/nutype|/tmp/sv_\w+/nutype|/tmp/dc_\w+/nutype|/repo/nutype', p + '/nutype', t)
                        open(os.path.join(root, f), 'w').write(t)
            shutil.copy('/repo/Cargo.lock', os.path.join(demo, 'Cargo.lock'))
        is_test = os.path.isdir(demo + '/tests') or not os.path.exists(demo + '/src/main.rs')   # (a README that merely mentions tests does not make it a test demo)
        cmd = ('cargo test --offline' if is_test else 'cargo run --offline') + ' 2>&1 | tail -5; exit ${PIPESTATUS[0]}'
        set_path(wt); res['demo_with'] = sh(cmd, cwd=demo, env={'CARGO_TARGET_DIR': demo + '_t'})[0]
        set_path('/repo'); res['demo_without'] = sh(cmd, cwd=demo, env={'CARGO_TARGET_DIR': demo + '_t'})[0]
    print(json.dumps(res))
    sh('git -C /repo worktree remove --force ' + wt); shutil.rmtree(demo, ignore_errors=True); shutil.rmtree(demo + '_t', ignore_errors=True)
