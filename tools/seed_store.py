#!/usr/bin/env python3
"""Copy confirmed seeded changes into /verif/seeded/<id>/ and write INDEX.md."""
import json, os, shutil, glob, re, sys
ROUNDS = [('/tmp/seedout', ''), ('/tmp/seedout2', 'r2')]
rows = []
for resf in sorted(glob.glob('/verif/work/seedres/*.json')):
    r = json.load(open(resf))
    sid = r['id']                      # e.g. C01_A or r2C01_A
    m = re.match(r'(r[2349])?(\w+?)_([AB])$', sid)
    rnd, key, x = m.group(1) or '', m.group(2), m.group(3)
    prop = r.get('property', key)
    src = {'': '/tmp/seedout', 'r2': '/tmp/seedout2', 'r3': '/tmp/seedout3', 'r4': '/tmp/seedout4', 'r9': '/tmp/seedout9'}[rnd] + '/%s/%s' % (key, x)
    ok = r.get('applies') and '211 passed' in r.get('baseline_with_change', '') and r.get('demo_with_change', {}).get('exit') not in (0, None) and r.get('demo_without_change', {}).get('exit') == 0
    caught = {c: v['exit'] == 1 and v['violation_lines'] > 0 for c, v in r.get('checks', {}).items()}
    dst = '/verif/seeded/%s' % sid
    readme = open(src + '/README.md').read() if os.path.exists(src + '/README.md') else (open(dst + '/README.agent.md').read() if os.path.exists(dst + '/README.agent.md') else '')
    tl = [l.strip('# ').strip() for l in readme.splitlines() if l.strip()]
    title = (tl[0] if tl else '')
    if title.startswith('PROPERTY:') and len(tl) > 1:
        title = title + ' — ' + tl[1]
    if ok and (not os.path.exists(dst + '/meta.json') or sid in sys.argv[1:]):   # never overwrite a stored (possibly ported) seed unless named
        shutil.rmtree(dst, ignore_errors=True)
        os.makedirs(dst)
        shutil.copy(src + '/patch.diff', dst + '/patch.diff')
        if os.path.exists(src + '/patch_original.diff'):
            shutil.copy(src + '/patch_original.diff', dst + '/patch_original_before_fix_commits.diff')
        shutil.copytree(src + '/demo', dst + '/demo', ignore=shutil.ignore_patterns('target', 'Cargo.lock'))
        open(dst + '/README.agent.md', 'w').write(readme)
        meta = {'id': sid, 'breaks_property': prop, 'source': 'independent sub-agent given only the property text and its own scratch worktree',
                'needs_to_manifest': title, 'confirmed': {'patch_applies_to_repo_head': True, 'existing_tests_with_change': r['baseline_with_change'].strip(),
                'demo_with_change_exit': r['demo_with_change']['exit'], 'demo_without_change_exit': r['demo_without_change']['exit']},
                'what_i_ran': 'work/seed_eval.py: scratch worktree of /repo HEAD, git apply patch.diff, cargo nextest (pinned command), demo with path = worktree / = /repo, then `VERIF_REPO=<worktree> ./check <ID>`',
                'checks': r['checks']}
        json.dump(meta, open(dst + '/meta.json', 'w'), indent=1)
    rows.append((sid, prop, ok, caught, title, r))
with open('/verif/seeded/INDEX.md', 'w') as f:
    f.write('# Seeded changes (from independent sub-agents) and which check catches them\n\n'
            'Each change compiles, keeps the 211 pinned tests green and comes with a demonstration that fails with the change and passes without it (all re-confirmed here; see meta.json).\n'
            '"caught" = the check exits 1 with a VIOLATION line on the changed tree (run via `VERIF_REPO=<worktree> ./check <ID>`).\n\n'
            '| id | property | confirmed | caught by | first violation line | what it is |\n|---|---|---|---|---|---|\n')
    for sid, prop, ok, caught, title, r in rows:
        first = ''
        for c, v in r.get('checks', {}).items():
            for l in v.get('first', []):
                if l.startswith('VIOLATION'):
                    first = re.sub(r'replay=\S+ ', '', l)[:110]
                    break
            if first:
                break
        f.write('| %s | %s | %s | %s | %s | %s |\n' % (sid, prop, 'yes' if ok else ('no: ' + ('patch does not apply' if not r.get('applies') else 'demo/test condition not met')),
                ', '.join('%s:%s' % (c, 'CAUGHT' if y else 'missed') for c, y in caught.items()) or '-', first.replace('|', '/'), title[:170].replace('|', '/')))
print(open('/verif/seeded/INDEX.md').read())
