#!/usr/bin/env python3
"""Validate a seeded change and run the checks against it. usage: seed_eval.py ID X check1,check2"""
import json, os, re, shutil, subprocess, sys, time
WORK_SEED = '/verif/work_seed' + os.environ.get('SEED_LANE', '')
ID, X, checks = sys.argv[1], sys.argv[2], sys.argv[3].split(',')
BASE = sys.argv[4] if len(sys.argv) > 4 else '/tmp/seedout'
PFX = sys.argv[5] if len(sys.argv) > 5 else ''
src = '%s/%s/%s' % (BASE, ID, X)
wt = '/tmp/sv_%s%s%s' % (PFX, ID, X)
res = {'id': '%s%s_%s' % (PFX, ID, X), 'property': os.environ.get('SEED_PROP', ID), 'checks': {}}
def sh(cmd, cwd=None, timeout=3600, env=None):
    e = dict(os.environ); e['CARGO_NET_OFFLINE'] = 'true'
    if env: e.update(env)
    p = subprocess.run(cmd, shell=True, executable='/bin/bash', cwd=cwd, stdout=subprocess.PIPE, stderr=subprocess.STDOUT, text=True, timeout=timeout, env=e)
    return p.returncode, p.stdout
sh('git -C /repo worktree remove --force %s' % wt)
rc, o = sh('git -C /repo worktree add -q %s HEAD' % wt)
rc, o = sh('git apply %s/patch.diff' % src, cwd=wt)
if rc != 0:
    rc, o = sh('git apply --3way %s/patch.diff' % src, cwd=wt)
res['applies'] = rc == 0
if rc != 0:
    res['apply_error'] = o[-800:]
    print(json.dumps(res, indent=1)); sys.exit(0)
# 1. existing tests with the change
T = {'CARGO_TARGET_DIR': '/tmp/sv_target' + os.environ.get('SEED_LANE', '')}
rc, o = sh('cargo nextest run --workspace --no-fail-fast --tool-config-file pb:/w/lib/nextest.toml --profile pb --test-threads 8 --offline 2>&1 | tail -3', cwd=wt, env=T)
res['baseline_with_change'] = o.strip().splitlines()[-1] if o.strip() else ''
# 2. demo: fails with, passes without
demo = '/tmp/sv_demo_%s%s%s' % (PFX, ID, X)
shutil.rmtree(demo, ignore_errors=True); shutil.copytree(src + '/demo', demo)
def set_path(p):
    for root, _, files in os.walk(demo):
        for f in files:
            if f == 'Cargo.toml':
                t = open(os.path.join(root, f)).read()
                t = re.sub(r'/tmp/seed[0-9]*_[A-Za-z0-9]+/nutype|/tmp/sv_\w+/nutype|/repo/nutype', p + '/nutype', t)
                open(os.path.join(root, f), 'w').write(t)
    lock = os.path.join(demo, 'Cargo.lock')
    if os.path.exists(lock): os.remove(lock)
    shutil.copy('/repo/Cargo.lock', lock)
is_test = os.path.isdir(demo + '/tests') or not os.path.exists(demo + '/src/main.rs')   # (a README that merely mentions tests does not make it a test demo)
cmd = 'cargo test --offline 2>&1 | tail -15' if is_test else 'cargo run --offline 2>&1 | tail -15'
set_path(wt)
rc1, o1 = sh(cmd + '; exit ${PIPESTATUS[0]}', cwd=demo, env={'CARGO_TARGET_DIR': demo + '_target'})
set_path('/repo')
rc2, o2 = sh(cmd + '; exit ${PIPESTATUS[0]}', cwd=demo, env={'CARGO_TARGET_DIR': demo + '_target'})
res['demo_with_change'] = {'exit': rc1, 'tail': o1[-400:]}
res['demo_without_change'] = {'exit': rc2, 'tail': o2[-300:]}
# 3. checks
for c in checks:
    t0 = time.time()
    HOME_ = os.environ.get('SEED_VERIF_HOME', '/verif')
    rc, o = sh('python3 %s/vf/main.py %s' % (HOME_, c), cwd=HOME_, env={'VERIF_HOME': HOME_, 'VERIF_REPO': wt, 'VERIF_WORK': WORK_SEED + '', 'VERIF_TARGET': WORK_SEED + '/target', 'VERIF_EVIDENCE_DIR': WORK_SEED + '/evidence', 'VERIF_REPLAY_DIR': WORK_SEED + '/replay'})
    lines = [l for l in o.splitlines() if l.startswith('VIOLATION') or l.startswith('KNOWN') or l.startswith(c + ':')]
    res['checks'][c] = {'exit': rc, 'violation_lines': len([l for l in lines if l.startswith('VIOLATION')]), 'first': [l[:260] for l in lines[:3]], 'summary': lines[-1] if lines else o[-300:], 'wall_s': round(time.time() - t0)}
shutil.rmtree(demo, ignore_errors=True); shutil.rmtree(demo + '_target', ignore_errors=True)
shutil.rmtree(WORK_SEED + '', ignore_errors=True)
sh('git -C /repo worktree remove --force %s' % wt)
print(json.dumps(res, indent=1))
os.makedirs('/verif/work/seedres', exist_ok=True)
json.dump(res, open('/verif/work/seedres/%s%s_%s.json' % (PFX, ID, X), 'w'), indent=1)
