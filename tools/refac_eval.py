#!/usr/bin/env python3
"""Specificity test: apply a behaviour-preserving refactoring (patch) to a scratch worktree and run
checks; any VIOLATION is a false alarm (exit 2 = undecided is acceptable).
usage: tools/refac_eval.py <patch.diff> <tag> [checks,comma,separated]"""
import json, os, subprocess, sys
patch, tag = sys.argv[1], sys.argv[2]
checks = (sys.argv[3].split(',') if len(sys.argv) > 3 else 'C01,C02,C03,C04,C05,C06,C07,C09,C10,C11,C12,C13,C14,C16'.split(','))
wt = '/tmp/refacwt_' + tag
W = '/verif/work_refac_' + tag
env = dict(os.environ, VERIF_WORK=W, VERIF_TARGET=W + '/target', VERIF_EVIDENCE_DIR=W + '/evidence', VERIF_REPLAY_DIR=W + '/replay', VERIF_REPO=wt)
subprocess.run('git -C /repo worktree remove --force %s' % wt, shell=True, capture_output=True)
subprocess.run('git -C /repo worktree add -q %s HEAD' % wt, shell=True, check=True)
res = {'tag': tag, 'patch': patch, 'checks': {}}
try:
    r = subprocess.run('git apply %s || git apply --3way %s' % (patch, patch), shell=True, cwd=wt, capture_output=True, text=True)
    if r.returncode != 0:
        res['applies'] = False
    else:
        res['applies'] = True
        for c in checks:
            p = subprocess.run(['./check', c], cwd='/verif', env=env, capture_output=True, text=True)
            lines = p.stdout.splitlines()
            res['checks'][c] = {'exit': p.returncode, 'violations': [l[:300] for l in lines if l.startswith('VIOLATION')][:5],
                                'undecided': [l[:300] for l in lines if l.startswith('UNDECIDED')][:3], 'summary': lines[-1] if lines else ''}
finally:
    subprocess.run('git -C /repo worktree remove --force %s' % wt, shell=True, capture_output=True)
    subprocess.run('rm -rf %s' % W, shell=True)
os.makedirs('/verif/work/refacres', exist_ok=True)
json.dump(res, open('/verif/work/refacres/%s.json' % tag, 'w'), indent=1)
print(json.dumps({c: (v['exit'], len(v['violations'])) for c, v in res['checks'].items()}))
