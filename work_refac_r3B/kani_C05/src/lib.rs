#![allow(dead_code, unused_imports, unused_variables, unused_mut, static_mut_refs, non_snake_case, non_upper_case_globals, unused_unsafe, overflowing_literals, clippy::all)]
use nutype::nutype;
pub static mut SYM_LO_I32: i32 = 3;
pub fn sym_lo_i32() -> i32 { unsafe { SYM_LO_I32 } }
pub static mut SYM_HI_I32: i32 = 100;
pub fn sym_hi_i32() -> i32 { unsafe { SYM_HI_I32 } }
pub const fn san_i32(x: i32) -> i32 { if x > 50 { 50 } else { x } }
pub fn san3_i32(x: i32) -> i32 { x / (2 as i32) + (10 as i32) }
pub static mut SYM_LO_U8: u8 = 3;
pub fn sym_lo_u8() -> u8 { unsafe { SYM_LO_U8 } }
pub static mut SYM_HI_U8: u8 = 100;
pub fn sym_hi_u8() -> u8 { unsafe { SYM_HI_U8 } }
pub const fn san_u8(x: u8) -> u8 { if x > 50 { 50 } else { x } }
pub fn san3_u8(x: u8) -> u8 { x / (2 as u8) + (10 as u8) }
pub static mut SYM_LO_I64: i64 = 3;
pub fn sym_lo_i64() -> i64 { unsafe { SYM_LO_I64 } }
pub static mut SYM_HI_I64: i64 = 100;
pub fn sym_hi_i64() -> i64 { unsafe { SYM_HI_I64 } }
pub const fn san_i64(x: i64) -> i64 { if x > 50 { 50 } else { x } }
pub fn san3_i64(x: i64) -> i64 { x / (2 as i64) + (10 as i64) }
pub static mut SYM_LO_F32: f32 = 3.0;
pub fn sym_lo_f32() -> f32 { unsafe { SYM_LO_F32 } }
pub static mut SYM_HI_F32: f32 = 100.0;
pub fn sym_hi_f32() -> f32 { unsafe { SYM_HI_F32 } }
pub const fn san_f32(x: f32) -> f32 { if x < 0.0 { -x } else { x } }
pub fn san3_f32(x: f32) -> f32 { x / (2 as f32) + (10 as f32) }
pub static mut SYM_LO_F64: f64 = 3.0;
pub fn sym_lo_f64() -> f64 { unsafe { SYM_LO_F64 } }
pub static mut SYM_HI_F64: f64 = 100.0;
pub fn sym_hi_f64() -> f64 { unsafe { SYM_HI_F64 } }
pub const fn san_f64(x: f64) -> f64 { if x < 0.0 { -x } else { x } }
pub fn san3_f64(x: f64) -> f64 { x / (2 as f64) + (10 as f64) }
pub const fn san_i128(x: i128) -> i128 { if x > 50 { 50 } else { x } }
pub static mut SYM_LO_I128: i128 = 3;
pub fn sym_lo_i128() -> i128 { unsafe { SYM_LO_I128 } }
pub static mut SYM_HI_I128: i128 = 100;
pub fn sym_hi_i128() -> i128 { unsafe { SYM_HI_I128 } }

pub mod d_grd_i32_val {
    use super::*;
    #[nutype(validate(greater_or_equal = sym_lo_i32(), less = sym_hi_i32()), derive(Debug, TryFrom, FromStr, Serialize, Deserialize, Arbitrary))]
    pub struct GrdI32Val(i32);
}
pub use d_grd_i32_val::*;
pub mod ref_grd_i32_val {
    #![allow(unused_imports, unused_variables, clippy::all)]
    use super::*;
    use super::d_grd_i32_val::*;
    pub type Inner = i32;
    pub fn sanitize(x: Inner) -> Inner { x }
    pub type Error = GrdI32ValError;
    pub fn validate(x: &Inner) -> Result<(), Error> { let v = *x; if !(v >= (sym_lo_i32())) { return Err(GrdI32ValError::GreaterOrEqualViolated); } if !(v < (sym_hi_i32())) { return Err(GrdI32ValError::LessViolated); } Ok(()) }
    pub fn try_new(raw: Inner) -> Result<Inner, Error> { let s = sanitize(raw); validate(&s)?; Ok(s) }
    pub fn valid(x: &Inner) -> bool { validate(x).is_ok() }
}
pub mod d_grd_i32_san_val {
    use super::*;
    #[nutype(sanitize(with = san_i32), validate(greater_or_equal = sym_lo_i32(), less = sym_hi_i32()), derive(Debug, TryFrom, FromStr, Serialize, Deserialize))]
    pub struct GrdI32SanVal(i32);
}
pub use d_grd_i32_san_val::*;
pub mod ref_grd_i32_san_val {
    #![allow(unused_imports, unused_variables, clippy::all)]
    use super::*;
    use super::d_grd_i32_san_val::*;
    pub type Inner = i32;
    pub fn sanitize(x: Inner) -> Inner { san_i32(x) }
    pub type Error = GrdI32SanValError;
    pub fn validate(x: &Inner) -> Result<(), Error> { let v = *x; if !(v >= (sym_lo_i32())) { return Err(GrdI32SanValError::GreaterOrEqualViolated); } if !(v < (sym_hi_i32())) { return Err(GrdI32SanValError::LessViolated); } Ok(()) }
    pub fn try_new(raw: Inner) -> Result<Inner, Error> { let s = sanitize(raw); validate(&s)?; Ok(s) }
    pub fn valid(x: &Inner) -> bool { validate(x).is_ok() }
}
pub mod d_grd_i32_san_nov {
    use super::*;
    #[nutype(sanitize(with = san_i32), derive(Debug, TryFrom, FromStr, Serialize, Deserialize))]
    pub struct GrdI32SanNov(i32);
}
pub use d_grd_i32_san_nov::*;
pub mod ref_grd_i32_san_nov {
    #![allow(unused_imports, unused_variables, clippy::all)]
    use super::*;
    use super::d_grd_i32_san_nov::*;
    pub type Inner = i32;
    pub fn sanitize(x: Inner) -> Inner { san_i32(x) }
    pub fn valid(x: &Inner) -> bool { true }
}
pub mod d_grd_i32_san3_val {
    use super::*;
    #[nutype(sanitize(with = san3_i32), validate(greater_or_equal = sym_lo_i32(), less = sym_hi_i32()), derive(Debug, TryFrom, FromStr, Serialize, Deserialize))]
    pub struct GrdI32San3Val(i32);
}
pub use d_grd_i32_san3_val::*;
pub mod ref_grd_i32_san3_val {
    #![allow(unused_imports, unused_variables, clippy::all)]
    use super::*;
    use super::d_grd_i32_san3_val::*;
    pub type Inner = i32;
    pub fn sanitize(x: Inner) -> Inner { san3_i32(x) }
    pub type Error = GrdI32San3ValError;
    pub fn validate(x: &Inner) -> Result<(), Error> { let v = *x; if !(v >= (sym_lo_i32())) { return Err(GrdI32San3ValError::GreaterOrEqualViolated); } if !(v < (sym_hi_i32())) { return Err(GrdI32San3ValError::LessViolated); } Ok(()) }
    pub fn try_new(raw: Inner) -> Result<Inner, Error> { let s = sanitize(raw); validate(&s)?; Ok(s) }
    pub fn valid(x: &Inner) -> bool { validate(x).is_ok() }
}
pub mod d_grd_u8_val {
    use super::*;
    #[nutype(validate(greater_or_equal = sym_lo_u8(), less = sym_hi_u8()), derive(Debug, TryFrom, FromStr, Serialize, Deserialize, Arbitrary))]
    pub struct GrdU8Val(u8);
}
pub use d_grd_u8_val::*;
pub mod ref_grd_u8_val {
    #![allow(unused_imports, unused_variables, clippy::all)]
    use super::*;
    use super::d_grd_u8_val::*;
    pub type Inner = u8;
    pub fn sanitize(x: Inner) -> Inner { x }
    pub type Error = GrdU8ValError;
    pub fn validate(x: &Inner) -> Result<(), Error> { let v = *x; if !(v >= (sym_lo_u8())) { return Err(GrdU8ValError::GreaterOrEqualViolated); } if !(v < (sym_hi_u8())) { return Err(GrdU8ValError::LessViolated); } Ok(()) }
    pub fn try_new(raw: Inner) -> Result<Inner, Error> { let s = sanitize(raw); validate(&s)?; Ok(s) }
    pub fn valid(x: &Inner) -> bool { validate(x).is_ok() }
}
pub mod d_grd_u8_san_val {
    use super::*;
    #[nutype(sanitize(with = san_u8), validate(greater_or_equal = sym_lo_u8(), less = sym_hi_u8()), derive(Debug, TryFrom, FromStr, Serialize, Deserialize))]
    pub struct GrdU8SanVal(u8);
}
pub use d_grd_u8_san_val::*;
pub mod ref_grd_u8_san_val {
    #![allow(unused_imports, unused_variables, clippy::all)]
    use super::*;
    use super::d_grd_u8_san_val::*;
    pub type Inner = u8;
    pub fn sanitize(x: Inner) -> Inner { san_u8(x) }
    pub type Error = GrdU8SanValError;
    pub fn validate(x: &Inner) -> Result<(), Error> { let v = *x; if !(v >= (sym_lo_u8())) { return Err(GrdU8SanValError::GreaterOrEqualViolated); } if !(v < (sym_hi_u8())) { return Err(GrdU8SanValError::LessViolated); } Ok(()) }
    pub fn try_new(raw: Inner) -> Result<Inner, Error> { let s = sanitize(raw); validate(&s)?; Ok(s) }
    pub fn valid(x: &Inner) -> bool { validate(x).is_ok() }
}
pub mod d_grd_u8_san_nov {
    use super::*;
    #[nutype(sanitize(with = san_u8), derive(Debug, TryFrom, FromStr, Serialize, Deserialize))]
    pub struct GrdU8SanNov(u8);
}
pub use d_grd_u8_san_nov::*;
pub mod ref_grd_u8_san_nov {
    #![allow(unused_imports, unused_variables, clippy::all)]
    use super::*;
    use super::d_grd_u8_san_nov::*;
    pub type Inner = u8;
    pub fn sanitize(x: Inner) -> Inner { san_u8(x) }
    pub fn valid(x: &Inner) -> bool { true }
}
pub mod d_grd_u8_san3_val {
    use super::*;
    #[nutype(sanitize(with = san3_u8), validate(greater_or_equal = sym_lo_u8(), less = sym_hi_u8()), derive(Debug, TryFrom, FromStr, Serialize, Deserialize))]
    pub struct GrdU8San3Val(u8);
}
pub use d_grd_u8_san3_val::*;
pub mod ref_grd_u8_san3_val {
    #![allow(unused_imports, unused_variables, clippy::all)]
    use super::*;
    use super::d_grd_u8_san3_val::*;
    pub type Inner = u8;
    pub fn sanitize(x: Inner) -> Inner { san3_u8(x) }
    pub type Error = GrdU8San3ValError;
    pub fn validate(x: &Inner) -> Result<(), Error> { let v = *x; if !(v >= (sym_lo_u8())) { return Err(GrdU8San3ValError::GreaterOrEqualViolated); } if !(v < (sym_hi_u8())) { return Err(GrdU8San3ValError::LessViolated); } Ok(()) }
    pub fn try_new(raw: Inner) -> Result<Inner, Error> { let s = sanitize(raw); validate(&s)?; Ok(s) }
    pub fn valid(x: &Inner) -> bool { validate(x).is_ok() }
}
pub mod d_grd_i64_val {
    use super::*;
    #[nutype(validate(greater_or_equal = sym_lo_i64(), less = sym_hi_i64()), derive(Debug, TryFrom, FromStr, Serialize, Deserialize, Arbitrary))]
    pub struct GrdI64Val(i64);
}
pub use d_grd_i64_val::*;
pub mod ref_grd_i64_val {
    #![allow(unused_imports, unused_variables, clippy::all)]
    use super::*;
    use super::d_grd_i64_val::*;
    pub type Inner = i64;
    pub fn sanitize(x: Inner) -> Inner { x }
    pub type Error = GrdI64ValError;
    pub fn validate(x: &Inner) -> Result<(), Error> { let v = *x; if !(v >= (sym_lo_i64())) { return Err(GrdI64ValError::GreaterOrEqualViolated); } if !(v < (sym_hi_i64())) { return Err(GrdI64ValError::LessViolated); } Ok(()) }
    pub fn try_new(raw: Inner) -> Result<Inner, Error> { let s = sanitize(raw); validate(&s)?; Ok(s) }
    pub fn valid(x: &Inner) -> bool { validate(x).is_ok() }
}
pub mod d_grd_i64_san_val {
    use super::*;
    #[nutype(sanitize(with = san_i64), validate(greater_or_equal = sym_lo_i64(), less = sym_hi_i64()), derive(Debug, TryFrom, FromStr, Serialize, Deserialize))]
    pub struct GrdI64SanVal(i64);
}
pub use d_grd_i64_san_val::*;
pub mod ref_grd_i64_san_val {
    #![allow(unused_imports, unused_variables, clippy::all)]
    use super::*;
    use super::d_grd_i64_san_val::*;
    pub type Inner = i64;
    pub fn sanitize(x: Inner) -> Inner { san_i64(x) }
    pub type Error = GrdI64SanValError;
    pub fn validate(x: &Inner) -> Result<(), Error> { let v = *x; if !(v >= (sym_lo_i64())) { return Err(GrdI64SanValError::GreaterOrEqualViolated); } if !(v < (sym_hi_i64())) { return Err(GrdI64SanValError::LessViolated); } Ok(()) }
    pub fn try_new(raw: Inner) -> Result<Inner, Error> { let s = sanitize(raw); validate(&s)?; Ok(s) }
    pub fn valid(x: &Inner) -> bool { validate(x).is_ok() }
}
pub mod d_grd_i64_san_nov {
    use super::*;
    #[nutype(sanitize(with = san_i64), derive(Debug, TryFrom, FromStr, Serialize, Deserialize))]
    pub struct GrdI64SanNov(i64);
}
pub use d_grd_i64_san_nov::*;
pub mod ref_grd_i64_san_nov {
    #![allow(unused_imports, unused_variables, clippy::all)]
    use super::*;
    use super::d_grd_i64_san_nov::*;
    pub type Inner = i64;
    pub fn sanitize(x: Inner) -> Inner { san_i64(x) }
    pub fn valid(x: &Inner) -> bool { true }
}
pub mod d_grd_i64_san3_val {
    use super::*;
    #[nutype(sanitize(with = san3_i64), validate(greater_or_equal = sym_lo_i64(), less = sym_hi_i64()), derive(Debug, TryFrom, FromStr, Serialize, Deserialize))]
    pub struct GrdI64San3Val(i64);
}
pub use d_grd_i64_san3_val::*;
pub mod ref_grd_i64_san3_val {
    #![allow(unused_imports, unused_variables, clippy::all)]
    use super::*;
    use super::d_grd_i64_san3_val::*;
    pub type Inner = i64;
    pub fn sanitize(x: Inner) -> Inner { san3_i64(x) }
    pub type Error = GrdI64San3ValError;
    pub fn validate(x: &Inner) -> Result<(), Error> { let v = *x; if !(v >= (sym_lo_i64())) { return Err(GrdI64San3ValError::GreaterOrEqualViolated); } if !(v < (sym_hi_i64())) { return Err(GrdI64San3ValError::LessViolated); } Ok(()) }
    pub fn try_new(raw: Inner) -> Result<Inner, Error> { let s = sanitize(raw); validate(&s)?; Ok(s) }
    pub fn valid(x: &Inner) -> bool { validate(x).is_ok() }
}
pub mod d_grd_f32_val {
    use super::*;
    #[nutype(validate(finite, greater_or_equal = sym_lo_f32(), less = sym_hi_f32()), derive(Debug, TryFrom, FromStr, Serialize, Deserialize, Arbitrary))]
    pub struct GrdF32Val(f32);
}
pub use d_grd_f32_val::*;
pub mod ref_grd_f32_val {
    #![allow(unused_imports, unused_variables, clippy::all)]
    use super::*;
    use super::d_grd_f32_val::*;
    pub type Inner = f32;
    pub fn sanitize(x: Inner) -> Inner { x }
    pub type Error = GrdF32ValError;
    pub fn validate(x: &Inner) -> Result<(), Error> { let v = *x; if !v.is_finite() { return Err(GrdF32ValError::FiniteViolated); } if !!(v < (sym_lo_f32())) { return Err(GrdF32ValError::GreaterOrEqualViolated); } if !!(v >= (sym_hi_f32())) { return Err(GrdF32ValError::LessViolated); } Ok(()) }
    pub fn try_new(raw: Inner) -> Result<Inner, Error> { let s = sanitize(raw); validate(&s)?; Ok(s) }
    pub fn valid(x: &Inner) -> bool { validate(x).is_ok() }
}
pub mod d_grd_f32_san_val {
    use super::*;
    #[nutype(sanitize(with = san_f32), validate(finite, greater_or_equal = sym_lo_f32(), less = sym_hi_f32()), derive(Debug, TryFrom, FromStr, Serialize, Deserialize))]
    pub struct GrdF32SanVal(f32);
}
pub use d_grd_f32_san_val::*;
pub mod ref_grd_f32_san_val {
    #![allow(unused_imports, unused_variables, clippy::all)]
    use super::*;
    use super::d_grd_f32_san_val::*;
    pub type Inner = f32;
    pub fn sanitize(x: Inner) -> Inner { san_f32(x) }
    pub type Error = GrdF32SanValError;
    pub fn validate(x: &Inner) -> Result<(), Error> { let v = *x; if !v.is_finite() { return Err(GrdF32SanValError::FiniteViolated); } if !!(v < (sym_lo_f32())) { return Err(GrdF32SanValError::GreaterOrEqualViolated); } if !!(v >= (sym_hi_f32())) { return Err(GrdF32SanValError::LessViolated); } Ok(()) }
    pub fn try_new(raw: Inner) -> Result<Inner, Error> { let s = sanitize(raw); validate(&s)?; Ok(s) }
    pub fn valid(x: &Inner) -> bool { validate(x).is_ok() }
}
pub mod d_grd_f32_san_nov {
    use super::*;
    #[nutype(sanitize(with = san_f32), derive(Debug, TryFrom, FromStr, Serialize, Deserialize))]
    pub struct GrdF32SanNov(f32);
}
pub use d_grd_f32_san_nov::*;
pub mod ref_grd_f32_san_nov {
    #![allow(unused_imports, unused_variables, clippy::all)]
    use super::*;
    use super::d_grd_f32_san_nov::*;
    pub type Inner = f32;
    pub fn sanitize(x: Inner) -> Inner { san_f32(x) }
    pub fn valid(x: &Inner) -> bool { true }
}
pub mod d_grd_f32_san3_val {
    use super::*;
    #[nutype(sanitize(with = san3_f32), validate(finite, greater_or_equal = sym_lo_f32(), less = sym_hi_f32()), derive(Debug, TryFrom, FromStr, Serialize, Deserialize))]
    pub struct GrdF32San3Val(f32);
}
pub use d_grd_f32_san3_val::*;
pub mod ref_grd_f32_san3_val {
    #![allow(unused_imports, unused_variables, clippy::all)]
    use super::*;
    use super::d_grd_f32_san3_val::*;
    pub type Inner = f32;
    pub fn sanitize(x: Inner) -> Inner { san3_f32(x) }
    pub type Error = GrdF32San3ValError;
    pub fn validate(x: &Inner) -> Result<(), Error> { let v = *x; if !v.is_finite() { return Err(GrdF32San3ValError::FiniteViolated); } if !!(v < (sym_lo_f32())) { return Err(GrdF32San3ValError::GreaterOrEqualViolated); } if !!(v >= (sym_hi_f32())) { return Err(GrdF32San3ValError::LessViolated); } Ok(()) }
    pub fn try_new(raw: Inner) -> Result<Inner, Error> { let s = sanitize(raw); validate(&s)?; Ok(s) }
    pub fn valid(x: &Inner) -> bool { validate(x).is_ok() }
}
pub mod d_grd_f64_val {
    use super::*;
    #[nutype(validate(finite, greater_or_equal = sym_lo_f64(), less = sym_hi_f64()), derive(Debug, TryFrom, FromStr, Serialize, Deserialize, Arbitrary))]
    pub struct GrdF64Val(f64);
}
pub use d_grd_f64_val::*;
pub mod ref_grd_f64_val {
    #![allow(unused_imports, unused_variables, clippy::all)]
    use super::*;
    use super::d_grd_f64_val::*;
    pub type Inner = f64;
    pub fn sanitize(x: Inner) -> Inner { x }
    pub type Error = GrdF64ValError;
    pub fn validate(x: &Inner) -> Result<(), Error> { let v = *x; if !v.is_finite() { return Err(GrdF64ValError::FiniteViolated); } if !!(v < (sym_lo_f64())) { return Err(GrdF64ValError::GreaterOrEqualViolated); } if !!(v >= (sym_hi_f64())) { return Err(GrdF64ValError::LessViolated); } Ok(()) }
    pub fn try_new(raw: Inner) -> Result<Inner, Error> { let s = sanitize(raw); validate(&s)?; Ok(s) }
    pub fn valid(x: &Inner) -> bool { validate(x).is_ok() }
}
pub mod d_grd_f64_san_val {
    use super::*;
    #[nutype(sanitize(with = san_f64), validate(finite, greater_or_equal = sym_lo_f64(), less = sym_hi_f64()), derive(Debug, TryFrom, FromStr, Serialize, Deserialize))]
    pub struct GrdF64SanVal(f64);
}
pub use d_grd_f64_san_val::*;
pub mod ref_grd_f64_san_val {
    #![allow(unused_imports, unused_variables, clippy::all)]
    use super::*;
    use super::d_grd_f64_san_val::*;
    pub type Inner = f64;
    pub fn sanitize(x: Inner) -> Inner { san_f64(x) }
    pub type Error = GrdF64SanValError;
    pub fn validate(x: &Inner) -> Result<(), Error> { let v = *x; if !v.is_finite() { return Err(GrdF64SanValError::FiniteViolated); } if !!(v < (sym_lo_f64())) { return Err(GrdF64SanValError::GreaterOrEqualViolated); } if !!(v >= (sym_hi_f64())) { return Err(GrdF64SanValError::LessViolated); } Ok(()) }
    pub fn try_new(raw: Inner) -> Result<Inner, Error> { let s = sanitize(raw); validate(&s)?; Ok(s) }
    pub fn valid(x: &Inner) -> bool { validate(x).is_ok() }
}
pub mod d_grd_f64_san_nov {
    use super::*;
    #[nutype(sanitize(with = san_f64), derive(Debug, TryFrom, FromStr, Serialize, Deserialize))]
    pub struct GrdF64SanNov(f64);
}
pub use d_grd_f64_san_nov::*;
pub mod ref_grd_f64_san_nov {
    #![allow(unused_imports, unused_variables, clippy::all)]
    use super::*;
    use super::d_grd_f64_san_nov::*;
    pub type Inner = f64;
    pub fn sanitize(x: Inner) -> Inner { san_f64(x) }
    pub fn valid(x: &Inner) -> bool { true }
}
pub mod d_grd_f64_san3_val {
    use super::*;
    #[nutype(sanitize(with = san3_f64), validate(finite, greater_or_equal = sym_lo_f64(), less = sym_hi_f64()), derive(Debug, TryFrom, FromStr, Serialize, Deserialize))]
    pub struct GrdF64San3Val(f64);
}
pub use d_grd_f64_san3_val::*;
pub mod ref_grd_f64_san3_val {
    #![allow(unused_imports, unused_variables, clippy::all)]
    use super::*;
    use super::d_grd_f64_san3_val::*;
    pub type Inner = f64;
    pub fn sanitize(x: Inner) -> Inner { san3_f64(x) }
    pub type Error = GrdF64San3ValError;
    pub fn validate(x: &Inner) -> Result<(), Error> { let v = *x; if !v.is_finite() { return Err(GrdF64San3ValError::FiniteViolated); } if !!(v < (sym_lo_f64())) { return Err(GrdF64San3ValError::GreaterOrEqualViolated); } if !!(v >= (sym_hi_f64())) { return Err(GrdF64San3ValError::LessViolated); } Ok(()) }
    pub fn try_new(raw: Inner) -> Result<Inner, Error> { let s = sanitize(raw); validate(&s)?; Ok(s) }
    pub fn valid(x: &Inner) -> bool { validate(x).is_ok() }
}
pub mod d_def_i32_valid {
    use super::*;
    #[nutype(validate(greater_or_equal = 0, less_or_equal = 10), derive(Debug, Default), default = 5)]
    pub struct DefI32Valid(i32);
}
pub use d_def_i32_valid::*;
pub mod ref_def_i32_valid {
    #![allow(unused_imports, unused_variables, clippy::all)]
    use super::*;
    use super::d_def_i32_valid::*;
    pub type Inner = i32;
    pub fn sanitize(x: Inner) -> Inner { x }
    pub type Error = DefI32ValidError;
    pub fn validate(x: &Inner) -> Result<(), Error> { let v = *x; if !(v >= ((0 as i32))) { return Err(DefI32ValidError::GreaterOrEqualViolated); } if !(v <= ((10 as i32))) { return Err(DefI32ValidError::LessOrEqualViolated); } Ok(()) }
    pub fn try_new(raw: Inner) -> Result<Inner, Error> { let s = sanitize(raw); validate(&s)?; Ok(s) }
    pub fn valid(x: &Inner) -> bool { validate(x).is_ok() }
}
pub mod d_def_i32_sanitized {
    use super::*;
    #[nutype(sanitize(with = san_i32), validate(less_or_equal = 60), derive(Debug, Default), default = 77)]
    pub struct DefI32Sanitized(i32);
}
pub use d_def_i32_sanitized::*;
pub mod ref_def_i32_sanitized {
    #![allow(unused_imports, unused_variables, clippy::all)]
    use super::*;
    use super::d_def_i32_sanitized::*;
    pub type Inner = i32;
    pub fn sanitize(x: Inner) -> Inner { san_i32(x) }
    pub type Error = DefI32SanitizedError;
    pub fn validate(x: &Inner) -> Result<(), Error> { let v = *x; if !(v <= ((60 as i32))) { return Err(DefI32SanitizedError::LessOrEqualViolated); } Ok(()) }
    pub fn try_new(raw: Inner) -> Result<Inner, Error> { let s = sanitize(raw); validate(&s)?; Ok(s) }
    pub fn valid(x: &Inner) -> bool { validate(x).is_ok() }
}
pub mod d_def_i32_symbolic_valid {
    use super::*;
    #[nutype(validate(greater_or_equal = sym_lo_i32()), derive(Debug, Default), default = sym_hi_i32())]
    pub struct DefI32SymbolicValid(i32);
}
pub use d_def_i32_symbolic_valid::*;
pub mod ref_def_i32_symbolic_valid {
    #![allow(unused_imports, unused_variables, clippy::all)]
    use super::*;
    use super::d_def_i32_symbolic_valid::*;
    pub type Inner = i32;
    pub fn sanitize(x: Inner) -> Inner { x }
    pub type Error = DefI32SymbolicValidError;
    pub fn validate(x: &Inner) -> Result<(), Error> { let v = *x; if !(v >= (sym_lo_i32())) { return Err(DefI32SymbolicValidError::GreaterOrEqualViolated); } Ok(()) }
    pub fn try_new(raw: Inner) -> Result<Inner, Error> { let s = sanitize(raw); validate(&s)?; Ok(s) }
    pub fn valid(x: &Inner) -> bool { validate(x).is_ok() }
}
pub mod d_def_u8_valid {
    use super::*;
    #[nutype(validate(greater_or_equal = 0, less_or_equal = 10), derive(Debug, Default), default = 5)]
    pub struct DefU8Valid(u8);
}
pub use d_def_u8_valid::*;
pub mod ref_def_u8_valid {
    #![allow(unused_imports, unused_variables, clippy::all)]
    use super::*;
    use super::d_def_u8_valid::*;
    pub type Inner = u8;
    pub fn sanitize(x: Inner) -> Inner { x }
    pub type Error = DefU8ValidError;
    pub fn validate(x: &Inner) -> Result<(), Error> { let v = *x; if !(v >= ((0 as u8))) { return Err(DefU8ValidError::GreaterOrEqualViolated); } if !(v <= ((10 as u8))) { return Err(DefU8ValidError::LessOrEqualViolated); } Ok(()) }
    pub fn try_new(raw: Inner) -> Result<Inner, Error> { let s = sanitize(raw); validate(&s)?; Ok(s) }
    pub fn valid(x: &Inner) -> bool { validate(x).is_ok() }
}
pub mod d_def_u8_sanitized {
    use super::*;
    #[nutype(sanitize(with = san_u8), validate(less_or_equal = 60), derive(Debug, Default), default = 77)]
    pub struct DefU8Sanitized(u8);
}
pub use d_def_u8_sanitized::*;
pub mod ref_def_u8_sanitized {
    #![allow(unused_imports, unused_variables, clippy::all)]
    use super::*;
    use super::d_def_u8_sanitized::*;
    pub type Inner = u8;
    pub fn sanitize(x: Inner) -> Inner { san_u8(x) }
    pub type Error = DefU8SanitizedError;
    pub fn validate(x: &Inner) -> Result<(), Error> { let v = *x; if !(v <= ((60 as u8))) { return Err(DefU8SanitizedError::LessOrEqualViolated); } Ok(()) }
    pub fn try_new(raw: Inner) -> Result<Inner, Error> { let s = sanitize(raw); validate(&s)?; Ok(s) }
    pub fn valid(x: &Inner) -> bool { validate(x).is_ok() }
}
pub mod d_def_u8_symbolic_valid {
    use super::*;
    #[nutype(validate(greater_or_equal = sym_lo_u8()), derive(Debug, Default), default = sym_hi_u8())]
    pub struct DefU8SymbolicValid(u8);
}
pub use d_def_u8_symbolic_valid::*;
pub mod ref_def_u8_symbolic_valid {
    #![allow(unused_imports, unused_variables, clippy::all)]
    use super::*;
    use super::d_def_u8_symbolic_valid::*;
    pub type Inner = u8;
    pub fn sanitize(x: Inner) -> Inner { x }
    pub type Error = DefU8SymbolicValidError;
    pub fn validate(x: &Inner) -> Result<(), Error> { let v = *x; if !(v >= (sym_lo_u8())) { return Err(DefU8SymbolicValidError::GreaterOrEqualViolated); } Ok(()) }
    pub fn try_new(raw: Inner) -> Result<Inner, Error> { let s = sanitize(raw); validate(&s)?; Ok(s) }
    pub fn valid(x: &Inner) -> bool { validate(x).is_ok() }
}
pub mod d_def_f64_valid {
    use super::*;
    #[nutype(validate(greater_or_equal = 0.0, less_or_equal = 10.0), derive(Debug, Default), default = 5.0)]
    pub struct DefF64Valid(f64);
}
pub use d_def_f64_valid::*;
pub mod ref_def_f64_valid {
    #![allow(unused_imports, unused_variables, clippy::all)]
    use super::*;
    use super::d_def_f64_valid::*;
    pub type Inner = f64;
    pub fn sanitize(x: Inner) -> Inner { x }
    pub type Error = DefF64ValidError;
    pub fn validate(x: &Inner) -> Result<(), Error> { let v = *x; if !!(v < ((0.0 as f64))) { return Err(DefF64ValidError::GreaterOrEqualViolated); } if !!(v > ((10.0 as f64))) { return Err(DefF64ValidError::LessOrEqualViolated); } Ok(()) }
    pub fn try_new(raw: Inner) -> Result<Inner, Error> { let s = sanitize(raw); validate(&s)?; Ok(s) }
    pub fn valid(x: &Inner) -> bool { validate(x).is_ok() }
}
pub mod d_def_f64_sanitized {
    use super::*;
    #[nutype(sanitize(with = san_f64), validate(less_or_equal = 60.0), derive(Debug, Default), default = -3.0)]
    pub struct DefF64Sanitized(f64);
}
pub use d_def_f64_sanitized::*;
pub mod ref_def_f64_sanitized {
    #![allow(unused_imports, unused_variables, clippy::all)]
    use super::*;
    use super::d_def_f64_sanitized::*;
    pub type Inner = f64;
    pub fn sanitize(x: Inner) -> Inner { san_f64(x) }
    pub type Error = DefF64SanitizedError;
    pub fn validate(x: &Inner) -> Result<(), Error> { let v = *x; if !!(v > ((60.0 as f64))) { return Err(DefF64SanitizedError::LessOrEqualViolated); } Ok(()) }
    pub fn try_new(raw: Inner) -> Result<Inner, Error> { let s = sanitize(raw); validate(&s)?; Ok(s) }
    pub fn valid(x: &Inner) -> bool { validate(x).is_ok() }
}
pub mod d_def_f64_symbolic_valid {
    use super::*;
    #[nutype(validate(greater_or_equal = sym_lo_f64()), derive(Debug, Default), default = sym_hi_f64())]
    pub struct DefF64SymbolicValid(f64);
}
pub use d_def_f64_symbolic_valid::*;
pub mod ref_def_f64_symbolic_valid {
    #![allow(unused_imports, unused_variables, clippy::all)]
    use super::*;
    use super::d_def_f64_symbolic_valid::*;
    pub type Inner = f64;
    pub fn sanitize(x: Inner) -> Inner { x }
    pub type Error = DefF64SymbolicValidError;
    pub fn validate(x: &Inner) -> Result<(), Error> { let v = *x; if !!(v < (sym_lo_f64())) { return Err(DefF64SymbolicValidError::GreaterOrEqualViolated); } Ok(()) }
    pub fn try_new(raw: Inner) -> Result<Inner, Error> { let s = sanitize(raw); validate(&s)?; Ok(s) }
    pub fn valid(x: &Inner) -> bool { validate(x).is_ok() }
}
pub mod d_def_f32_valid {
    use super::*;
    #[nutype(validate(greater_or_equal = 0.0, less_or_equal = 10.0), derive(Debug, Default), default = 5.0)]
    pub struct DefF32Valid(f32);
}
pub use d_def_f32_valid::*;
pub mod ref_def_f32_valid {
    #![allow(unused_imports, unused_variables, clippy::all)]
    use super::*;
    use super::d_def_f32_valid::*;
    pub type Inner = f32;
    pub fn sanitize(x: Inner) -> Inner { x }
    pub type Error = DefF32ValidError;
    pub fn validate(x: &Inner) -> Result<(), Error> { let v = *x; if !!(v < ((0.0 as f32))) { return Err(DefF32ValidError::GreaterOrEqualViolated); } if !!(v > ((10.0 as f32))) { return Err(DefF32ValidError::LessOrEqualViolated); } Ok(()) }
    pub fn try_new(raw: Inner) -> Result<Inner, Error> { let s = sanitize(raw); validate(&s)?; Ok(s) }
    pub fn valid(x: &Inner) -> bool { validate(x).is_ok() }
}
pub mod d_def_f32_sanitized {
    use super::*;
    #[nutype(sanitize(with = san_f32), validate(less_or_equal = 60.0), derive(Debug, Default), default = -3.0)]
    pub struct DefF32Sanitized(f32);
}
pub use d_def_f32_sanitized::*;
pub mod ref_def_f32_sanitized {
    #![allow(unused_imports, unused_variables, clippy::all)]
    use super::*;
    use super::d_def_f32_sanitized::*;
    pub type Inner = f32;
    pub fn sanitize(x: Inner) -> Inner { san_f32(x) }
    pub type Error = DefF32SanitizedError;
    pub fn validate(x: &Inner) -> Result<(), Error> { let v = *x; if !!(v > ((60.0 as f32))) { return Err(DefF32SanitizedError::LessOrEqualViolated); } Ok(()) }
    pub fn try_new(raw: Inner) -> Result<Inner, Error> { let s = sanitize(raw); validate(&s)?; Ok(s) }
    pub fn valid(x: &Inner) -> bool { validate(x).is_ok() }
}
pub mod d_def_f32_symbolic_valid {
    use super::*;
    #[nutype(validate(greater_or_equal = sym_lo_f32()), derive(Debug, Default), default = sym_hi_f32())]
    pub struct DefF32SymbolicValid(f32);
}
pub use d_def_f32_symbolic_valid::*;
pub mod ref_def_f32_symbolic_valid {
    #![allow(unused_imports, unused_variables, clippy::all)]
    use super::*;
    use super::d_def_f32_symbolic_valid::*;
    pub type Inner = f32;
    pub fn sanitize(x: Inner) -> Inner { x }
    pub type Error = DefF32SymbolicValidError;
    pub fn validate(x: &Inner) -> Result<(), Error> { let v = *x; if !!(v < (sym_lo_f32())) { return Err(DefF32SymbolicValidError::GreaterOrEqualViolated); } Ok(()) }
    pub fn try_new(raw: Inner) -> Result<Inner, Error> { let s = sanitize(raw); validate(&s)?; Ok(s) }
    pub fn valid(x: &Inner) -> bool { validate(x).is_ok() }
}
pub mod d_def_i128_valid {
    use super::*;
    #[nutype(validate(greater_or_equal = 0, less_or_equal = 10), derive(Debug, Default), default = 5)]
    pub struct DefI128Valid(i128);
}
pub use d_def_i128_valid::*;
pub mod ref_def_i128_valid {
    #![allow(unused_imports, unused_variables, clippy::all)]
    use super::*;
    use super::d_def_i128_valid::*;
    pub type Inner = i128;
    pub fn sanitize(x: Inner) -> Inner { x }
    pub type Error = DefI128ValidError;
    pub fn validate(x: &Inner) -> Result<(), Error> { let v = *x; if !(v >= ((0 as i128))) { return Err(DefI128ValidError::GreaterOrEqualViolated); } if !(v <= ((10 as i128))) { return Err(DefI128ValidError::LessOrEqualViolated); } Ok(()) }
    pub fn try_new(raw: Inner) -> Result<Inner, Error> { let s = sanitize(raw); validate(&s)?; Ok(s) }
    pub fn valid(x: &Inner) -> bool { validate(x).is_ok() }
}
pub mod d_def_i128_sanitized {
    use super::*;
    #[nutype(sanitize(with = san_i128), validate(less_or_equal = 60), derive(Debug, Default), default = 77)]
    pub struct DefI128Sanitized(i128);
}
pub use d_def_i128_sanitized::*;
pub mod ref_def_i128_sanitized {
    #![allow(unused_imports, unused_variables, clippy::all)]
    use super::*;
    use super::d_def_i128_sanitized::*;
    pub type Inner = i128;
    pub fn sanitize(x: Inner) -> Inner { san_i128(x) }
    pub type Error = DefI128SanitizedError;
    pub fn validate(x: &Inner) -> Result<(), Error> { let v = *x; if !(v <= ((60 as i128))) { return Err(DefI128SanitizedError::LessOrEqualViolated); } Ok(()) }
    pub fn try_new(raw: Inner) -> Result<Inner, Error> { let s = sanitize(raw); validate(&s)?; Ok(s) }
    pub fn valid(x: &Inner) -> bool { validate(x).is_ok() }
}
pub mod d_def_i128_symbolic_valid {
    use super::*;
    #[nutype(validate(greater_or_equal = sym_lo_i128()), derive(Debug, Default), default = sym_hi_i128())]
    pub struct DefI128SymbolicValid(i128);
}
pub use d_def_i128_symbolic_valid::*;
pub mod ref_def_i128_symbolic_valid {
    #![allow(unused_imports, unused_variables, clippy::all)]
    use super::*;
    use super::d_def_i128_symbolic_valid::*;
    pub type Inner = i128;
    pub fn sanitize(x: Inner) -> Inner { x }
    pub type Error = DefI128SymbolicValidError;
    pub fn validate(x: &Inner) -> Result<(), Error> { let v = *x; if !(v >= (sym_lo_i128())) { return Err(DefI128SymbolicValidError::GreaterOrEqualViolated); } Ok(()) }
    pub fn try_new(raw: Inner) -> Result<Inner, Error> { let s = sanitize(raw); validate(&s)?; Ok(s) }
    pub fn valid(x: &Inner) -> bool { validate(x).is_ok() }
}

pub mod sfmt {
    #![allow(dead_code, unused_variables)]
    use serde::de::{self, Deserializer, Visitor};
    use serde::ser::{self, Serializer, Serialize};

    #[derive(Debug, Clone, Copy, PartialEq, Eq)]
    pub enum DErr { Inner, Custom, Other }
    impl ::core::fmt::Display for DErr { fn fmt(&self, f: &mut ::core::fmt::Formatter<'_>) -> ::core::fmt::Result { Ok(()) } }
    impl ::std::error::Error for DErr {}
    impl de::Error for DErr { fn custom<T: ::core::fmt::Display>(_msg: T) -> Self { DErr::Custom } }
    impl ser::Error for DErr { fn custom<T: ::core::fmt::Display>(_msg: T) -> Self { DErr::Custom } }

    pub static mut SEEN_NAME_OK: bool = false;
    pub static mut EXPECT_NAME: &str = "";
    pub static mut NEWTYPE_CALLS: usize = 0;

    /// deserializer for the inner primitive value: hands `v` to whatever the inner type's visitor
    /// asks for, or fails with DErr::Inner when `ok` is false
    pub struct Prim<T> { pub v: T, pub ok: bool }
    /// the document: mode 0 follows the newtype protocol, other modes violate it
    pub struct Fmt<T> { pub v: T, pub ok: bool, pub mode: u8 }

    /// a sequence / map holding exactly the inner value (for documents that present the newtype as a
    /// 1-element sequence or a 1-entry map instead of a newtype struct)
    pub struct OneSeq<T> { pub v: Option<Prim<T>> }
    impl<'de, T> de::SeqAccess<'de> for OneSeq<T> where Prim<T>: Deserializer<'de, Error = DErr> {
        type Error = DErr;
        fn next_element_seed<S: de::DeserializeSeed<'de>>(&mut self, seed: S) -> Result<Option<S::Value>, DErr> {
            match self.v.take() { Some(p) => seed.deserialize(p).map(Some), None => Ok(None) }
        }
    }
    pub struct OneMap<T> { pub v: Option<Prim<T>>, pub key_done: bool }
    impl<'de, T> de::MapAccess<'de> for OneMap<T> where Prim<T>: Deserializer<'de, Error = DErr> {
        type Error = DErr;
        fn next_key_seed<K: de::DeserializeSeed<'de>>(&mut self, seed: K) -> Result<Option<K::Value>, DErr> {
            if self.key_done { return Ok(None); }
            self.key_done = true;
            match self.v.take() { Some(p) => seed.deserialize(p).map(Some), None => Ok(None) }
        }
        fn next_value_seed<V: de::DeserializeSeed<'de>>(&mut self, _seed: V) -> Result<V::Value, DErr> { Err(DErr::Other) }
    }

            impl<'de> Deserializer<'de> for Prim<i8> {
                type Error = DErr;
                fn deserialize_any<V: Visitor<'de>>(self, visitor: V) -> Result<V::Value, DErr> {
                    if self.ok { visitor.visit_i8(self.v) } else { Err(DErr::Inner) }
                }
                fn deserialize_i8<V: Visitor<'de>>(self, visitor: V) -> Result<V::Value, DErr> {
                    if self.ok { visitor.visit_i8(self.v) } else { Err(DErr::Inner) }
                }
                serde::forward_to_deserialize_any! { bool i16 i32 i64 i128 u8 u16 u32 u64 u128 f32 f64 char str string bytes byte_buf option unit unit_struct newtype_struct seq tuple tuple_struct map struct enum identifier ignored_any }
            }
            impl<'de> Deserializer<'de> for Fmt<i8> {
                type Error = DErr;
                fn deserialize_any<V: Visitor<'de>>(self, visitor: V) -> Result<V::Value, DErr> { Err(DErr::Other) }
                fn deserialize_newtype_struct<V: Visitor<'de>>(self, name: &'static str, visitor: V) -> Result<V::Value, DErr> {
                    unsafe { NEWTYPE_CALLS += 1; SEEN_NAME_OK = name == EXPECT_NAME; }
                    match self.mode {
                        0 => visitor.visit_newtype_struct(Prim { v: self.v, ok: self.ok }),
                        1 => visitor.visit_i8(self.v),
                        2 => visitor.visit_unit(),
                        3 => visitor.visit_str("7"),
                        4 => visitor.visit_none(),
                        5 => visitor.visit_bool(true),
                        6 => visitor.visit_some(Prim { v: self.v, ok: self.ok }),
                        7 => visitor.visit_seq(OneSeq { v: Some(Prim { v: self.v, ok: self.ok }) }),
                        8 => visitor.visit_map(OneMap { v: Some(Prim { v: self.v, ok: self.ok }), key_done: false }),
                        9 => visitor.visit_i64(7),
                        10 => visitor.visit_f64(7.0),
                        11 => visitor.visit_char('7'),
                        12 => visitor.visit_string(String::from("7")),
                        13 => visitor.visit_bytes(&[7u8]),
                        14 => visitor.visit_borrowed_str("7"),
                        15 => visitor.visit_i128(7),
                        16 => visitor.visit_u128(7),
                        _ => visitor.visit_u64(7),
                    }
                }
                serde::forward_to_deserialize_any! {
                    bool i8 i16 i32 i64 i128 u8 u16 u32 u64 u128 f32 f64 char str string bytes byte_buf option unit
                    unit_struct seq tuple tuple_struct map struct enum identifier ignored_any
                }
            }

            impl<'de> Deserializer<'de> for Prim<i16> {
                type Error = DErr;
                fn deserialize_any<V: Visitor<'de>>(self, visitor: V) -> Result<V::Value, DErr> {
                    if self.ok { visitor.visit_i16(self.v) } else { Err(DErr::Inner) }
                }
                fn deserialize_i16<V: Visitor<'de>>(self, visitor: V) -> Result<V::Value, DErr> {
                    if self.ok { visitor.visit_i16(self.v) } else { Err(DErr::Inner) }
                }
                serde::forward_to_deserialize_any! { bool i8 i32 i64 i128 u8 u16 u32 u64 u128 f32 f64 char str string bytes byte_buf option unit unit_struct newtype_struct seq tuple tuple_struct map struct enum identifier ignored_any }
            }
            impl<'de> Deserializer<'de> for Fmt<i16> {
                type Error = DErr;
                fn deserialize_any<V: Visitor<'de>>(self, visitor: V) -> Result<V::Value, DErr> { Err(DErr::Other) }
                fn deserialize_newtype_struct<V: Visitor<'de>>(self, name: &'static str, visitor: V) -> Result<V::Value, DErr> {
                    unsafe { NEWTYPE_CALLS += 1; SEEN_NAME_OK = name == EXPECT_NAME; }
                    match self.mode {
                        0 => visitor.visit_newtype_struct(Prim { v: self.v, ok: self.ok }),
                        1 => visitor.visit_i16(self.v),
                        2 => visitor.visit_unit(),
                        3 => visitor.visit_str("7"),
                        4 => visitor.visit_none(),
                        5 => visitor.visit_bool(true),
                        6 => visitor.visit_some(Prim { v: self.v, ok: self.ok }),
                        7 => visitor.visit_seq(OneSeq { v: Some(Prim { v: self.v, ok: self.ok }) }),
                        8 => visitor.visit_map(OneMap { v: Some(Prim { v: self.v, ok: self.ok }), key_done: false }),
                        9 => visitor.visit_i64(7),
                        10 => visitor.visit_f64(7.0),
                        11 => visitor.visit_char('7'),
                        12 => visitor.visit_string(String::from("7")),
                        13 => visitor.visit_bytes(&[7u8]),
                        14 => visitor.visit_borrowed_str("7"),
                        15 => visitor.visit_i128(7),
                        16 => visitor.visit_u128(7),
                        _ => visitor.visit_u64(7),
                    }
                }
                serde::forward_to_deserialize_any! {
                    bool i8 i16 i32 i64 i128 u8 u16 u32 u64 u128 f32 f64 char str string bytes byte_buf option unit
                    unit_struct seq tuple tuple_struct map struct enum identifier ignored_any
                }
            }

            impl<'de> Deserializer<'de> for Prim<i32> {
                type Error = DErr;
                fn deserialize_any<V: Visitor<'de>>(self, visitor: V) -> Result<V::Value, DErr> {
                    if self.ok { visitor.visit_i32(self.v) } else { Err(DErr::Inner) }
                }
                fn deserialize_i32<V: Visitor<'de>>(self, visitor: V) -> Result<V::Value, DErr> {
                    if self.ok { visitor.visit_i32(self.v) } else { Err(DErr::Inner) }
                }
                serde::forward_to_deserialize_any! { bool i8 i16 i64 i128 u8 u16 u32 u64 u128 f32 f64 char str string bytes byte_buf option unit unit_struct newtype_struct seq tuple tuple_struct map struct enum identifier ignored_any }
            }
            impl<'de> Deserializer<'de> for Fmt<i32> {
                type Error = DErr;
                fn deserialize_any<V: Visitor<'de>>(self, visitor: V) -> Result<V::Value, DErr> { Err(DErr::Other) }
                fn deserialize_newtype_struct<V: Visitor<'de>>(self, name: &'static str, visitor: V) -> Result<V::Value, DErr> {
                    unsafe { NEWTYPE_CALLS += 1; SEEN_NAME_OK = name == EXPECT_NAME; }
                    match self.mode {
                        0 => visitor.visit_newtype_struct(Prim { v: self.v, ok: self.ok }),
                        1 => visitor.visit_i32(self.v),
                        2 => visitor.visit_unit(),
                        3 => visitor.visit_str("7"),
                        4 => visitor.visit_none(),
                        5 => visitor.visit_bool(true),
                        6 => visitor.visit_some(Prim { v: self.v, ok: self.ok }),
                        7 => visitor.visit_seq(OneSeq { v: Some(Prim { v: self.v, ok: self.ok }) }),
                        8 => visitor.visit_map(OneMap { v: Some(Prim { v: self.v, ok: self.ok }), key_done: false }),
                        9 => visitor.visit_i64(7),
                        10 => visitor.visit_f64(7.0),
                        11 => visitor.visit_char('7'),
                        12 => visitor.visit_string(String::from("7")),
                        13 => visitor.visit_bytes(&[7u8]),
                        14 => visitor.visit_borrowed_str("7"),
                        15 => visitor.visit_i128(7),
                        16 => visitor.visit_u128(7),
                        _ => visitor.visit_u64(7),
                    }
                }
                serde::forward_to_deserialize_any! {
                    bool i8 i16 i32 i64 i128 u8 u16 u32 u64 u128 f32 f64 char str string bytes byte_buf option unit
                    unit_struct seq tuple tuple_struct map struct enum identifier ignored_any
                }
            }

            impl<'de> Deserializer<'de> for Prim<i64> {
                type Error = DErr;
                fn deserialize_any<V: Visitor<'de>>(self, visitor: V) -> Result<V::Value, DErr> {
                    if self.ok { visitor.visit_i64(self.v) } else { Err(DErr::Inner) }
                }
                fn deserialize_i64<V: Visitor<'de>>(self, visitor: V) -> Result<V::Value, DErr> {
                    if self.ok { visitor.visit_i64(self.v) } else { Err(DErr::Inner) }
                }
                serde::forward_to_deserialize_any! { bool i8 i16 i32 i128 u8 u16 u32 u64 u128 f32 f64 char str string bytes byte_buf option unit unit_struct newtype_struct seq tuple tuple_struct map struct enum identifier ignored_any }
            }
            impl<'de> Deserializer<'de> for Fmt<i64> {
                type Error = DErr;
                fn deserialize_any<V: Visitor<'de>>(self, visitor: V) -> Result<V::Value, DErr> { Err(DErr::Other) }
                fn deserialize_newtype_struct<V: Visitor<'de>>(self, name: &'static str, visitor: V) -> Result<V::Value, DErr> {
                    unsafe { NEWTYPE_CALLS += 1; SEEN_NAME_OK = name == EXPECT_NAME; }
                    match self.mode {
                        0 => visitor.visit_newtype_struct(Prim { v: self.v, ok: self.ok }),
                        1 => visitor.visit_i64(self.v),
                        2 => visitor.visit_unit(),
                        3 => visitor.visit_str("7"),
                        4 => visitor.visit_none(),
                        5 => visitor.visit_bool(true),
                        6 => visitor.visit_some(Prim { v: self.v, ok: self.ok }),
                        7 => visitor.visit_seq(OneSeq { v: Some(Prim { v: self.v, ok: self.ok }) }),
                        8 => visitor.visit_map(OneMap { v: Some(Prim { v: self.v, ok: self.ok }), key_done: false }),
                        9 => visitor.visit_i64(7),
                        10 => visitor.visit_f64(7.0),
                        11 => visitor.visit_char('7'),
                        12 => visitor.visit_string(String::from("7")),
                        13 => visitor.visit_bytes(&[7u8]),
                        14 => visitor.visit_borrowed_str("7"),
                        15 => visitor.visit_i128(7),
                        16 => visitor.visit_u128(7),
                        _ => visitor.visit_u64(7),
                    }
                }
                serde::forward_to_deserialize_any! {
                    bool i8 i16 i32 i64 i128 u8 u16 u32 u64 u128 f32 f64 char str string bytes byte_buf option unit
                    unit_struct seq tuple tuple_struct map struct enum identifier ignored_any
                }
            }

            impl<'de> Deserializer<'de> for Prim<i128> {
                type Error = DErr;
                fn deserialize_any<V: Visitor<'de>>(self, visitor: V) -> Result<V::Value, DErr> {
                    if self.ok { visitor.visit_i128(self.v) } else { Err(DErr::Inner) }
                }
                fn deserialize_i128<V: Visitor<'de>>(self, visitor: V) -> Result<V::Value, DErr> {
                    if self.ok { visitor.visit_i128(self.v) } else { Err(DErr::Inner) }
                }
                serde::forward_to_deserialize_any! { bool i8 i16 i32 i64 u8 u16 u32 u64 u128 f32 f64 char str string bytes byte_buf option unit unit_struct newtype_struct seq tuple tuple_struct map struct enum identifier ignored_any }
            }
            impl<'de> Deserializer<'de> for Fmt<i128> {
                type Error = DErr;
                fn deserialize_any<V: Visitor<'de>>(self, visitor: V) -> Result<V::Value, DErr> { Err(DErr::Other) }
                fn deserialize_newtype_struct<V: Visitor<'de>>(self, name: &'static str, visitor: V) -> Result<V::Value, DErr> {
                    unsafe { NEWTYPE_CALLS += 1; SEEN_NAME_OK = name == EXPECT_NAME; }
                    match self.mode {
                        0 => visitor.visit_newtype_struct(Prim { v: self.v, ok: self.ok }),
                        1 => visitor.visit_i128(self.v),
                        2 => visitor.visit_unit(),
                        3 => visitor.visit_str("7"),
                        4 => visitor.visit_none(),
                        5 => visitor.visit_bool(true),
                        6 => visitor.visit_some(Prim { v: self.v, ok: self.ok }),
                        7 => visitor.visit_seq(OneSeq { v: Some(Prim { v: self.v, ok: self.ok }) }),
                        8 => visitor.visit_map(OneMap { v: Some(Prim { v: self.v, ok: self.ok }), key_done: false }),
                        9 => visitor.visit_i64(7),
                        10 => visitor.visit_f64(7.0),
                        11 => visitor.visit_char('7'),
                        12 => visitor.visit_string(String::from("7")),
                        13 => visitor.visit_bytes(&[7u8]),
                        14 => visitor.visit_borrowed_str("7"),
                        15 => visitor.visit_i128(7),
                        16 => visitor.visit_u128(7),
                        _ => visitor.visit_u64(7),
                    }
                }
                serde::forward_to_deserialize_any! {
                    bool i8 i16 i32 i64 i128 u8 u16 u32 u64 u128 f32 f64 char str string bytes byte_buf option unit
                    unit_struct seq tuple tuple_struct map struct enum identifier ignored_any
                }
            }

            impl<'de> Deserializer<'de> for Prim<u8> {
                type Error = DErr;
                fn deserialize_any<V: Visitor<'de>>(self, visitor: V) -> Result<V::Value, DErr> {
                    if self.ok { visitor.visit_u8(self.v) } else { Err(DErr::Inner) }
                }
                fn deserialize_u8<V: Visitor<'de>>(self, visitor: V) -> Result<V::Value, DErr> {
                    if self.ok { visitor.visit_u8(self.v) } else { Err(DErr::Inner) }
                }
                serde::forward_to_deserialize_any! { bool i8 i16 i32 i64 i128 u16 u32 u64 u128 f32 f64 char str string bytes byte_buf option unit unit_struct newtype_struct seq tuple tuple_struct map struct enum identifier ignored_any }
            }
            impl<'de> Deserializer<'de> for Fmt<u8> {
                type Error = DErr;
                fn deserialize_any<V: Visitor<'de>>(self, visitor: V) -> Result<V::Value, DErr> { Err(DErr::Other) }
                fn deserialize_newtype_struct<V: Visitor<'de>>(self, name: &'static str, visitor: V) -> Result<V::Value, DErr> {
                    unsafe { NEWTYPE_CALLS += 1; SEEN_NAME_OK = name == EXPECT_NAME; }
                    match self.mode {
                        0 => visitor.visit_newtype_struct(Prim { v: self.v, ok: self.ok }),
                        1 => visitor.visit_u8(self.v),
                        2 => visitor.visit_unit(),
                        3 => visitor.visit_str("7"),
                        4 => visitor.visit_none(),
                        5 => visitor.visit_bool(true),
                        6 => visitor.visit_some(Prim { v: self.v, ok: self.ok }),
                        7 => visitor.visit_seq(OneSeq { v: Some(Prim { v: self.v, ok: self.ok }) }),
                        8 => visitor.visit_map(OneMap { v: Some(Prim { v: self.v, ok: self.ok }), key_done: false }),
                        9 => visitor.visit_i64(7),
                        10 => visitor.visit_f64(7.0),
                        11 => visitor.visit_char('7'),
                        12 => visitor.visit_string(String::from("7")),
                        13 => visitor.visit_bytes(&[7u8]),
                        14 => visitor.visit_borrowed_str("7"),
                        15 => visitor.visit_i128(7),
                        16 => visitor.visit_u128(7),
                        _ => visitor.visit_u64(7),
                    }
                }
                serde::forward_to_deserialize_any! {
                    bool i8 i16 i32 i64 i128 u8 u16 u32 u64 u128 f32 f64 char str string bytes byte_buf option unit
                    unit_struct seq tuple tuple_struct map struct enum identifier ignored_any
                }
            }

            impl<'de> Deserializer<'de> for Prim<u16> {
                type Error = DErr;
                fn deserialize_any<V: Visitor<'de>>(self, visitor: V) -> Result<V::Value, DErr> {
                    if self.ok { visitor.visit_u16(self.v) } else { Err(DErr::Inner) }
                }
                fn deserialize_u16<V: Visitor<'de>>(self, visitor: V) -> Result<V::Value, DErr> {
                    if self.ok { visitor.visit_u16(self.v) } else { Err(DErr::Inner) }
                }
                serde::forward_to_deserialize_any! { bool i8 i16 i32 i64 i128 u8 u32 u64 u128 f32 f64 char str string bytes byte_buf option unit unit_struct newtype_struct seq tuple tuple_struct map struct enum identifier ignored_any }
            }
            impl<'de> Deserializer<'de> for Fmt<u16> {
                type Error = DErr;
                fn deserialize_any<V: Visitor<'de>>(self, visitor: V) -> Result<V::Value, DErr> { Err(DErr::Other) }
                fn deserialize_newtype_struct<V: Visitor<'de>>(self, name: &'static str, visitor: V) -> Result<V::Value, DErr> {
                    unsafe { NEWTYPE_CALLS += 1; SEEN_NAME_OK = name == EXPECT_NAME; }
                    match self.mode {
                        0 => visitor.visit_newtype_struct(Prim { v: self.v, ok: self.ok }),
                        1 => visitor.visit_u16(self.v),
                        2 => visitor.visit_unit(),
                        3 => visitor.visit_str("7"),
                        4 => visitor.visit_none(),
                        5 => visitor.visit_bool(true),
                        6 => visitor.visit_some(Prim { v: self.v, ok: self.ok }),
                        7 => visitor.visit_seq(OneSeq { v: Some(Prim { v: self.v, ok: self.ok }) }),
                        8 => visitor.visit_map(OneMap { v: Some(Prim { v: self.v, ok: self.ok }), key_done: false }),
                        9 => visitor.visit_i64(7),
                        10 => visitor.visit_f64(7.0),
                        11 => visitor.visit_char('7'),
                        12 => visitor.visit_string(String::from("7")),
                        13 => visitor.visit_bytes(&[7u8]),
                        14 => visitor.visit_borrowed_str("7"),
                        15 => visitor.visit_i128(7),
                        16 => visitor.visit_u128(7),
                        _ => visitor.visit_u64(7),
                    }
                }
                serde::forward_to_deserialize_any! {
                    bool i8 i16 i32 i64 i128 u8 u16 u32 u64 u128 f32 f64 char str string bytes byte_buf option unit
                    unit_struct seq tuple tuple_struct map struct enum identifier ignored_any
                }
            }

            impl<'de> Deserializer<'de> for Prim<u32> {
                type Error = DErr;
                fn deserialize_any<V: Visitor<'de>>(self, visitor: V) -> Result<V::Value, DErr> {
                    if self.ok { visitor.visit_u32(self.v) } else { Err(DErr::Inner) }
                }
                fn deserialize_u32<V: Visitor<'de>>(self, visitor: V) -> Result<V::Value, DErr> {
                    if self.ok { visitor.visit_u32(self.v) } else { Err(DErr::Inner) }
                }
                serde::forward_to_deserialize_any! { bool i8 i16 i32 i64 i128 u8 u16 u64 u128 f32 f64 char str string bytes byte_buf option unit unit_struct newtype_struct seq tuple tuple_struct map struct enum identifier ignored_any }
            }
            impl<'de> Deserializer<'de> for Fmt<u32> {
                type Error = DErr;
                fn deserialize_any<V: Visitor<'de>>(self, visitor: V) -> Result<V::Value, DErr> { Err(DErr::Other) }
                fn deserialize_newtype_struct<V: Visitor<'de>>(self, name: &'static str, visitor: V) -> Result<V::Value, DErr> {
                    unsafe { NEWTYPE_CALLS += 1; SEEN_NAME_OK = name == EXPECT_NAME; }
                    match self.mode {
                        0 => visitor.visit_newtype_struct(Prim { v: self.v, ok: self.ok }),
                        1 => visitor.visit_u32(self.v),
                        2 => visitor.visit_unit(),
                        3 => visitor.visit_str("7"),
                        4 => visitor.visit_none(),
                        5 => visitor.visit_bool(true),
                        6 => visitor.visit_some(Prim { v: self.v, ok: self.ok }),
                        7 => visitor.visit_seq(OneSeq { v: Some(Prim { v: self.v, ok: self.ok }) }),
                        8 => visitor.visit_map(OneMap { v: Some(Prim { v: self.v, ok: self.ok }), key_done: false }),
                        9 => visitor.visit_i64(7),
                        10 => visitor.visit_f64(7.0),
                        11 => visitor.visit_char('7'),
                        12 => visitor.visit_string(String::from("7")),
                        13 => visitor.visit_bytes(&[7u8]),
                        14 => visitor.visit_borrowed_str("7"),
                        15 => visitor.visit_i128(7),
                        16 => visitor.visit_u128(7),
                        _ => visitor.visit_u64(7),
                    }
                }
                serde::forward_to_deserialize_any! {
                    bool i8 i16 i32 i64 i128 u8 u16 u32 u64 u128 f32 f64 char str string bytes byte_buf option unit
                    unit_struct seq tuple tuple_struct map struct enum identifier ignored_any
                }
            }

            impl<'de> Deserializer<'de> for Prim<u64> {
                type Error = DErr;
                fn deserialize_any<V: Visitor<'de>>(self, visitor: V) -> Result<V::Value, DErr> {
                    if self.ok { visitor.visit_u64(self.v) } else { Err(DErr::Inner) }
                }
                fn deserialize_u64<V: Visitor<'de>>(self, visitor: V) -> Result<V::Value, DErr> {
                    if self.ok { visitor.visit_u64(self.v) } else { Err(DErr::Inner) }
                }
                serde::forward_to_deserialize_any! { bool i8 i16 i32 i64 i128 u8 u16 u32 u128 f32 f64 char str string bytes byte_buf option unit unit_struct newtype_struct seq tuple tuple_struct map struct enum identifier ignored_any }
            }
            impl<'de> Deserializer<'de> for Fmt<u64> {
                type Error = DErr;
                fn deserialize_any<V: Visitor<'de>>(self, visitor: V) -> Result<V::Value, DErr> { Err(DErr::Other) }
                fn deserialize_newtype_struct<V: Visitor<'de>>(self, name: &'static str, visitor: V) -> Result<V::Value, DErr> {
                    unsafe { NEWTYPE_CALLS += 1; SEEN_NAME_OK = name == EXPECT_NAME; }
                    match self.mode {
                        0 => visitor.visit_newtype_struct(Prim { v: self.v, ok: self.ok }),
                        1 => visitor.visit_u64(self.v),
                        2 => visitor.visit_unit(),
                        3 => visitor.visit_str("7"),
                        4 => visitor.visit_none(),
                        5 => visitor.visit_bool(true),
                        6 => visitor.visit_some(Prim { v: self.v, ok: self.ok }),
                        7 => visitor.visit_seq(OneSeq { v: Some(Prim { v: self.v, ok: self.ok }) }),
                        8 => visitor.visit_map(OneMap { v: Some(Prim { v: self.v, ok: self.ok }), key_done: false }),
                        9 => visitor.visit_i64(7),
                        10 => visitor.visit_f64(7.0),
                        11 => visitor.visit_char('7'),
                        12 => visitor.visit_string(String::from("7")),
                        13 => visitor.visit_bytes(&[7u8]),
                        14 => visitor.visit_borrowed_str("7"),
                        15 => visitor.visit_i128(7),
                        16 => visitor.visit_u128(7),
                        _ => visitor.visit_u64(7),
                    }
                }
                serde::forward_to_deserialize_any! {
                    bool i8 i16 i32 i64 i128 u8 u16 u32 u64 u128 f32 f64 char str string bytes byte_buf option unit
                    unit_struct seq tuple tuple_struct map struct enum identifier ignored_any
                }
            }

            impl<'de> Deserializer<'de> for Prim<u128> {
                type Error = DErr;
                fn deserialize_any<V: Visitor<'de>>(self, visitor: V) -> Result<V::Value, DErr> {
                    if self.ok { visitor.visit_u128(self.v) } else { Err(DErr::Inner) }
                }
                fn deserialize_u128<V: Visitor<'de>>(self, visitor: V) -> Result<V::Value, DErr> {
                    if self.ok { visitor.visit_u128(self.v) } else { Err(DErr::Inner) }
                }
                serde::forward_to_deserialize_any! { bool i8 i16 i32 i64 i128 u8 u16 u32 u64 f32 f64 char str string bytes byte_buf option unit unit_struct newtype_struct seq tuple tuple_struct map struct enum identifier ignored_any }
            }
            impl<'de> Deserializer<'de> for Fmt<u128> {
                type Error = DErr;
                fn deserialize_any<V: Visitor<'de>>(self, visitor: V) -> Result<V::Value, DErr> { Err(DErr::Other) }
                fn deserialize_newtype_struct<V: Visitor<'de>>(self, name: &'static str, visitor: V) -> Result<V::Value, DErr> {
                    unsafe { NEWTYPE_CALLS += 1; SEEN_NAME_OK = name == EXPECT_NAME; }
                    match self.mode {
                        0 => visitor.visit_newtype_struct(Prim { v: self.v, ok: self.ok }),
                        1 => visitor.visit_u128(self.v),
                        2 => visitor.visit_unit(),
                        3 => visitor.visit_str("7"),
                        4 => visitor.visit_none(),
                        5 => visitor.visit_bool(true),
                        6 => visitor.visit_some(Prim { v: self.v, ok: self.ok }),
                        7 => visitor.visit_seq(OneSeq { v: Some(Prim { v: self.v, ok: self.ok }) }),
                        8 => visitor.visit_map(OneMap { v: Some(Prim { v: self.v, ok: self.ok }), key_done: false }),
                        9 => visitor.visit_i64(7),
                        10 => visitor.visit_f64(7.0),
                        11 => visitor.visit_char('7'),
                        12 => visitor.visit_string(String::from("7")),
                        13 => visitor.visit_bytes(&[7u8]),
                        14 => visitor.visit_borrowed_str("7"),
                        15 => visitor.visit_i128(7),
                        16 => visitor.visit_u128(7),
                        _ => visitor.visit_u64(7),
                    }
                }
                serde::forward_to_deserialize_any! {
                    bool i8 i16 i32 i64 i128 u8 u16 u32 u64 u128 f32 f64 char str string bytes byte_buf option unit
                    unit_struct seq tuple tuple_struct map struct enum identifier ignored_any
                }
            }

            impl<'de> Deserializer<'de> for Prim<f32> {
                type Error = DErr;
                fn deserialize_any<V: Visitor<'de>>(self, visitor: V) -> Result<V::Value, DErr> {
                    if self.ok { visitor.visit_f32(self.v) } else { Err(DErr::Inner) }
                }
                fn deserialize_f32<V: Visitor<'de>>(self, visitor: V) -> Result<V::Value, DErr> {
                    if self.ok { visitor.visit_f32(self.v) } else { Err(DErr::Inner) }
                }
                serde::forward_to_deserialize_any! { bool i8 i16 i32 i64 i128 u8 u16 u32 u64 u128 f64 char str string bytes byte_buf option unit unit_struct newtype_struct seq tuple tuple_struct map struct enum identifier ignored_any }
            }
            impl<'de> Deserializer<'de> for Fmt<f32> {
                type Error = DErr;
                fn deserialize_any<V: Visitor<'de>>(self, visitor: V) -> Result<V::Value, DErr> { Err(DErr::Other) }
                fn deserialize_newtype_struct<V: Visitor<'de>>(self, name: &'static str, visitor: V) -> Result<V::Value, DErr> {
                    unsafe { NEWTYPE_CALLS += 1; SEEN_NAME_OK = name == EXPECT_NAME; }
                    match self.mode {
                        0 => visitor.visit_newtype_struct(Prim { v: self.v, ok: self.ok }),
                        1 => visitor.visit_f32(self.v),
                        2 => visitor.visit_unit(),
                        3 => visitor.visit_str("7"),
                        4 => visitor.visit_none(),
                        5 => visitor.visit_bool(true),
                        6 => visitor.visit_some(Prim { v: self.v, ok: self.ok }),
                        7 => visitor.visit_seq(OneSeq { v: Some(Prim { v: self.v, ok: self.ok }) }),
                        8 => visitor.visit_map(OneMap { v: Some(Prim { v: self.v, ok: self.ok }), key_done: false }),
                        9 => visitor.visit_i64(7),
                        10 => visitor.visit_f64(7.0),
                        11 => visitor.visit_char('7'),
                        12 => visitor.visit_string(String::from("7")),
                        13 => visitor.visit_bytes(&[7u8]),
                        14 => visitor.visit_borrowed_str("7"),
                        15 => visitor.visit_i128(7),
                        16 => visitor.visit_u128(7),
                        _ => visitor.visit_u64(7),
                    }
                }
                serde::forward_to_deserialize_any! {
                    bool i8 i16 i32 i64 i128 u8 u16 u32 u64 u128 f32 f64 char str string bytes byte_buf option unit
                    unit_struct seq tuple tuple_struct map struct enum identifier ignored_any
                }
            }

            impl<'de> Deserializer<'de> for Prim<f64> {
                type Error = DErr;
                fn deserialize_any<V: Visitor<'de>>(self, visitor: V) -> Result<V::Value, DErr> {
                    if self.ok { visitor.visit_f64(self.v) } else { Err(DErr::Inner) }
                }
                fn deserialize_f64<V: Visitor<'de>>(self, visitor: V) -> Result<V::Value, DErr> {
                    if self.ok { visitor.visit_f64(self.v) } else { Err(DErr::Inner) }
                }
                serde::forward_to_deserialize_any! { bool i8 i16 i32 i64 i128 u8 u16 u32 u64 u128 f32 char str string bytes byte_buf option unit unit_struct newtype_struct seq tuple tuple_struct map struct enum identifier ignored_any }
            }
            impl<'de> Deserializer<'de> for Fmt<f64> {
                type Error = DErr;
                fn deserialize_any<V: Visitor<'de>>(self, visitor: V) -> Result<V::Value, DErr> { Err(DErr::Other) }
                fn deserialize_newtype_struct<V: Visitor<'de>>(self, name: &'static str, visitor: V) -> Result<V::Value, DErr> {
                    unsafe { NEWTYPE_CALLS += 1; SEEN_NAME_OK = name == EXPECT_NAME; }
                    match self.mode {
                        0 => visitor.visit_newtype_struct(Prim { v: self.v, ok: self.ok }),
                        1 => visitor.visit_f64(self.v),
                        2 => visitor.visit_unit(),
                        3 => visitor.visit_str("7"),
                        4 => visitor.visit_none(),
                        5 => visitor.visit_bool(true),
                        6 => visitor.visit_some(Prim { v: self.v, ok: self.ok }),
                        7 => visitor.visit_seq(OneSeq { v: Some(Prim { v: self.v, ok: self.ok }) }),
                        8 => visitor.visit_map(OneMap { v: Some(Prim { v: self.v, ok: self.ok }), key_done: false }),
                        9 => visitor.visit_i64(7),
                        10 => visitor.visit_f64(7.0),
                        11 => visitor.visit_char('7'),
                        12 => visitor.visit_string(String::from("7")),
                        13 => visitor.visit_bytes(&[7u8]),
                        14 => visitor.visit_borrowed_str("7"),
                        15 => visitor.visit_i128(7),
                        16 => visitor.visit_u128(7),
                        _ => visitor.visit_u64(7),
                    }
                }
                serde::forward_to_deserialize_any! {
                    bool i8 i16 i32 i64 i128 u8 u16 u32 u64 u128 f32 f64 char str string bytes byte_buf option unit
                    unit_struct seq tuple tuple_struct map struct enum identifier ignored_any
                }
            }


    // String documents (concrete strings only: bounded, see DESIGN)
    impl<'de> Deserializer<'de> for Prim<String> {
        type Error = DErr;
        fn deserialize_any<V: Visitor<'de>>(self, visitor: V) -> Result<V::Value, DErr> {
            if self.ok { visitor.visit_string(self.v) } else { Err(DErr::Inner) }
        }
        serde::forward_to_deserialize_any! {
            bool i8 i16 i32 i64 i128 u8 u16 u32 u64 u128 f32 f64 char str string bytes byte_buf option unit
            unit_struct newtype_struct seq tuple tuple_struct map struct enum identifier ignored_any
        }
    }
    impl<'de> Deserializer<'de> for Fmt<String> {
        type Error = DErr;
        fn deserialize_any<V: Visitor<'de>>(self, visitor: V) -> Result<V::Value, DErr> { Err(DErr::Other) }
        fn deserialize_newtype_struct<V: Visitor<'de>>(self, name: &'static str, visitor: V) -> Result<V::Value, DErr> {
            unsafe { NEWTYPE_CALLS += 1; SEEN_NAME_OK = name == EXPECT_NAME; }
            match self.mode {
                0 => visitor.visit_newtype_struct(Prim { v: self.v, ok: self.ok }),
                1 => visitor.visit_string(self.v),
                2 => visitor.visit_unit(),
                _ => visitor.visit_u64(7),
            }
        }
        serde::forward_to_deserialize_any! {
            bool i8 i16 i32 i64 i128 u8 u16 u32 u64 u128 f32 f64 char str string bytes byte_buf option unit
            unit_struct seq tuple tuple_struct map struct enum identifier ignored_any
        }
    }

    // ---------------------------------------------------------------- recording serializer
    #[derive(Debug, Clone, Copy, PartialEq, Eq)]
    pub struct Rec { pub newtype_calls: u8, pub name_ok: bool, pub prim_kind: u8, pub bits: u128, pub other_calls: u8 }
    pub const EMPTY: Rec = Rec { newtype_calls: 0, name_ok: false, prim_kind: 0, bits: 0, other_calls: 0 };
    pub static mut SER_FAIL: bool = false;
    pub static mut LAST_STR: Option<String> = None;

    pub struct RecSer { pub depth: u8 }
    macro_rules! ser_prim {
        ($name:ident, $t:ty, $kind:expr, $bits:expr) => {
            fn $name(self, v: $t) -> Result<Rec, DErr> {
                if unsafe { SER_FAIL } { return Err(DErr::Inner); }
                if self.depth == 1 { let f: fn($t) -> u128 = $bits; Ok(Rec { prim_kind: $kind, bits: f(v), ..EMPTY }) } else { Ok(Rec { other_calls: 1, ..EMPTY }) }
            }
        };
    }
    impl Serializer for RecSer {
        type Ok = Rec;
        type Error = DErr;
        type SerializeSeq = ser::Impossible<Rec, DErr>;
        type SerializeTuple = ser::Impossible<Rec, DErr>;
        type SerializeTupleStruct = ser::Impossible<Rec, DErr>;
        type SerializeTupleVariant = ser::Impossible<Rec, DErr>;
        type SerializeMap = ser::Impossible<Rec, DErr>;
        type SerializeStruct = ser::Impossible<Rec, DErr>;
        type SerializeStructVariant = ser::Impossible<Rec, DErr>;
        ser_prim!(serialize_i8, i8, 1, |v| v as u8 as u128);
        ser_prim!(serialize_i16, i16, 2, |v| v as u16 as u128);
        ser_prim!(serialize_i32, i32, 3, |v| v as u32 as u128);
        ser_prim!(serialize_i64, i64, 4, |v| v as u64 as u128);
        ser_prim!(serialize_i128, i128, 5, |v| v as u128);
        ser_prim!(serialize_u8, u8, 6, |v| v as u128);
        ser_prim!(serialize_u16, u16, 7, |v| v as u128);
        ser_prim!(serialize_u32, u32, 8, |v| v as u128);
        ser_prim!(serialize_u64, u64, 9, |v| v as u128);
        ser_prim!(serialize_u128, u128, 10, |v| v);
        ser_prim!(serialize_f32, f32, 11, |v| v.to_bits() as u128);
        ser_prim!(serialize_f64, f64, 12, |v| v.to_bits() as u128);
        ser_prim!(serialize_bool, bool, 13, |v| v as u128);
        ser_prim!(serialize_char, char, 14, |v| v as u128);
        fn serialize_str(self, v: &str) -> Result<Rec, DErr> {
            if unsafe { SER_FAIL } { return Err(DErr::Inner); }
            unsafe { LAST_STR = Some(v.to_string()); }
            let b = v.as_bytes();
            let mut acc: u128 = b.len() as u128;
            let mut i = 0;
            while i < b.len() && i < 8 { acc = acc * 257 + b[i] as u128; i += 1; }
            if self.depth == 1 { Ok(Rec { prim_kind: 15, bits: acc, ..EMPTY }) } else { Ok(Rec { other_calls: 1, ..EMPTY }) }
        }
        fn serialize_bytes(self, _v: &[u8]) -> Result<Rec, DErr> { Ok(Rec { other_calls: 1, ..EMPTY }) }
        fn serialize_none(self) -> Result<Rec, DErr> { Ok(Rec { other_calls: 1, ..EMPTY }) }
        fn serialize_some<T: ?Sized + Serialize>(self, _value: &T) -> Result<Rec, DErr> { Ok(Rec { other_calls: 1, ..EMPTY }) }
        fn serialize_unit(self) -> Result<Rec, DErr> { Ok(Rec { other_calls: 1, ..EMPTY }) }
        fn serialize_unit_struct(self, _name: &'static str) -> Result<Rec, DErr> { Ok(Rec { other_calls: 1, ..EMPTY }) }
        fn serialize_unit_variant(self, _name: &'static str, _i: u32, _v: &'static str) -> Result<Rec, DErr> { Ok(Rec { other_calls: 1, ..EMPTY }) }
        fn serialize_newtype_struct<T: ?Sized + Serialize>(self, name: &'static str, value: &T) -> Result<Rec, DErr> {
            if self.depth != 0 { return Ok(Rec { other_calls: 1, ..EMPTY }); }
            let inner = value.serialize(RecSer { depth: 1 })?;
            Ok(Rec { newtype_calls: 1, name_ok: name == unsafe { EXPECT_NAME }, ..inner })
        }
        fn serialize_newtype_variant<T: ?Sized + Serialize>(self, _name: &'static str, _i: u32, _v: &'static str, _value: &T) -> Result<Rec, DErr> { Ok(Rec { other_calls: 1, ..EMPTY }) }
        fn serialize_seq(self, _len: Option<usize>) -> Result<Self::SerializeSeq, DErr> { Err(DErr::Other) }
        fn serialize_tuple(self, _len: usize) -> Result<Self::SerializeTuple, DErr> { Err(DErr::Other) }
        fn serialize_tuple_struct(self, _name: &'static str, _len: usize) -> Result<Self::SerializeTupleStruct, DErr> { Err(DErr::Other) }
        fn serialize_tuple_variant(self, _name: &'static str, _i: u32, _v: &'static str, _len: usize) -> Result<Self::SerializeTupleVariant, DErr> { Err(DErr::Other) }
        fn serialize_map(self, _len: Option<usize>) -> Result<Self::SerializeMap, DErr> { Err(DErr::Other) }
        fn serialize_struct(self, _name: &'static str, _len: usize) -> Result<Self::SerializeStruct, DErr> { Err(DErr::Other) }
        fn serialize_struct_variant(self, _name: &'static str, _i: u32, _v: &'static str, _len: usize) -> Result<Self::SerializeStructVariant, DErr> { Err(DErr::Other) }
    }
}
pub static mut P_CALLS: usize = 0;
pub static mut P_PTR: usize = 0;
pub static mut P_LEN: usize = 0;
pub static mut P_OK: bool = true;
pub static mut P_ERR_SEL: u8 = 0;
pub static mut P_VAL_F32: f32 = 0 as f32;
pub fn parse_err_f32() -> core::num::ParseFloatError { unsafe { if P_ERR_SEL == 0 { "".parse::<f64>().unwrap_err() } else { "x".parse::<f64>().unwrap_err() } } }
pub fn stub_parse_f32(s: &str) -> Result<f32, core::num::ParseFloatError> { unsafe { P_CALLS += 1; P_PTR = s.as_ptr() as usize; P_LEN = s.len(); if P_OK { Ok(P_VAL_F32) } else { Err(parse_err_f32()) } } }
pub static mut P_VAL_F64: f64 = 0 as f64;
pub fn parse_err_f64() -> core::num::ParseFloatError { unsafe { if P_ERR_SEL == 0 { "".parse::<f32>().unwrap_err() } else { "x".parse::<f32>().unwrap_err() } } }
pub fn stub_parse_f64(s: &str) -> Result<f64, core::num::ParseFloatError> { unsafe { P_CALLS += 1; P_PTR = s.as_ptr() as usize; P_LEN = s.len(); if P_OK { Ok(P_VAL_F64) } else { Err(parse_err_f64()) } } }
pub static mut P_VAL_I32: i32 = 0 as i32;
pub fn parse_err_i32() -> core::num::ParseIntError { unsafe { if P_ERR_SEL == 0 { "".parse::<u8>().unwrap_err() } else if P_ERR_SEL == 1 { "x".parse::<u8>().unwrap_err() } else { "99999999999999999999999999999999999999999999".parse::<u8>().unwrap_err() } } }
pub fn stub_parse_i32(s: &str) -> Result<i32, core::num::ParseIntError> { unsafe { P_CALLS += 1; P_PTR = s.as_ptr() as usize; P_LEN = s.len(); if P_OK { Ok(P_VAL_I32) } else { Err(parse_err_i32()) } } }
pub static mut P_VAL_I64: i64 = 0 as i64;
pub fn parse_err_i64() -> core::num::ParseIntError { unsafe { if P_ERR_SEL == 0 { "".parse::<u8>().unwrap_err() } else if P_ERR_SEL == 1 { "x".parse::<u8>().unwrap_err() } else { "99999999999999999999999999999999999999999999".parse::<u8>().unwrap_err() } } }
pub fn stub_parse_i64(s: &str) -> Result<i64, core::num::ParseIntError> { unsafe { P_CALLS += 1; P_PTR = s.as_ptr() as usize; P_LEN = s.len(); if P_OK { Ok(P_VAL_I64) } else { Err(parse_err_i64()) } } }
pub static mut P_VAL_U8: u8 = 0 as u8;
pub fn parse_err_u8() -> core::num::ParseIntError { unsafe { if P_ERR_SEL == 0 { "".parse::<i64>().unwrap_err() } else if P_ERR_SEL == 1 { "x".parse::<i64>().unwrap_err() } else { "99999999999999999999999999999999999999999999".parse::<i64>().unwrap_err() } } }
pub fn stub_parse_u8(s: &str) -> Result<u8, core::num::ParseIntError> { unsafe { P_CALLS += 1; P_PTR = s.as_ptr() as usize; P_LEN = s.len(); if P_OK { Ok(P_VAL_U8) } else { Err(parse_err_u8()) } } }
#[cfg(kani)]
mod harness {
    use super::*;
    #[kani::proof]
    fn k_grd_i32_val__guards_run__TryFrom() {
        unsafe { SYM_LO_I32 = kani::any(); }
        unsafe { SYM_HI_I32 = kani::any(); }
        let raw: i32 = kani::any();
        let got = <GrdI32Val as ::core::convert::TryFrom<i32>>::try_from(raw).ok();
        if let Some(v) = got { let i = v.into_inner(); assert!(ref_grd_i32_val::valid(&i), "a value obtained through TryFrom satisfies every declared validator");
            assert!(i == ref_grd_i32_val::sanitize(raw), "the stored value went through the declared sanitizers");
        }

        kani::cover!(true, "reached");
    }
    #[kani::proof]
    #[kani::stub(<i32 as ::core::str::FromStr>::from_str, stub_parse_i32)]
    fn k_grd_i32_val__guards_run__FromStr() {
        unsafe { SYM_LO_I32 = kani::any(); }
        unsafe { SYM_HI_I32 = kani::any(); }
        let raw: i32 = kani::any();
        unsafe { P_OK = true; P_VAL_I32 = raw; P_CALLS = 0; }
        let got = <GrdI32Val as ::core::str::FromStr>::from_str("?").ok();
        if let Some(v) = got { let i = v.into_inner(); assert!(ref_grd_i32_val::valid(&i), "a value obtained through FromStr satisfies every declared validator");
            assert!(i == ref_grd_i32_val::sanitize(raw), "the stored value went through the declared sanitizers");
        }

        kani::cover!(true, "reached");
    }
    #[kani::proof]
    fn k_grd_i32_val__guards_run__Deserialize() {
        unsafe { SYM_LO_I32 = kani::any(); }
        unsafe { SYM_HI_I32 = kani::any(); }
        let raw: i32 = kani::any();
        unsafe { sfmt::EXPECT_NAME = "GrdI32Val"; }
        let mode: u8 = kani::any();
        let got = <GrdI32Val as serde::Deserialize>::deserialize(sfmt::Fmt { v: raw, ok: true, mode }).ok();
        if let Some(v) = got { let i = v.into_inner(); assert!(ref_grd_i32_val::valid(&i), "a value obtained through Deserialize satisfies every declared validator");
            assert!(i == ref_grd_i32_val::sanitize(raw), "the stored value went through the declared sanitizers");
        }

        kani::cover!(true, "reached");
    }
    #[kani::proof]
    #[kani::unwind(8)]
    fn k_grd_i32_val__guards_run__Arbitrary() {
        unsafe { SYM_LO_I32 = kani::any(); }
        unsafe { SYM_HI_I32 = kani::any(); }
        let mut vmin: Option<i32> = Some(i32::MIN); let mut vmax: Option<i32> = Some(i32::MAX);
        { let b: i32 = sym_lo_i32(); vmin = vmin.map(|a| if a > b { a } else { b }); }
        { let c: Option<i32> = (sym_hi_i32()).checked_sub(1); vmax = match (vmax, c) { (Some(a), Some(b)) => Some(if a < b { a } else { b }), _ => None }; }
        kani::assume(vmin.is_some() && vmax.is_some() && vmin.unwrap() <= vmax.unwrap());   // the valid set is non-empty
        let bytes: [u8; 5] = kani::any();
        let len: usize = kani::any();
        kani::assume(len <= 5);
        let mut u = arbitrary::Unstructured::new(&bytes[..len]);
        let got = <GrdI32Val as arbitrary::Arbitrary>::arbitrary(&mut u).ok();
        if let Some(v) = got { let i = v.into_inner(); assert!(ref_grd_i32_val::valid(&i), "a value obtained through Arbitrary satisfies every declared validator");
        }

        kani::cover!(true, "reached");
    }
    #[kani::proof]
    fn k_grd_i32_san_val__guards_run__TryFrom() {
        unsafe { SYM_LO_I32 = kani::any(); }
        unsafe { SYM_HI_I32 = kani::any(); }
        let raw: i32 = kani::any();
        let got = <GrdI32SanVal as ::core::convert::TryFrom<i32>>::try_from(raw).ok();
        if let Some(v) = got { let i = v.into_inner(); assert!(ref_grd_i32_san_val::valid(&i), "a value obtained through TryFrom satisfies every declared validator");
            assert!(i == ref_grd_i32_san_val::sanitize(raw), "the stored value went through the declared sanitizers");
        }

        kani::cover!(true, "reached");
    }
    #[kani::proof]
    #[kani::stub(<i32 as ::core::str::FromStr>::from_str, stub_parse_i32)]
    fn k_grd_i32_san_val__guards_run__FromStr() {
        unsafe { SYM_LO_I32 = kani::any(); }
        unsafe { SYM_HI_I32 = kani::any(); }
        let raw: i32 = kani::any();
        unsafe { P_OK = true; P_VAL_I32 = raw; P_CALLS = 0; }
        let got = <GrdI32SanVal as ::core::str::FromStr>::from_str("?").ok();
        if let Some(v) = got { let i = v.into_inner(); assert!(ref_grd_i32_san_val::valid(&i), "a value obtained through FromStr satisfies every declared validator");
            assert!(i == ref_grd_i32_san_val::sanitize(raw), "the stored value went through the declared sanitizers");
        }

        kani::cover!(true, "reached");
    }
    #[kani::proof]
    fn k_grd_i32_san_val__guards_run__Deserialize() {
        unsafe { SYM_LO_I32 = kani::any(); }
        unsafe { SYM_HI_I32 = kani::any(); }
        let raw: i32 = kani::any();
        unsafe { sfmt::EXPECT_NAME = "GrdI32SanVal"; }
        let mode: u8 = kani::any();
        let got = <GrdI32SanVal as serde::Deserialize>::deserialize(sfmt::Fmt { v: raw, ok: true, mode }).ok();
        if let Some(v) = got { let i = v.into_inner(); assert!(ref_grd_i32_san_val::valid(&i), "a value obtained through Deserialize satisfies every declared validator");
            assert!(i == ref_grd_i32_san_val::sanitize(raw), "the stored value went through the declared sanitizers");
        }

        kani::cover!(true, "reached");
    }
    #[kani::proof]
    fn k_grd_i32_san_nov__guards_run__TryFrom() {
        let raw: i32 = kani::any();
        let got = <GrdI32SanNov as ::core::convert::TryFrom<i32>>::try_from(raw).ok();
        if let Some(v) = got { let i = v.into_inner(); assert!(ref_grd_i32_san_nov::valid(&i), "a value obtained through TryFrom satisfies every declared validator");
            assert!(i == ref_grd_i32_san_nov::sanitize(raw), "the stored value went through the declared sanitizers");
        }

        kani::cover!(true, "reached");
    }
    #[kani::proof]
    #[kani::stub(<i32 as ::core::str::FromStr>::from_str, stub_parse_i32)]
    fn k_grd_i32_san_nov__guards_run__FromStr() {
        let raw: i32 = kani::any();
        unsafe { P_OK = true; P_VAL_I32 = raw; P_CALLS = 0; }
        let got = <GrdI32SanNov as ::core::str::FromStr>::from_str("?").ok();
        if let Some(v) = got { let i = v.into_inner(); assert!(ref_grd_i32_san_nov::valid(&i), "a value obtained through FromStr satisfies every declared validator");
            assert!(i == ref_grd_i32_san_nov::sanitize(raw), "the stored value went through the declared sanitizers");
        }

        kani::cover!(true, "reached");
    }
    #[kani::proof]
    fn k_grd_i32_san_nov__guards_run__Deserialize() {
        let raw: i32 = kani::any();
        unsafe { sfmt::EXPECT_NAME = "GrdI32SanNov"; }
        let mode: u8 = kani::any();
        let got = <GrdI32SanNov as serde::Deserialize>::deserialize(sfmt::Fmt { v: raw, ok: true, mode }).ok();
        if let Some(v) = got { let i = v.into_inner(); assert!(ref_grd_i32_san_nov::valid(&i), "a value obtained through Deserialize satisfies every declared validator");
            assert!(i == ref_grd_i32_san_nov::sanitize(raw), "the stored value went through the declared sanitizers");
        }

        kani::cover!(true, "reached");
    }
    #[kani::proof]
    fn k_grd_i32_san3_val__guards_run__TryFrom() {
        unsafe { SYM_LO_I32 = kani::any(); }
        unsafe { SYM_HI_I32 = kani::any(); }
        let raw: i32 = kani::any();
        let got = <GrdI32San3Val as ::core::convert::TryFrom<i32>>::try_from(raw).ok();
        if let Some(v) = got { let i = v.into_inner(); assert!(ref_grd_i32_san3_val::valid(&i), "a value obtained through TryFrom satisfies every declared validator");
            assert!(i == ref_grd_i32_san3_val::sanitize(raw), "the stored value went through the declared sanitizers");
        }

        kani::cover!(true, "reached");
    }
    #[kani::proof]
    #[kani::stub(<i32 as ::core::str::FromStr>::from_str, stub_parse_i32)]
    fn k_grd_i32_san3_val__guards_run__FromStr() {
        unsafe { SYM_LO_I32 = kani::any(); }
        unsafe { SYM_HI_I32 = kani::any(); }
        let raw: i32 = kani::any();
        unsafe { P_OK = true; P_VAL_I32 = raw; P_CALLS = 0; }
        let got = <GrdI32San3Val as ::core::str::FromStr>::from_str("?").ok();
        if let Some(v) = got { let i = v.into_inner(); assert!(ref_grd_i32_san3_val::valid(&i), "a value obtained through FromStr satisfies every declared validator");
            assert!(i == ref_grd_i32_san3_val::sanitize(raw), "the stored value went through the declared sanitizers");
        }

        kani::cover!(true, "reached");
    }
    #[kani::proof]
    fn k_grd_i32_san3_val__guards_run__Deserialize() {
        unsafe { SYM_LO_I32 = kani::any(); }
        unsafe { SYM_HI_I32 = kani::any(); }
        let raw: i32 = kani::any();
        unsafe { sfmt::EXPECT_NAME = "GrdI32San3Val"; }
        let mode: u8 = kani::any();
        let got = <GrdI32San3Val as serde::Deserialize>::deserialize(sfmt::Fmt { v: raw, ok: true, mode }).ok();
        if let Some(v) = got { let i = v.into_inner(); assert!(ref_grd_i32_san3_val::valid(&i), "a value obtained through Deserialize satisfies every declared validator");
            assert!(i == ref_grd_i32_san3_val::sanitize(raw), "the stored value went through the declared sanitizers");
        }

        kani::cover!(true, "reached");
    }
    #[kani::proof]
    fn k_grd_u8_val__guards_run__TryFrom() {
        unsafe { SYM_LO_U8 = kani::any(); }
        unsafe { SYM_HI_U8 = kani::any(); }
        let raw: u8 = kani::any();
        let got = <GrdU8Val as ::core::convert::TryFrom<u8>>::try_from(raw).ok();
        if let Some(v) = got { let i = v.into_inner(); assert!(ref_grd_u8_val::valid(&i), "a value obtained through TryFrom satisfies every declared validator");
            assert!(i == ref_grd_u8_val::sanitize(raw), "the stored value went through the declared sanitizers");
        }

        kani::cover!(true, "reached");
    }
    #[kani::proof]
    #[kani::stub(<u8 as ::core::str::FromStr>::from_str, stub_parse_u8)]
    fn k_grd_u8_val__guards_run__FromStr() {
        unsafe { SYM_LO_U8 = kani::any(); }
        unsafe { SYM_HI_U8 = kani::any(); }
        let raw: u8 = kani::any();
        unsafe { P_OK = true; P_VAL_U8 = raw; P_CALLS = 0; }
        let got = <GrdU8Val as ::core::str::FromStr>::from_str("?").ok();
        if let Some(v) = got { let i = v.into_inner(); assert!(ref_grd_u8_val::valid(&i), "a value obtained through FromStr satisfies every declared validator");
            assert!(i == ref_grd_u8_val::sanitize(raw), "the stored value went through the declared sanitizers");
        }

        kani::cover!(true, "reached");
    }
    #[kani::proof]
    fn k_grd_u8_val__guards_run__Deserialize() {
        unsafe { SYM_LO_U8 = kani::any(); }
        unsafe { SYM_HI_U8 = kani::any(); }
        let raw: u8 = kani::any();
        unsafe { sfmt::EXPECT_NAME = "GrdU8Val"; }
        let mode: u8 = kani::any();
        let got = <GrdU8Val as serde::Deserialize>::deserialize(sfmt::Fmt { v: raw, ok: true, mode }).ok();
        if let Some(v) = got { let i = v.into_inner(); assert!(ref_grd_u8_val::valid(&i), "a value obtained through Deserialize satisfies every declared validator");
            assert!(i == ref_grd_u8_val::sanitize(raw), "the stored value went through the declared sanitizers");
        }

        kani::cover!(true, "reached");
    }
    #[kani::proof]
    #[kani::unwind(5)]
    fn k_grd_u8_val__guards_run__Arbitrary() {
        unsafe { SYM_LO_U8 = kani::any(); }
        unsafe { SYM_HI_U8 = kani::any(); }
        let mut vmin: Option<u8> = Some(u8::MIN); let mut vmax: Option<u8> = Some(u8::MAX);
        { let b: u8 = sym_lo_u8(); vmin = vmin.map(|a| if a > b { a } else { b }); }
        { let c: Option<u8> = (sym_hi_u8()).checked_sub(1); vmax = match (vmax, c) { (Some(a), Some(b)) => Some(if a < b { a } else { b }), _ => None }; }
        kani::assume(vmin.is_some() && vmax.is_some() && vmin.unwrap() <= vmax.unwrap());   // the valid set is non-empty
        let bytes: [u8; 2] = kani::any();
        let len: usize = kani::any();
        kani::assume(len <= 2);
        let mut u = arbitrary::Unstructured::new(&bytes[..len]);
        let got = <GrdU8Val as arbitrary::Arbitrary>::arbitrary(&mut u).ok();
        if let Some(v) = got { let i = v.into_inner(); assert!(ref_grd_u8_val::valid(&i), "a value obtained through Arbitrary satisfies every declared validator");
        }

        kani::cover!(true, "reached");
    }
    #[kani::proof]
    fn k_grd_u8_san_val__guards_run__TryFrom() {
        unsafe { SYM_LO_U8 = kani::any(); }
        unsafe { SYM_HI_U8 = kani::any(); }
        let raw: u8 = kani::any();
        let got = <GrdU8SanVal as ::core::convert::TryFrom<u8>>::try_from(raw).ok();
        if let Some(v) = got { let i = v.into_inner(); assert!(ref_grd_u8_san_val::valid(&i), "a value obtained through TryFrom satisfies every declared validator");
            assert!(i == ref_grd_u8_san_val::sanitize(raw), "the stored value went through the declared sanitizers");
        }

        kani::cover!(true, "reached");
    }
    #[kani::proof]
    #[kani::stub(<u8 as ::core::str::FromStr>::from_str, stub_parse_u8)]
    fn k_grd_u8_san_val__guards_run__FromStr() {
        unsafe { SYM_LO_U8 = kani::any(); }
        unsafe { SYM_HI_U8 = kani::any(); }
        let raw: u8 = kani::any();
        unsafe { P_OK = true; P_VAL_U8 = raw; P_CALLS = 0; }
        let got = <GrdU8SanVal as ::core::str::FromStr>::from_str("?").ok();
        if let Some(v) = got { let i = v.into_inner(); assert!(ref_grd_u8_san_val::valid(&i), "a value obtained through FromStr satisfies every declared validator");
            assert!(i == ref_grd_u8_san_val::sanitize(raw), "the stored value went through the declared sanitizers");
        }

        kani::cover!(true, "reached");
    }
    #[kani::proof]
    fn k_grd_u8_san_val__guards_run__Deserialize() {
        unsafe { SYM_LO_U8 = kani::any(); }
        unsafe { SYM_HI_U8 = kani::any(); }
        let raw: u8 = kani::any();
        unsafe { sfmt::EXPECT_NAME = "GrdU8SanVal"; }
        let mode: u8 = kani::any();
        let got = <GrdU8SanVal as serde::Deserialize>::deserialize(sfmt::Fmt { v: raw, ok: true, mode }).ok();
        if let Some(v) = got { let i = v.into_inner(); assert!(ref_grd_u8_san_val::valid(&i), "a value obtained through Deserialize satisfies every declared validator");
            assert!(i == ref_grd_u8_san_val::sanitize(raw), "the stored value went through the declared sanitizers");
        }

        kani::cover!(true, "reached");
    }
    #[kani::proof]
    fn k_grd_u8_san_nov__guards_run__TryFrom() {
        let raw: u8 = kani::any();
        let got = <GrdU8SanNov as ::core::convert::TryFrom<u8>>::try_from(raw).ok();
        if let Some(v) = got { let i = v.into_inner(); assert!(ref_grd_u8_san_nov::valid(&i), "a value obtained through TryFrom satisfies every declared validator");
            assert!(i == ref_grd_u8_san_nov::sanitize(raw), "the stored value went through the declared sanitizers");
        }

        kani::cover!(true, "reached");
    }
    #[kani::proof]
    #[kani::stub(<u8 as ::core::str::FromStr>::from_str, stub_parse_u8)]
    fn k_grd_u8_san_nov__guards_run__FromStr() {
        let raw: u8 = kani::any();
        unsafe { P_OK = true; P_VAL_U8 = raw; P_CALLS = 0; }
        let got = <GrdU8SanNov as ::core::str::FromStr>::from_str("?").ok();
        if let Some(v) = got { let i = v.into_inner(); assert!(ref_grd_u8_san_nov::valid(&i), "a value obtained through FromStr satisfies every declared validator");
            assert!(i == ref_grd_u8_san_nov::sanitize(raw), "the stored value went through the declared sanitizers");
        }

        kani::cover!(true, "reached");
    }
    #[kani::proof]
    fn k_grd_u8_san_nov__guards_run__Deserialize() {
        let raw: u8 = kani::any();
        unsafe { sfmt::EXPECT_NAME = "GrdU8SanNov"; }
        let mode: u8 = kani::any();
        let got = <GrdU8SanNov as serde::Deserialize>::deserialize(sfmt::Fmt { v: raw, ok: true, mode }).ok();
        if let Some(v) = got { let i = v.into_inner(); assert!(ref_grd_u8_san_nov::valid(&i), "a value obtained through Deserialize satisfies every declared validator");
            assert!(i == ref_grd_u8_san_nov::sanitize(raw), "the stored value went through the declared sanitizers");
        }

        kani::cover!(true, "reached");
    }
    #[kani::proof]
    fn k_grd_u8_san3_val__guards_run__TryFrom() {
        unsafe { SYM_LO_U8 = kani::any(); }
        unsafe { SYM_HI_U8 = kani::any(); }
        let raw: u8 = kani::any();
        let got = <GrdU8San3Val as ::core::convert::TryFrom<u8>>::try_from(raw).ok();
        if let Some(v) = got { let i = v.into_inner(); assert!(ref_grd_u8_san3_val::valid(&i), "a value obtained through TryFrom satisfies every declared validator");
            assert!(i == ref_grd_u8_san3_val::sanitize(raw), "the stored value went through the declared sanitizers");
        }

        kani::cover!(true, "reached");
    }
    #[kani::proof]
    #[kani::stub(<u8 as ::core::str::FromStr>::from_str, stub_parse_u8)]
    fn k_grd_u8_san3_val__guards_run__FromStr() {
        unsafe { SYM_LO_U8 = kani::any(); }
        unsafe { SYM_HI_U8 = kani::any(); }
        let raw: u8 = kani::any();
        unsafe { P_OK = true; P_VAL_U8 = raw; P_CALLS = 0; }
        let got = <GrdU8San3Val as ::core::str::FromStr>::from_str("?").ok();
        if let Some(v) = got { let i = v.into_inner(); assert!(ref_grd_u8_san3_val::valid(&i), "a value obtained through FromStr satisfies every declared validator");
            assert!(i == ref_grd_u8_san3_val::sanitize(raw), "the stored value went through the declared sanitizers");
        }

        kani::cover!(true, "reached");
    }
    #[kani::proof]
    fn k_grd_u8_san3_val__guards_run__Deserialize() {
        unsafe { SYM_LO_U8 = kani::any(); }
        unsafe { SYM_HI_U8 = kani::any(); }
        let raw: u8 = kani::any();
        unsafe { sfmt::EXPECT_NAME = "GrdU8San3Val"; }
        let mode: u8 = kani::any();
        let got = <GrdU8San3Val as serde::Deserialize>::deserialize(sfmt::Fmt { v: raw, ok: true, mode }).ok();
        if let Some(v) = got { let i = v.into_inner(); assert!(ref_grd_u8_san3_val::valid(&i), "a value obtained through Deserialize satisfies every declared validator");
            assert!(i == ref_grd_u8_san3_val::sanitize(raw), "the stored value went through the declared sanitizers");
        }

        kani::cover!(true, "reached");
    }
    #[kani::proof]
    fn k_grd_i64_val__guards_run__TryFrom() {
        unsafe { SYM_LO_I64 = kani::any(); }
        unsafe { SYM_HI_I64 = kani::any(); }
        let raw: i64 = kani::any();
        let got = <GrdI64Val as ::core::convert::TryFrom<i64>>::try_from(raw).ok();
        if let Some(v) = got { let i = v.into_inner(); assert!(ref_grd_i64_val::valid(&i), "a value obtained through TryFrom satisfies every declared validator");
            assert!(i == ref_grd_i64_val::sanitize(raw), "the stored value went through the declared sanitizers");
        }

        kani::cover!(true, "reached");
    }
    #[kani::proof]
    #[kani::stub(<i64 as ::core::str::FromStr>::from_str, stub_parse_i64)]
    fn k_grd_i64_val__guards_run__FromStr() {
        unsafe { SYM_LO_I64 = kani::any(); }
        unsafe { SYM_HI_I64 = kani::any(); }
        let raw: i64 = kani::any();
        unsafe { P_OK = true; P_VAL_I64 = raw; P_CALLS = 0; }
        let got = <GrdI64Val as ::core::str::FromStr>::from_str("?").ok();
        if let Some(v) = got { let i = v.into_inner(); assert!(ref_grd_i64_val::valid(&i), "a value obtained through FromStr satisfies every declared validator");
            assert!(i == ref_grd_i64_val::sanitize(raw), "the stored value went through the declared sanitizers");
        }

        kani::cover!(true, "reached");
    }
    #[kani::proof]
    fn k_grd_i64_val__guards_run__Deserialize() {
        unsafe { SYM_LO_I64 = kani::any(); }
        unsafe { SYM_HI_I64 = kani::any(); }
        let raw: i64 = kani::any();
        unsafe { sfmt::EXPECT_NAME = "GrdI64Val"; }
        let mode: u8 = kani::any();
        let got = <GrdI64Val as serde::Deserialize>::deserialize(sfmt::Fmt { v: raw, ok: true, mode }).ok();
        if let Some(v) = got { let i = v.into_inner(); assert!(ref_grd_i64_val::valid(&i), "a value obtained through Deserialize satisfies every declared validator");
            assert!(i == ref_grd_i64_val::sanitize(raw), "the stored value went through the declared sanitizers");
        }

        kani::cover!(true, "reached");
    }
    #[kani::proof]
    #[kani::unwind(12)]
    fn k_grd_i64_val__guards_run__Arbitrary() {
        unsafe { SYM_LO_I64 = kani::any(); }
        unsafe { SYM_HI_I64 = kani::any(); }
        let mut vmin: Option<i64> = Some(i64::MIN); let mut vmax: Option<i64> = Some(i64::MAX);
        { let b: i64 = sym_lo_i64(); vmin = vmin.map(|a| if a > b { a } else { b }); }
        { let c: Option<i64> = (sym_hi_i64()).checked_sub(1); vmax = match (vmax, c) { (Some(a), Some(b)) => Some(if a < b { a } else { b }), _ => None }; }
        kani::assume(vmin.is_some() && vmax.is_some() && vmin.unwrap() <= vmax.unwrap());   // the valid set is non-empty
        let bytes: [u8; 9] = kani::any();
        let len: usize = kani::any();
        kani::assume(len <= 9);
        let mut u = arbitrary::Unstructured::new(&bytes[..len]);
        let got = <GrdI64Val as arbitrary::Arbitrary>::arbitrary(&mut u).ok();
        if let Some(v) = got { let i = v.into_inner(); assert!(ref_grd_i64_val::valid(&i), "a value obtained through Arbitrary satisfies every declared validator");
        }

        kani::cover!(true, "reached");
    }
    #[kani::proof]
    fn k_grd_i64_san_val__guards_run__TryFrom() {
        unsafe { SYM_LO_I64 = kani::any(); }
        unsafe { SYM_HI_I64 = kani::any(); }
        let raw: i64 = kani::any();
        let got = <GrdI64SanVal as ::core::convert::TryFrom<i64>>::try_from(raw).ok();
        if let Some(v) = got { let i = v.into_inner(); assert!(ref_grd_i64_san_val::valid(&i), "a value obtained through TryFrom satisfies every declared validator");
            assert!(i == ref_grd_i64_san_val::sanitize(raw), "the stored value went through the declared sanitizers");
        }

        kani::cover!(true, "reached");
    }
    #[kani::proof]
    #[kani::stub(<i64 as ::core::str::FromStr>::from_str, stub_parse_i64)]
    fn k_grd_i64_san_val__guards_run__FromStr() {
        unsafe { SYM_LO_I64 = kani::any(); }
        unsafe { SYM_HI_I64 = kani::any(); }
        let raw: i64 = kani::any();
        unsafe { P_OK = true; P_VAL_I64 = raw; P_CALLS = 0; }
        let got = <GrdI64SanVal as ::core::str::FromStr>::from_str("?").ok();
        if let Some(v) = got { let i = v.into_inner(); assert!(ref_grd_i64_san_val::valid(&i), "a value obtained through FromStr satisfies every declared validator");
            assert!(i == ref_grd_i64_san_val::sanitize(raw), "the stored value went through the declared sanitizers");
        }

        kani::cover!(true, "reached");
    }
    #[kani::proof]
    fn k_grd_i64_san_val__guards_run__Deserialize() {
        unsafe { SYM_LO_I64 = kani::any(); }
        unsafe { SYM_HI_I64 = kani::any(); }
        let raw: i64 = kani::any();
        unsafe { sfmt::EXPECT_NAME = "GrdI64SanVal"; }
        let mode: u8 = kani::any();
        let got = <GrdI64SanVal as serde::Deserialize>::deserialize(sfmt::Fmt { v: raw, ok: true, mode }).ok();
        if let Some(v) = got { let i = v.into_inner(); assert!(ref_grd_i64_san_val::valid(&i), "a value obtained through Deserialize satisfies every declared validator");
            assert!(i == ref_grd_i64_san_val::sanitize(raw), "the stored value went through the declared sanitizers");
        }

        kani::cover!(true, "reached");
    }
    #[kani::proof]
    fn k_grd_i64_san_nov__guards_run__TryFrom() {
        let raw: i64 = kani::any();
        let got = <GrdI64SanNov as ::core::convert::TryFrom<i64>>::try_from(raw).ok();
        if let Some(v) = got { let i = v.into_inner(); assert!(ref_grd_i64_san_nov::valid(&i), "a value obtained through TryFrom satisfies every declared validator");
            assert!(i == ref_grd_i64_san_nov::sanitize(raw), "the stored value went through the declared sanitizers");
        }

        kani::cover!(true, "reached");
    }
    #[kani::proof]
    #[kani::stub(<i64 as ::core::str::FromStr>::from_str, stub_parse_i64)]
    fn k_grd_i64_san_nov__guards_run__FromStr() {
        let raw: i64 = kani::any();
        unsafe { P_OK = true; P_VAL_I64 = raw; P_CALLS = 0; }
        let got = <GrdI64SanNov as ::core::str::FromStr>::from_str("?").ok();
        if let Some(v) = got { let i = v.into_inner(); assert!(ref_grd_i64_san_nov::valid(&i), "a value obtained through FromStr satisfies every declared validator");
            assert!(i == ref_grd_i64_san_nov::sanitize(raw), "the stored value went through the declared sanitizers");
        }

        kani::cover!(true, "reached");
    }
    #[kani::proof]
    fn k_grd_i64_san_nov__guards_run__Deserialize() {
        let raw: i64 = kani::any();
        unsafe { sfmt::EXPECT_NAME = "GrdI64SanNov"; }
        let mode: u8 = kani::any();
        let got = <GrdI64SanNov as serde::Deserialize>::deserialize(sfmt::Fmt { v: raw, ok: true, mode }).ok();
        if let Some(v) = got { let i = v.into_inner(); assert!(ref_grd_i64_san_nov::valid(&i), "a value obtained through Deserialize satisfies every declared validator");
            assert!(i == ref_grd_i64_san_nov::sanitize(raw), "the stored value went through the declared sanitizers");
        }

        kani::cover!(true, "reached");
    }
    #[kani::proof]
    fn k_grd_i64_san3_val__guards_run__TryFrom() {
        unsafe { SYM_LO_I64 = kani::any(); }
        unsafe { SYM_HI_I64 = kani::any(); }
        let raw: i64 = kani::any();
        let got = <GrdI64San3Val as ::core::convert::TryFrom<i64>>::try_from(raw).ok();
        if let Some(v) = got { let i = v.into_inner(); assert!(ref_grd_i64_san3_val::valid(&i), "a value obtained through TryFrom satisfies every declared validator");
            assert!(i == ref_grd_i64_san3_val::sanitize(raw), "the stored value went through the declared sanitizers");
        }

        kani::cover!(true, "reached");
    }
    #[kani::proof]
    #[kani::stub(<i64 as ::core::str::FromStr>::from_str, stub_parse_i64)]
    fn k_grd_i64_san3_val__guards_run__FromStr() {
        unsafe { SYM_LO_I64 = kani::any(); }
        unsafe { SYM_HI_I64 = kani::any(); }
        let raw: i64 = kani::any();
        unsafe { P_OK = true; P_VAL_I64 = raw; P_CALLS = 0; }
        let got = <GrdI64San3Val as ::core::str::FromStr>::from_str("?").ok();
        if let Some(v) = got { let i = v.into_inner(); assert!(ref_grd_i64_san3_val::valid(&i), "a value obtained through FromStr satisfies every declared validator");
            assert!(i == ref_grd_i64_san3_val::sanitize(raw), "the stored value went through the declared sanitizers");
        }

        kani::cover!(true, "reached");
    }
    #[kani::proof]
    fn k_grd_i64_san3_val__guards_run__Deserialize() {
        unsafe { SYM_LO_I64 = kani::any(); }
        unsafe { SYM_HI_I64 = kani::any(); }
        let raw: i64 = kani::any();
        unsafe { sfmt::EXPECT_NAME = "GrdI64San3Val"; }
        let mode: u8 = kani::any();
        let got = <GrdI64San3Val as serde::Deserialize>::deserialize(sfmt::Fmt { v: raw, ok: true, mode }).ok();
        if let Some(v) = got { let i = v.into_inner(); assert!(ref_grd_i64_san3_val::valid(&i), "a value obtained through Deserialize satisfies every declared validator");
            assert!(i == ref_grd_i64_san3_val::sanitize(raw), "the stored value went through the declared sanitizers");
        }

        kani::cover!(true, "reached");
    }
    #[kani::proof]
    fn k_grd_f32_val__guards_run__TryFrom() {
        unsafe { SYM_LO_F32 = kani::any(); }
        unsafe { SYM_HI_F32 = kani::any(); }
        let raw: f32 = kani::any();
        let got = <GrdF32Val as ::core::convert::TryFrom<f32>>::try_from(raw).ok();
        if let Some(v) = got { let i = v.into_inner(); assert!(ref_grd_f32_val::valid(&i), "a value obtained through TryFrom satisfies every declared validator");
            assert!(i.to_bits() == ref_grd_f32_val::sanitize(raw).to_bits(), "the stored value went through the declared sanitizers");
        }

        kani::cover!(true, "reached");
    }
    #[kani::proof]
    #[kani::stub(<f32 as ::core::str::FromStr>::from_str, stub_parse_f32)]
    fn k_grd_f32_val__guards_run__FromStr() {
        unsafe { SYM_LO_F32 = kani::any(); }
        unsafe { SYM_HI_F32 = kani::any(); }
        let raw: f32 = kani::any();
        unsafe { P_OK = true; P_VAL_F32 = raw; P_CALLS = 0; }
        let got = <GrdF32Val as ::core::str::FromStr>::from_str("?").ok();
        if let Some(v) = got { let i = v.into_inner(); assert!(ref_grd_f32_val::valid(&i), "a value obtained through FromStr satisfies every declared validator");
            assert!(i.to_bits() == ref_grd_f32_val::sanitize(raw).to_bits(), "the stored value went through the declared sanitizers");
        }

        kani::cover!(true, "reached");
    }
    #[kani::proof]
    fn k_grd_f32_val__guards_run__Deserialize() {
        unsafe { SYM_LO_F32 = kani::any(); }
        unsafe { SYM_HI_F32 = kani::any(); }
        let raw: f32 = kani::any();
        unsafe { sfmt::EXPECT_NAME = "GrdF32Val"; }
        let mode: u8 = kani::any();
        let got = <GrdF32Val as serde::Deserialize>::deserialize(sfmt::Fmt { v: raw, ok: true, mode }).ok();
        if let Some(v) = got { let i = v.into_inner(); assert!(ref_grd_f32_val::valid(&i), "a value obtained through Deserialize satisfies every declared validator");
            assert!(i.to_bits() == ref_grd_f32_val::sanitize(raw).to_bits(), "the stored value went through the declared sanitizers");
        }

        kani::cover!(true, "reached");
    }
    #[kani::proof]
    #[kani::unwind(12)]
    fn k_grd_f32_val__guards_run__Arbitrary() {
        unsafe { SYM_LO_F32 = kani::any(); }
        unsafe { SYM_HI_F32 = kani::any(); }
        kani::assume(sym_lo_f32().is_finite() && sym_hi_f32().is_finite() && { let w: f32 = kani::any(); !w.is_nan() && ref_grd_f32_val::valid(&w) });
        let bytes: [u8; 9] = kani::any();
        let len: usize = kani::any();
        kani::assume(len <= 9);
        let mut u = arbitrary::Unstructured::new(&bytes[..len]);
        let got = <GrdF32Val as arbitrary::Arbitrary>::arbitrary(&mut u).ok();
        if let Some(v) = got { let i = v.into_inner(); assert!(ref_grd_f32_val::valid(&i), "a value obtained through Arbitrary satisfies every declared validator");
        }

        kani::cover!(true, "reached");
    }
    #[kani::proof]
    fn k_grd_f32_san_val__guards_run__TryFrom() {
        unsafe { SYM_LO_F32 = kani::any(); }
        unsafe { SYM_HI_F32 = kani::any(); }
        let raw: f32 = kani::any();
        let got = <GrdF32SanVal as ::core::convert::TryFrom<f32>>::try_from(raw).ok();
        if let Some(v) = got { let i = v.into_inner(); assert!(ref_grd_f32_san_val::valid(&i), "a value obtained through TryFrom satisfies every declared validator");
            assert!(i.to_bits() == ref_grd_f32_san_val::sanitize(raw).to_bits(), "the stored value went through the declared sanitizers");
        }

        kani::cover!(true, "reached");
    }
    #[kani::proof]
    #[kani::stub(<f32 as ::core::str::FromStr>::from_str, stub_parse_f32)]
    fn k_grd_f32_san_val__guards_run__FromStr() {
        unsafe { SYM_LO_F32 = kani::any(); }
        unsafe { SYM_HI_F32 = kani::any(); }
        let raw: f32 = kani::any();
        unsafe { P_OK = true; P_VAL_F32 = raw; P_CALLS = 0; }
        let got = <GrdF32SanVal as ::core::str::FromStr>::from_str("?").ok();
        if let Some(v) = got { let i = v.into_inner(); assert!(ref_grd_f32_san_val::valid(&i), "a value obtained through FromStr satisfies every declared validator");
            assert!(i.to_bits() == ref_grd_f32_san_val::sanitize(raw).to_bits(), "the stored value went through the declared sanitizers");
        }

        kani::cover!(true, "reached");
    }
    #[kani::proof]
    fn k_grd_f32_san_val__guards_run__Deserialize() {
        unsafe { SYM_LO_F32 = kani::any(); }
        unsafe { SYM_HI_F32 = kani::any(); }
        let raw: f32 = kani::any();
        unsafe { sfmt::EXPECT_NAME = "GrdF32SanVal"; }
        let mode: u8 = kani::any();
        let got = <GrdF32SanVal as serde::Deserialize>::deserialize(sfmt::Fmt { v: raw, ok: true, mode }).ok();
        if let Some(v) = got { let i = v.into_inner(); assert!(ref_grd_f32_san_val::valid(&i), "a value obtained through Deserialize satisfies every declared validator");
            assert!(i.to_bits() == ref_grd_f32_san_val::sanitize(raw).to_bits(), "the stored value went through the declared sanitizers");
        }

        kani::cover!(true, "reached");
    }
    #[kani::proof]
    fn k_grd_f32_san_nov__guards_run__TryFrom() {
        let raw: f32 = kani::any();
        let got = <GrdF32SanNov as ::core::convert::TryFrom<f32>>::try_from(raw).ok();
        if let Some(v) = got { let i = v.into_inner(); assert!(ref_grd_f32_san_nov::valid(&i), "a value obtained through TryFrom satisfies every declared validator");
            assert!(i.to_bits() == ref_grd_f32_san_nov::sanitize(raw).to_bits(), "the stored value went through the declared sanitizers");
        }

        kani::cover!(true, "reached");
    }
    #[kani::proof]
    #[kani::stub(<f32 as ::core::str::FromStr>::from_str, stub_parse_f32)]
    fn k_grd_f32_san_nov__guards_run__FromStr() {
        let raw: f32 = kani::any();
        unsafe { P_OK = true; P_VAL_F32 = raw; P_CALLS = 0; }
        let got = <GrdF32SanNov as ::core::str::FromStr>::from_str("?").ok();
        if let Some(v) = got { let i = v.into_inner(); assert!(ref_grd_f32_san_nov::valid(&i), "a value obtained through FromStr satisfies every declared validator");
            assert!(i.to_bits() == ref_grd_f32_san_nov::sanitize(raw).to_bits(), "the stored value went through the declared sanitizers");
        }

        kani::cover!(true, "reached");
    }
    #[kani::proof]
    fn k_grd_f32_san_nov__guards_run__Deserialize() {
        let raw: f32 = kani::any();
        unsafe { sfmt::EXPECT_NAME = "GrdF32SanNov"; }
        let mode: u8 = kani::any();
        let got = <GrdF32SanNov as serde::Deserialize>::deserialize(sfmt::Fmt { v: raw, ok: true, mode }).ok();
        if let Some(v) = got { let i = v.into_inner(); assert!(ref_grd_f32_san_nov::valid(&i), "a value obtained through Deserialize satisfies every declared validator");
            assert!(i.to_bits() == ref_grd_f32_san_nov::sanitize(raw).to_bits(), "the stored value went through the declared sanitizers");
        }

        kani::cover!(true, "reached");
    }
    #[kani::proof]
    fn k_grd_f32_san3_val__guards_run__TryFrom() {
        unsafe { SYM_LO_F32 = kani::any(); }
        unsafe { SYM_HI_F32 = kani::any(); }
        let raw: f32 = kani::any();
        let got = <GrdF32San3Val as ::core::convert::TryFrom<f32>>::try_from(raw).ok();
        if let Some(v) = got { let i = v.into_inner(); assert!(ref_grd_f32_san3_val::valid(&i), "a value obtained through TryFrom satisfies every declared validator");
            assert!(i.to_bits() == ref_grd_f32_san3_val::sanitize(raw).to_bits(), "the stored value went through the declared sanitizers");
        }

        kani::cover!(true, "reached");
    }
    #[kani::proof]
    #[kani::stub(<f32 as ::core::str::FromStr>::from_str, stub_parse_f32)]
    fn k_grd_f32_san3_val__guards_run__FromStr() {
        unsafe { SYM_LO_F32 = kani::any(); }
        unsafe { SYM_HI_F32 = kani::any(); }
        let raw: f32 = kani::any();
        unsafe { P_OK = true; P_VAL_F32 = raw; P_CALLS = 0; }
        let got = <GrdF32San3Val as ::core::str::FromStr>::from_str("?").ok();
        if let Some(v) = got { let i = v.into_inner(); assert!(ref_grd_f32_san3_val::valid(&i), "a value obtained through FromStr satisfies every declared validator");
            assert!(i.to_bits() == ref_grd_f32_san3_val::sanitize(raw).to_bits(), "the stored value went through the declared sanitizers");
        }

        kani::cover!(true, "reached");
    }
    #[kani::proof]
    fn k_grd_f32_san3_val__guards_run__Deserialize() {
        unsafe { SYM_LO_F32 = kani::any(); }
        unsafe { SYM_HI_F32 = kani::any(); }
        let raw: f32 = kani::any();
        unsafe { sfmt::EXPECT_NAME = "GrdF32San3Val"; }
        let mode: u8 = kani::any();
        let got = <GrdF32San3Val as serde::Deserialize>::deserialize(sfmt::Fmt { v: raw, ok: true, mode }).ok();
        if let Some(v) = got { let i = v.into_inner(); assert!(ref_grd_f32_san3_val::valid(&i), "a value obtained through Deserialize satisfies every declared validator");
            assert!(i.to_bits() == ref_grd_f32_san3_val::sanitize(raw).to_bits(), "the stored value went through the declared sanitizers");
        }

        kani::cover!(true, "reached");
    }
    #[kani::proof]
    fn k_grd_f64_val__guards_run__TryFrom() {
        unsafe { SYM_LO_F64 = kani::any(); }
        unsafe { SYM_HI_F64 = kani::any(); }
        let raw: f64 = kani::any();
        let got = <GrdF64Val as ::core::convert::TryFrom<f64>>::try_from(raw).ok();
        if let Some(v) = got { let i = v.into_inner(); assert!(ref_grd_f64_val::valid(&i), "a value obtained through TryFrom satisfies every declared validator");
            assert!(i.to_bits() == ref_grd_f64_val::sanitize(raw).to_bits(), "the stored value went through the declared sanitizers");
        }

        kani::cover!(true, "reached");
    }
    #[kani::proof]
    #[kani::stub(<f64 as ::core::str::FromStr>::from_str, stub_parse_f64)]
    fn k_grd_f64_val__guards_run__FromStr() {
        unsafe { SYM_LO_F64 = kani::any(); }
        unsafe { SYM_HI_F64 = kani::any(); }
        let raw: f64 = kani::any();
        unsafe { P_OK = true; P_VAL_F64 = raw; P_CALLS = 0; }
        let got = <GrdF64Val as ::core::str::FromStr>::from_str("?").ok();
        if let Some(v) = got { let i = v.into_inner(); assert!(ref_grd_f64_val::valid(&i), "a value obtained through FromStr satisfies every declared validator");
            assert!(i.to_bits() == ref_grd_f64_val::sanitize(raw).to_bits(), "the stored value went through the declared sanitizers");
        }

        kani::cover!(true, "reached");
    }
    #[kani::proof]
    fn k_grd_f64_val__guards_run__Deserialize() {
        unsafe { SYM_LO_F64 = kani::any(); }
        unsafe { SYM_HI_F64 = kani::any(); }
        let raw: f64 = kani::any();
        unsafe { sfmt::EXPECT_NAME = "GrdF64Val"; }
        let mode: u8 = kani::any();
        let got = <GrdF64Val as serde::Deserialize>::deserialize(sfmt::Fmt { v: raw, ok: true, mode }).ok();
        if let Some(v) = got { let i = v.into_inner(); assert!(ref_grd_f64_val::valid(&i), "a value obtained through Deserialize satisfies every declared validator");
            assert!(i.to_bits() == ref_grd_f64_val::sanitize(raw).to_bits(), "the stored value went through the declared sanitizers");
        }

        kani::cover!(true, "reached");
    }
    #[kani::proof]
    #[kani::unwind(20)]
    fn k_grd_f64_val__guards_run__Arbitrary() {
        unsafe { SYM_LO_F64 = kani::any(); }
        unsafe { SYM_HI_F64 = kani::any(); }
        kani::assume(sym_lo_f64().is_finite() && sym_hi_f64().is_finite() && { let w: f64 = kani::any(); !w.is_nan() && ref_grd_f64_val::valid(&w) });
        let bytes: [u8; 17] = kani::any();
        let len: usize = kani::any();
        kani::assume(len <= 17);
        let mut u = arbitrary::Unstructured::new(&bytes[..len]);
        let got = <GrdF64Val as arbitrary::Arbitrary>::arbitrary(&mut u).ok();
        if let Some(v) = got { let i = v.into_inner(); assert!(ref_grd_f64_val::valid(&i), "a value obtained through Arbitrary satisfies every declared validator");
        }

        kani::cover!(true, "reached");
    }
    #[kani::proof]
    fn k_grd_f64_san_val__guards_run__TryFrom() {
        unsafe { SYM_LO_F64 = kani::any(); }
        unsafe { SYM_HI_F64 = kani::any(); }
        let raw: f64 = kani::any();
        let got = <GrdF64SanVal as ::core::convert::TryFrom<f64>>::try_from(raw).ok();
        if let Some(v) = got { let i = v.into_inner(); assert!(ref_grd_f64_san_val::valid(&i), "a value obtained through TryFrom satisfies every declared validator");
            assert!(i.to_bits() == ref_grd_f64_san_val::sanitize(raw).to_bits(), "the stored value went through the declared sanitizers");
        }

        kani::cover!(true, "reached");
    }
    #[kani::proof]
    #[kani::stub(<f64 as ::core::str::FromStr>::from_str, stub_parse_f64)]
    fn k_grd_f64_san_val__guards_run__FromStr() {
        unsafe { SYM_LO_F64 = kani::any(); }
        unsafe { SYM_HI_F64 = kani::any(); }
        let raw: f64 = kani::any();
        unsafe { P_OK = true; P_VAL_F64 = raw; P_CALLS = 0; }
        let got = <GrdF64SanVal as ::core::str::FromStr>::from_str("?").ok();
        if let Some(v) = got { let i = v.into_inner(); assert!(ref_grd_f64_san_val::valid(&i), "a value obtained through FromStr satisfies every declared validator");
            assert!(i.to_bits() == ref_grd_f64_san_val::sanitize(raw).to_bits(), "the stored value went through the declared sanitizers");
        }

        kani::cover!(true, "reached");
    }
    #[kani::proof]
    fn k_grd_f64_san_val__guards_run__Deserialize() {
        unsafe { SYM_LO_F64 = kani::any(); }
        unsafe { SYM_HI_F64 = kani::any(); }
        let raw: f64 = kani::any();
        unsafe { sfmt::EXPECT_NAME = "GrdF64SanVal"; }
        let mode: u8 = kani::any();
        let got = <GrdF64SanVal as serde::Deserialize>::deserialize(sfmt::Fmt { v: raw, ok: true, mode }).ok();
        if let Some(v) = got { let i = v.into_inner(); assert!(ref_grd_f64_san_val::valid(&i), "a value obtained through Deserialize satisfies every declared validator");
            assert!(i.to_bits() == ref_grd_f64_san_val::sanitize(raw).to_bits(), "the stored value went through the declared sanitizers");
        }

        kani::cover!(true, "reached");
    }
    #[kani::proof]
    fn k_grd_f64_san_nov__guards_run__TryFrom() {
        let raw: f64 = kani::any();
        let got = <GrdF64SanNov as ::core::convert::TryFrom<f64>>::try_from(raw).ok();
        if let Some(v) = got { let i = v.into_inner(); assert!(ref_grd_f64_san_nov::valid(&i), "a value obtained through TryFrom satisfies every declared validator");
            assert!(i.to_bits() == ref_grd_f64_san_nov::sanitize(raw).to_bits(), "the stored value went through the declared sanitizers");
        }

        kani::cover!(true, "reached");
    }
    #[kani::proof]
    #[kani::stub(<f64 as ::core::str::FromStr>::from_str, stub_parse_f64)]
    fn k_grd_f64_san_nov__guards_run__FromStr() {
        let raw: f64 = kani::any();
        unsafe { P_OK = true; P_VAL_F64 = raw; P_CALLS = 0; }
        let got = <GrdF64SanNov as ::core::str::FromStr>::from_str("?").ok();
        if let Some(v) = got { let i = v.into_inner(); assert!(ref_grd_f64_san_nov::valid(&i), "a value obtained through FromStr satisfies every declared validator");
            assert!(i.to_bits() == ref_grd_f64_san_nov::sanitize(raw).to_bits(), "the stored value went through the declared sanitizers");
        }

        kani::cover!(true, "reached");
    }
    #[kani::proof]
    fn k_grd_f64_san_nov__guards_run__Deserialize() {
        let raw: f64 = kani::any();
        unsafe { sfmt::EXPECT_NAME = "GrdF64SanNov"; }
        let mode: u8 = kani::any();
        let got = <GrdF64SanNov as serde::Deserialize>::deserialize(sfmt::Fmt { v: raw, ok: true, mode }).ok();
        if let Some(v) = got { let i = v.into_inner(); assert!(ref_grd_f64_san_nov::valid(&i), "a value obtained through Deserialize satisfies every declared validator");
            assert!(i.to_bits() == ref_grd_f64_san_nov::sanitize(raw).to_bits(), "the stored value went through the declared sanitizers");
        }

        kani::cover!(true, "reached");
    }
    #[kani::proof]
    fn k_grd_f64_san3_val__guards_run__TryFrom() {
        unsafe { SYM_LO_F64 = kani::any(); }
        unsafe { SYM_HI_F64 = kani::any(); }
        let raw: f64 = kani::any();
        let got = <GrdF64San3Val as ::core::convert::TryFrom<f64>>::try_from(raw).ok();
        if let Some(v) = got { let i = v.into_inner(); assert!(ref_grd_f64_san3_val::valid(&i), "a value obtained through TryFrom satisfies every declared validator");
            assert!(i.to_bits() == ref_grd_f64_san3_val::sanitize(raw).to_bits(), "the stored value went through the declared sanitizers");
        }

        kani::cover!(true, "reached");
    }
    #[kani::proof]
    #[kani::stub(<f64 as ::core::str::FromStr>::from_str, stub_parse_f64)]
    fn k_grd_f64_san3_val__guards_run__FromStr() {
        unsafe { SYM_LO_F64 = kani::any(); }
        unsafe { SYM_HI_F64 = kani::any(); }
        let raw: f64 = kani::any();
        unsafe { P_OK = true; P_VAL_F64 = raw; P_CALLS = 0; }
        let got = <GrdF64San3Val as ::core::str::FromStr>::from_str("?").ok();
        if let Some(v) = got { let i = v.into_inner(); assert!(ref_grd_f64_san3_val::valid(&i), "a value obtained through FromStr satisfies every declared validator");
            assert!(i.to_bits() == ref_grd_f64_san3_val::sanitize(raw).to_bits(), "the stored value went through the declared sanitizers");
        }

        kani::cover!(true, "reached");
    }
    #[kani::proof]
    fn k_grd_f64_san3_val__guards_run__Deserialize() {
        unsafe { SYM_LO_F64 = kani::any(); }
        unsafe { SYM_HI_F64 = kani::any(); }
        let raw: f64 = kani::any();
        unsafe { sfmt::EXPECT_NAME = "GrdF64San3Val"; }
        let mode: u8 = kani::any();
        let got = <GrdF64San3Val as serde::Deserialize>::deserialize(sfmt::Fmt { v: raw, ok: true, mode }).ok();
        if let Some(v) = got { let i = v.into_inner(); assert!(ref_grd_f64_san3_val::valid(&i), "a value obtained through Deserialize satisfies every declared validator");
            assert!(i.to_bits() == ref_grd_f64_san3_val::sanitize(raw).to_bits(), "the stored value went through the declared sanitizers");
        }

        kani::cover!(true, "reached");
    }
    #[kani::proof]
    fn k_def_i32_valid__guards_run__Default() {
        { let dv: i32 = 5; kani::assume(ref_def_i32_valid::try_new(dv).is_ok()); }
        let i = <DefI32Valid as Default>::default().into_inner();
        assert!(ref_def_i32_valid::valid(&i), "Default::default() yields a valid value (or panics)");

        kani::cover!(true, "reached");
    }
    #[kani::proof]
    fn k_def_i32_sanitized__guards_run__Default() {
        { let dv: i32 = 77; kani::assume(ref_def_i32_sanitized::try_new(dv).is_ok()); }
        let i = <DefI32Sanitized as Default>::default().into_inner();
        assert!(ref_def_i32_sanitized::valid(&i), "Default::default() yields a valid value (or panics)");

        kani::cover!(true, "reached");
    }
    #[kani::proof]
    fn k_def_i32_symbolic_valid__guards_run__Default() {
        unsafe { SYM_LO_I32 = kani::any(); }
        unsafe { SYM_HI_I32 = kani::any(); }
        { let dv: i32 = sym_hi_i32(); kani::assume(ref_def_i32_symbolic_valid::try_new(dv).is_ok()); }
        let i = <DefI32SymbolicValid as Default>::default().into_inner();
        assert!(ref_def_i32_symbolic_valid::valid(&i), "Default::default() yields a valid value (or panics)");

        kani::cover!(true, "reached");
    }
    #[kani::proof]
    fn k_def_u8_valid__guards_run__Default() {
        { let dv: u8 = 5; kani::assume(ref_def_u8_valid::try_new(dv).is_ok()); }
        let i = <DefU8Valid as Default>::default().into_inner();
        assert!(ref_def_u8_valid::valid(&i), "Default::default() yields a valid value (or panics)");

        kani::cover!(true, "reached");
    }
    #[kani::proof]
    fn k_def_u8_sanitized__guards_run__Default() {
        { let dv: u8 = 77; kani::assume(ref_def_u8_sanitized::try_new(dv).is_ok()); }
        let i = <DefU8Sanitized as Default>::default().into_inner();
        assert!(ref_def_u8_sanitized::valid(&i), "Default::default() yields a valid value (or panics)");

        kani::cover!(true, "reached");
    }
    #[kani::proof]
    fn k_def_u8_symbolic_valid__guards_run__Default() {
        unsafe { SYM_LO_U8 = kani::any(); }
        unsafe { SYM_HI_U8 = kani::any(); }
        { let dv: u8 = sym_hi_u8(); kani::assume(ref_def_u8_symbolic_valid::try_new(dv).is_ok()); }
        let i = <DefU8SymbolicValid as Default>::default().into_inner();
        assert!(ref_def_u8_symbolic_valid::valid(&i), "Default::default() yields a valid value (or panics)");

        kani::cover!(true, "reached");
    }
    #[kani::proof]
    fn k_def_f64_valid__guards_run__Default() {
        { let dv: f64 = 5.0; kani::assume(ref_def_f64_valid::try_new(dv).is_ok()); }
        let i = <DefF64Valid as Default>::default().into_inner();
        assert!(ref_def_f64_valid::valid(&i), "Default::default() yields a valid value (or panics)");

        kani::cover!(true, "reached");
    }
    #[kani::proof]
    fn k_def_f64_sanitized__guards_run__Default() {
        { let dv: f64 = -3.0; kani::assume(ref_def_f64_sanitized::try_new(dv).is_ok()); }
        let i = <DefF64Sanitized as Default>::default().into_inner();
        assert!(ref_def_f64_sanitized::valid(&i), "Default::default() yields a valid value (or panics)");

        kani::cover!(true, "reached");
    }
    #[kani::proof]
    fn k_def_f64_symbolic_valid__guards_run__Default() {
        unsafe { SYM_LO_F64 = kani::any(); }
        unsafe { SYM_HI_F64 = kani::any(); }
        { let dv: f64 = sym_hi_f64(); kani::assume(ref_def_f64_symbolic_valid::try_new(dv).is_ok()); }
        let i = <DefF64SymbolicValid as Default>::default().into_inner();
        assert!(ref_def_f64_symbolic_valid::valid(&i), "Default::default() yields a valid value (or panics)");

        kani::cover!(true, "reached");
    }
    #[kani::proof]
    fn k_def_f32_valid__guards_run__Default() {
        { let dv: f32 = 5.0; kani::assume(ref_def_f32_valid::try_new(dv).is_ok()); }
        let i = <DefF32Valid as Default>::default().into_inner();
        assert!(ref_def_f32_valid::valid(&i), "Default::default() yields a valid value (or panics)");

        kani::cover!(true, "reached");
    }
    #[kani::proof]
    fn k_def_f32_sanitized__guards_run__Default() {
        { let dv: f32 = -3.0; kani::assume(ref_def_f32_sanitized::try_new(dv).is_ok()); }
        let i = <DefF32Sanitized as Default>::default().into_inner();
        assert!(ref_def_f32_sanitized::valid(&i), "Default::default() yields a valid value (or panics)");

        kani::cover!(true, "reached");
    }
    #[kani::proof]
    fn k_def_f32_symbolic_valid__guards_run__Default() {
        unsafe { SYM_LO_F32 = kani::any(); }
        unsafe { SYM_HI_F32 = kani::any(); }
        { let dv: f32 = sym_hi_f32(); kani::assume(ref_def_f32_symbolic_valid::try_new(dv).is_ok()); }
        let i = <DefF32SymbolicValid as Default>::default().into_inner();
        assert!(ref_def_f32_symbolic_valid::valid(&i), "Default::default() yields a valid value (or panics)");

        kani::cover!(true, "reached");
    }
    #[kani::proof]
    fn k_def_i128_valid__guards_run__Default() {
        { let dv: i128 = 5; kani::assume(ref_def_i128_valid::try_new(dv).is_ok()); }
        let i = <DefI128Valid as Default>::default().into_inner();
        assert!(ref_def_i128_valid::valid(&i), "Default::default() yields a valid value (or panics)");

        kani::cover!(true, "reached");
    }
    #[kani::proof]
    fn k_def_i128_sanitized__guards_run__Default() {
        { let dv: i128 = 77; kani::assume(ref_def_i128_sanitized::try_new(dv).is_ok()); }
        let i = <DefI128Sanitized as Default>::default().into_inner();
        assert!(ref_def_i128_sanitized::valid(&i), "Default::default() yields a valid value (or panics)");

        kani::cover!(true, "reached");
    }
    #[kani::proof]
    fn k_def_i128_symbolic_valid__guards_run__Default() {
        unsafe { SYM_LO_I128 = kani::any(); }
        unsafe { SYM_HI_I128 = kani::any(); }
        { let dv: i128 = sym_hi_i128(); kani::assume(ref_def_i128_symbolic_valid::try_new(dv).is_ok()); }
        let i = <DefI128SymbolicValid as Default>::default().into_inner();
        assert!(ref_def_i128_symbolic_valid::valid(&i), "Default::default() yields a valid value (or panics)");

        kani::cover!(true, "reached");
    }
}
