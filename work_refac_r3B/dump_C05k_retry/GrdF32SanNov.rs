// NUTYPE_VERIF_INPUT #[nutype(sanitize(with = san_f32), derive(Debug, TryFrom, FromStr, Serialize, Deserialize))] pub struct GrdF32SanNov(f32);
#[doc(hidden)]
#[allow(non_snake_case, reason =
"we keep original structure name which is probably CamelCase")] mod
__nutype_GrdF32SanNov__
{
    use super :: * ; #[derive(Debug,)] pub struct GrdF32SanNov(f32); impl
    GrdF32SanNov
    {
        pub fn new(raw_value : f32) -> Self
        { Self(Self :: __sanitize__(raw_value)) } fn
        __sanitize__(mut value : f32) -> f32
        { value = (san_f32) (value); value }
    } impl GrdF32SanNov
    { #[inline] pub fn into_inner(self) -> f32 { self.0 } } #[derive(Debug)]
    pub enum GrdF32SanNovParseError
    { Parse(< f32 as :: core :: str :: FromStr > :: Err), } impl :: core ::
    fmt :: Display for GrdF32SanNovParseError
    {
        fn fmt(& self, formatter : & mut :: core :: fmt :: Formatter < '_ >)
        -> :: core :: fmt :: Result
        {
            let Self :: Parse(parse_error) = self;
            formatter.write_fmt(:: core :: format_args!
            ("Failed to parse {}: {:?}", "GrdF32SanNov", parse_error))
        }
    } impl :: core :: error :: Error for GrdF32SanNovParseError
    {
        fn source(& self) -> Option < &
        (dyn :: core :: error :: Error + 'static) > { None }
    } impl :: core :: str :: FromStr for GrdF32SanNov
    {
        type Err = GrdF32SanNovParseError; fn from_str(input : & str) -> ::
        core :: result :: Result < Self, GrdF32SanNovParseError >
        {
            match < f32 as :: core :: str :: FromStr > :: from_str(input)
            {
                :: core :: result :: Result :: Ok(parsed_value) =>
                {
                    :: core :: result :: Result ::
                    Ok(< Self > :: new(parsed_value))
                } :: core :: result :: Result :: Err(parse_error) =>
                {
                    :: core :: result :: Result ::
                    Err(GrdF32SanNovParseError :: Parse(parse_error))
                }
            }
        }
    } impl :: serde :: Serialize for GrdF32SanNov
    {
        fn serialize < S > (& self, serializer : S) -> :: core :: result ::
        Result < S :: Ok, S :: Error > where S : :: serde :: Serializer
        {
            :: serde :: ser :: Serializer ::
            serialize_newtype_struct(serializer, "GrdF32SanNov", & self.0)
        }
    } impl < 'de > :: serde :: Deserialize < 'de > for GrdF32SanNov
    {
        fn deserialize < D : :: serde :: Deserializer < 'de >>
        (deserializer : D) -> :: core :: result :: Result < Self, D :: Error >
        {
            struct __Visitor < 'de >
            {
                marker : :: core :: marker :: PhantomData < GrdF32SanNov > ,
                lifetime : :: core :: marker :: PhantomData < & 'de () > ,
            } impl < 'de > :: serde :: de :: Visitor < 'de > for __Visitor <
            'de >
            {
                type Value = GrdF32SanNov; fn
                expecting(& self, formatter : & mut :: core :: fmt ::
                Formatter) -> :: core :: fmt :: Result
                { write! (formatter, "tuple struct GrdF32SanNov") } fn
                visit_newtype_struct < DE > (self, deserializer : DE) -> ::
                core :: result :: Result < Self :: Value, DE :: Error > where
                DE : :: serde :: Deserializer < 'de >
                {
                    let raw_value : f32 = match < f32 as :: serde :: Deserialize
                    > :: deserialize(deserializer)
                    { Ok(val) => val, Err(err) => return Err(err) };
                    Ok(GrdF32SanNov :: new(raw_value))
                }
            } :: serde :: de :: Deserializer ::
            deserialize_newtype_struct(deserializer, "GrdF32SanNov", __Visitor
            {
                marker : Default :: default(), lifetime : Default ::
                default(),
            })
        }
    } impl :: core :: convert :: TryFrom < f32 > for GrdF32SanNov
    {
        type Error = :: core :: convert :: Infallible; #[inline] fn
        try_from(raw_value : f32) -> :: core :: result :: Result <
        GrdF32SanNov, Self :: Error > { Ok(Self :: new(raw_value)) }
    } #[cfg(test)] mod tests { use super :: * ; }
} pub use __nutype_GrdF32SanNov__ :: GrdF32SanNov; pub use
__nutype_GrdF32SanNov__ :: GrdF32SanNovParseError;
