// NUTYPE_VERIF_INPUT #[nutype(sanitize(with = san_i32), validate(less_or_equal = 60), derive(Debug, Default), default = 77)] pub struct DefI32Sanitized(i32);
#[doc(hidden)]
#[allow(non_snake_case, reason =
"we keep original structure name which is probably CamelCase")] mod
__nutype_DefI32Sanitized__
{
    use super :: * ; #[derive(Debug,)] pub struct DefI32Sanitized(i32);
    #[derive(Debug, Clone, PartialEq, Eq)]
    #[allow(clippy :: enum_variant_names)] pub enum DefI32SanitizedError
    { LessOrEqualViolated, } impl :: core :: fmt :: Display for
    DefI32SanitizedError
    {
        fn fmt(& self, f : & mut :: core :: fmt :: Formatter < '_ >) -> ::
        core :: fmt :: Result
        {
            match self
            {
                DefI32SanitizedError :: LessOrEqualViolated => write!
                (f,
                "{} is too big. The value must be less or equal to {:#?}.",
                stringify! (DefI32Sanitized), 60i32),
            }
        }
    } impl :: core :: error :: Error for DefI32SanitizedError
    {
        fn source(& self) -> Option < &
        (dyn :: core :: error :: Error + 'static) > { None }
    } impl DefI32Sanitized
    {
        pub fn try_new(raw_value : i32) -> :: core :: result :: Result < Self,
        DefI32SanitizedError >
        {
            let sanitized_value : i32 = Self :: __sanitize__(raw_value);
            #[allow(clippy :: question_mark)] if let Err(e) = Self ::
            __validate__(& sanitized_value) { return Err(e); }
            Ok(DefI32Sanitized(sanitized_value))
        } fn __sanitize__(mut value : i32) -> i32
        { value = (san_i32) (value); value } fn __validate__(val : & i32) ->
        :: core :: result :: Result < (), DefI32SanitizedError >
        {
            let val = * val; if val > 60i32
            { return Err(DefI32SanitizedError :: LessOrEqualViolated); }
            Ok(())
        }
    } impl DefI32Sanitized
    { #[inline] pub fn into_inner(self) -> i32 { self.0 } } impl :: core ::
    default :: Default for DefI32Sanitized
    {
        fn default() -> Self
        {
            Self ::
            try_new(77).unwrap_or_else(| err |
            {
                let tp = "DefI32Sanitized"; panic!
                ("\nDefault value for type `{tp}` is invalid.\nERROR: {err:?}\n");
            })
        }
    } #[cfg(test)] mod tests
    {
        use super :: * ; #[test] fn should_have_valid_default_value()
        {
            let default_inner_value = DefI32Sanitized ::
            default().into_inner(); DefI32Sanitized ::
            try_new(default_inner_value).expect("\nType `DefI32Sanitized` has invalid default value `77`\nNote: the test is generated automatically by #[nutype] macro\n");
        }
    }
} pub use __nutype_DefI32Sanitized__ :: DefI32Sanitized; pub use
__nutype_DefI32Sanitized__ :: DefI32SanitizedError;
