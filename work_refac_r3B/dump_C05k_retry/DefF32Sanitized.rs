// NUTYPE_VERIF_INPUT #[nutype(sanitize(with = san_f32), validate(less_or_equal = 60.0), derive(Debug, Default), default = -3.0)] pub struct DefF32Sanitized(f32);
#[doc(hidden)]
#[allow(non_snake_case, reason =
"we keep original structure name which is probably CamelCase")] mod
__nutype_DefF32Sanitized__
{
    use super :: * ; #[derive(Debug,)] pub struct DefF32Sanitized(f32);
    #[derive(Debug, Clone, PartialEq, Eq)]
    #[allow(clippy :: enum_variant_names)] pub enum DefF32SanitizedError
    { LessOrEqualViolated, } impl :: core :: fmt :: Display for
    DefF32SanitizedError
    {
        fn fmt(& self, f : & mut :: core :: fmt :: Formatter < '_ >) -> ::
        core :: fmt :: Result
        {
            match self
            {
                DefF32SanitizedError :: LessOrEqualViolated => write!
                (f, "{} is too big. The value must be less than {:#?}.",
                stringify! (DefF32Sanitized), 60f32),
            }
        }
    } impl :: core :: error :: Error for DefF32SanitizedError
    {
        fn source(& self) -> Option < &
        (dyn :: core :: error :: Error + 'static) > { None }
    } impl DefF32Sanitized
    {
        pub fn try_new(raw_value : f32) -> :: core :: result :: Result < Self,
        DefF32SanitizedError >
        {
            let sanitized_value : f32 = Self :: __sanitize__(raw_value);
            #[allow(clippy :: question_mark)] if let Err(e) = Self ::
            __validate__(& sanitized_value) { return Err(e); }
            Ok(DefF32Sanitized(sanitized_value))
        } fn __sanitize__(mut value : f32) -> f32
        { value = (san_f32) (value); value } fn __validate__(val : & f32) ->
        core :: result :: Result < (), DefF32SanitizedError >
        {
            let val = * val; if val > 60f32
            { return Err(DefF32SanitizedError :: LessOrEqualViolated); }
            Ok(())
        }
    } impl DefF32Sanitized
    { #[inline] pub fn into_inner(self) -> f32 { self.0 } } impl :: core ::
    default :: Default for DefF32Sanitized
    {
        fn default() -> Self
        {
            Self ::
            try_new(-
            3.0).unwrap_or_else(| err |
            {
                let tp = "DefF32Sanitized"; panic!
                ("\nDefault value for type `{tp}` is invalid.\nERROR: {err:?}\n");
            })
        }
    } #[cfg(test)] mod tests
    {
        use super :: * ; #[test] fn should_have_valid_default_value()
        {
            let default_inner_value = DefF32Sanitized ::
            default().into_inner(); DefF32Sanitized ::
            try_new(default_inner_value).expect("\nType `DefF32Sanitized` has invalid default value `- 3.0`\nNote: the test is generated automatically by #[nutype] macro\n");
        }
    }
} pub use __nutype_DefF32Sanitized__ :: DefF32Sanitized; pub use
__nutype_DefF32Sanitized__ :: DefF32SanitizedError;
