// NUTYPE_VERIF_INPUT #[nutype(validate(greater_or_equal = sym_lo_i128()), derive(Debug, Default), default = sym_hi_i128())] pub struct DefI128SymbolicValid(i128);
#[doc(hidden)]
#[allow(non_snake_case, reason =
"we keep original structure name which is probably CamelCase")] mod
__nutype_DefI128SymbolicValid__
{
    use super :: * ; #[derive(Debug,)] pub struct DefI128SymbolicValid(i128);
    #[derive(Debug, Clone, PartialEq, Eq)]
    #[allow(clippy :: enum_variant_names)] pub enum DefI128SymbolicValidError
    { GreaterOrEqualViolated, } impl :: core :: fmt :: Display for
    DefI128SymbolicValidError
    {
        fn fmt(& self, f : & mut :: core :: fmt :: Formatter < '_ >) -> ::
        core :: fmt :: Result
        {
            match self
            {
                DefI128SymbolicValidError :: GreaterOrEqualViolated => write!
                (f,
                "{} is too small. The value must be greater or equal to {:#?}.",
                stringify! (DefI128SymbolicValid), sym_lo_i128()),
            }
        }
    } impl :: core :: error :: Error for DefI128SymbolicValidError
    {
        fn source(& self) -> Option < &
        (dyn :: core :: error :: Error + 'static) > { None }
    } impl DefI128SymbolicValid
    {
        pub fn try_new(raw_value : i128) -> :: core :: result :: Result <
        Self, DefI128SymbolicValidError >
        {
            let sanitized_value : i128 = Self :: __sanitize__(raw_value);
            #[allow(clippy :: question_mark)] if let Err(e) = Self ::
            __validate__(& sanitized_value) { return Err(e); }
            Ok(DefI128SymbolicValid(sanitized_value))
        } fn __sanitize__(mut value : i128) -> i128 { value } fn
        __validate__(val : & i128) -> :: core :: result :: Result < (),
        DefI128SymbolicValidError >
        {
            let val = * val; if val < sym_lo_i128()
            {
                return
                Err(DefI128SymbolicValidError :: GreaterOrEqualViolated);
            } Ok(())
        }
    } impl DefI128SymbolicValid
    { #[inline] pub fn into_inner(self) -> i128 { self.0 } } impl :: core ::
    default :: Default for DefI128SymbolicValid
    {
        fn default() -> Self
        {
            Self ::
            try_new(sym_hi_i128()).unwrap_or_else(| err |
            {
                let tp = "DefI128SymbolicValid"; panic!
                ("\nDefault value for type `{tp}` is invalid.\nERROR: {err:?}\n");
            })
        }
    } #[cfg(test)] mod tests
    {
        use super :: * ; #[test] fn should_have_valid_default_value()
        {
            let default_inner_value = DefI128SymbolicValid ::
            default().into_inner(); DefI128SymbolicValid ::
            try_new(default_inner_value).expect("\nType `DefI128SymbolicValid` has invalid default value `sym_hi_i128()`\nNote: the test is generated automatically by #[nutype] macro\n");
        }
    }
} pub use __nutype_DefI128SymbolicValid__ :: DefI128SymbolicValid; pub use
__nutype_DefI128SymbolicValid__ :: DefI128SymbolicValidError;
