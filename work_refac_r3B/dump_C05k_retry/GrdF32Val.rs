// NUTYPE_VERIF_INPUT #[nutype(validate(finite, greater_or_equal = sym_lo_f32(), less = sym_hi_f32()), derive(Debug, TryFrom, FromStr, Serialize, Deserialize, Arbitrary))] pub struct GrdF32Val(f32);
#[doc(hidden)]
#[allow(non_snake_case, reason =
"we keep original structure name which is probably CamelCase")] mod
__nutype_GrdF32Val__
{
    use super :: * ; #[derive(Debug,)] pub struct GrdF32Val(f32);
    #[derive(Debug, Clone, PartialEq, Eq)]
    #[allow(clippy :: enum_variant_names)] pub enum GrdF32ValError
    { FiniteViolated, GreaterOrEqualViolated, LessViolated, } impl :: core ::
    fmt :: Display for GrdF32ValError
    {
        fn fmt(& self, f : & mut :: core :: fmt :: Formatter < '_ >) -> ::
        core :: fmt :: Result
        {
            match self
            {
                GrdF32ValError :: FiniteViolated => write!
                (f, "{} is not finite.", stringify! (GrdF32Val)),
                GrdF32ValError :: GreaterOrEqualViolated => write!
                (f,
                "{} is too small. The value must be greater or equal to {:#?}.",
                stringify! (GrdF32Val), sym_lo_f32()), GrdF32ValError ::
                LessViolated => write!
                (f, "{} is too big. The value must be less than {:#?}.",
                stringify! (GrdF32Val), sym_hi_f32()),
            }
        }
    } impl :: core :: error :: Error for GrdF32ValError
    {
        fn source(& self) -> Option < &
        (dyn :: core :: error :: Error + 'static) > { None }
    } impl GrdF32Val
    {
        pub fn try_new(raw_value : f32) -> :: core :: result :: Result < Self,
        GrdF32ValError >
        {
            let sanitized_value : f32 = Self :: __sanitize__(raw_value);
            #[allow(clippy :: question_mark)] if let Err(e) = Self ::
            __validate__(& sanitized_value) { return Err(e); }
            Ok(GrdF32Val(sanitized_value))
        } fn __sanitize__(mut value : f32) -> f32 { value } fn
        __validate__(val : & f32) -> core :: result :: Result < (),
        GrdF32ValError >
        {
            let val = * val; if ! val.is_finite()
            { return Err(GrdF32ValError :: FiniteViolated); } if val <
            sym_lo_f32()
            { return Err(GrdF32ValError :: GreaterOrEqualViolated); } if val
            >= sym_hi_f32() { return Err(GrdF32ValError :: LessViolated); }
            Ok(())
        }
    } impl GrdF32Val { #[inline] pub fn into_inner(self) -> f32 { self.0 } }
    impl < 'de > :: serde :: Deserialize < 'de > for GrdF32Val
    {
        fn deserialize < D : :: serde :: Deserializer < 'de >>
        (deserializer : D) -> :: core :: result :: Result < Self, D :: Error >
        {
            struct __Visitor < 'de >
            {
                marker : :: core :: marker :: PhantomData < GrdF32Val > ,
                lifetime : :: core :: marker :: PhantomData < & 'de () > ,
            } impl < 'de > :: serde :: de :: Visitor < 'de > for __Visitor <
            'de >
            {
                type Value = GrdF32Val; fn
                expecting(& self, formatter : & mut :: core :: fmt ::
                Formatter) -> :: core :: fmt :: Result
                { write! (formatter, "tuple struct GrdF32Val") } fn
                visit_newtype_struct < DE > (self, deserializer : DE) -> ::
                core :: result :: Result < Self :: Value, DE :: Error > where
                DE : :: serde :: Deserializer < 'de >
                {
                    let raw_value : f32 = match < f32 as :: serde :: Deserialize
                    > :: deserialize(deserializer)
                    { Ok(val) => val, Err(err) => return Err(err) }; GrdF32Val
                    ::
                    try_new(raw_value).map_err(| validation_error |
                    {
                        < DE :: Error as serde :: de :: Error > ::
                        custom(core :: format_args!
                        ("{validation_error} Expected valid {}", "GrdF32Val"))
                    })
                }
            } :: serde :: de :: Deserializer ::
            deserialize_newtype_struct(deserializer, "GrdF32Val", __Visitor
            {
                marker : Default :: default(), lifetime : Default ::
                default(),
            })
        }
    } impl :: serde :: Serialize for GrdF32Val
    {
        fn serialize < S > (& self, serializer : S) -> :: core :: result ::
        Result < S :: Ok, S :: Error > where S : :: serde :: Serializer
        {
            :: serde :: ser :: Serializer ::
            serialize_newtype_struct(serializer, "GrdF32Val", & self.0)
        }
    } impl :: core :: convert :: TryFrom < f32 > for GrdF32Val
    {
        type Error = GrdF32ValError; #[inline] fn try_from(raw_value : f32) ->
        :: core :: result :: Result < GrdF32Val, Self :: Error >
        { Self :: try_new(raw_value) }
    } impl :: arbitrary :: Arbitrary < '_ > for GrdF32Val
    {
        fn arbitrary(u : & mut :: arbitrary :: Unstructured < '_ >) -> ::
        arbitrary :: Result < Self >
        {
            let inner_value : f32 =
            {
                let from0to1 =
                {
                    let random_int : u32 = u.arbitrary() ? ;
                    (random_int as f32 / u32 :: MAX as f32) as f32
                }; let x = (sym_lo_f32()) * (1.0 - from0to1) + (sym_hi_f32())
                * from0to1; let x = if x < (sym_lo_f32()) { sym_lo_f32() }
                else if x > (sym_hi_f32()) { sym_hi_f32() } else { x }; let x
                = x; let x = if x >= (sym_hi_f32())
                {
                    let boundary : f32 = sym_hi_f32(); if boundary == 0.0
                    { - f32 :: from_bits(1) } else if boundary > 0.0
                    { f32 :: from_bits(boundary.to_bits() - 1) } else
                    { f32 :: from_bits(boundary.to_bits() + 1) }
                } else { x }; x
            };
            Ok(Self ::
            try_new(inner_value).unwrap_or_else(| err |
            {
                panic!
                ("\nArbitrary generated an invalid value for {}.\nInvalid inner value: {:?}\nValidation error: {:?}\n\n{}",
                "GrdF32Val", inner_value, err,
                "\nClick the following link to report the issue:\n\nhttps://github.com/greyblake/nutype/issues/new?title=Arbitrary%20generates%20an%20invalid%20value%20for%20f32&body=%0AHaving%20my%20type%20defined%20as%3A%0A%0A%60%60%60rs%0A%2F%2F%20Put%20the%20definition%20of%20your%20type%20with%20%23%5Bnutype%5D%20macro%20here%0A%60%60%60%0A%0AI%20got%20a%20panic%20when%20I%20tried%20to%20generate%20a%20value%20with%20Arbitrary.%0A&labels=bug\n\n");
            }))
        } #[inline] fn size_hint(_depth : usize) -> (usize, Option < usize >)
        { let n = :: core :: mem :: size_of :: < f32 > (); (n, Some(n)) }
    } #[derive(Debug)] pub enum GrdF32ValParseError
    {
        Parse(< f32 as :: core :: str :: FromStr > :: Err),
        Validate(GrdF32ValError),
    } impl :: core :: fmt :: Display for GrdF32ValParseError
    {
        fn fmt(& self, formatter : & mut :: core :: fmt :: Formatter < '_ >)
        -> :: core :: fmt :: Result
        {
            match * self
            {
                Self :: Validate(ref validation_error) =>
                {
                    formatter.write_fmt(:: core :: format_args!
                    ("Failed to parse {}: {}", "GrdF32Val", validation_error))
                } Self :: Parse(ref parse_error) =>
                {
                    formatter.write_fmt(:: core :: format_args!
                    ("Failed to parse {}: {:?}", "GrdF32Val", parse_error))
                }
            }
        }
    } impl :: core :: error :: Error for GrdF32ValParseError
    {
        fn source(& self) -> Option < &
        (dyn :: core :: error :: Error + 'static) > { None }
    } impl :: core :: str :: FromStr for GrdF32Val
    {
        type Err = GrdF32ValParseError; fn from_str(input : & str) -> :: core
        :: result :: Result < Self, GrdF32ValParseError >
        {
            match < f32 as :: core :: str :: FromStr > :: from_str(input)
            {
                :: core :: result :: Result :: Err(parse_error) =>
                {
                    :: core :: result :: Result ::
                    Err(GrdF32ValParseError :: Parse(parse_error))
                } :: core :: result :: Result :: Ok(parsed_value) => match <
                Self > :: try_new(parsed_value)
                {
                    :: core :: result :: Result :: Ok(valid) => :: core ::
                    result :: Result :: Ok(valid), :: core :: result :: Result
                    :: Err(validation_error) =>
                    {
                        :: core :: result :: Result ::
                        Err(GrdF32ValParseError :: Validate(validation_error))
                    }
                },
            }
        }
    } #[cfg(test)] mod tests
    {
        use super :: * ; #[test] fn
        should_have_consistent_lower_and_upper_boundaries()
        {
            assert!
            (sym_hi_f32() >= sym_lo_f32(),
            "\nInconsistent lower and upper boundaries for type `GrdF32Val`\nThe upper boundary `sym_hi_f32()` must be greater than or equal to the lower boundary `sym_lo_f32()`\nNote: the test is generated automatically by #[nutype] macro.\n");
        }
    }
} pub use __nutype_GrdF32Val__ :: GrdF32Val; pub use __nutype_GrdF32Val__ ::
GrdF32ValError; pub use __nutype_GrdF32Val__ :: GrdF32ValParseError;
