// NUTYPE_VERIF_INPUT #[nutype(validate(greater_or_equal = 0.0, less_or_equal = 10.0), derive(Debug, Default), default = 5.0)] pub struct DefF64Valid(f64);
#[doc(hidden)]
#[allow(non_snake_case, reason =
"we keep original structure name which is probably CamelCase")] mod
__nutype_DefF64Valid__
{
    use super :: * ; #[derive(Debug,)] pub struct DefF64Valid(f64);
    #[derive(Debug, Clone, PartialEq, Eq)]
    #[allow(clippy :: enum_variant_names)] pub enum DefF64ValidError
    { GreaterOrEqualViolated, LessOrEqualViolated, } impl :: core :: fmt ::
    Display for DefF64ValidError
    {
        fn fmt(& self, f : & mut :: core :: fmt :: Formatter < '_ >) -> ::
        core :: fmt :: Result
        {
            match self
            {
                DefF64ValidError :: GreaterOrEqualViolated => write!
                (f,
                "{} is too small. The value must be greater or equal to {:#?}.",
                stringify! (DefF64Valid), 0f64), DefF64ValidError ::
                LessOrEqualViolated => write!
                (f, "{} is too big. The value must be less than {:#?}.",
                stringify! (DefF64Valid), 10f64),
            }
        }
    } impl :: core :: error :: Error for DefF64ValidError
    {
        fn source(& self) -> Option < &
        (dyn :: core :: error :: Error + 'static) > { None }
    } impl DefF64Valid
    {
        pub fn try_new(raw_value : f64) -> :: core :: result :: Result < Self,
        DefF64ValidError >
        {
            let sanitized_value : f64 = Self :: __sanitize__(raw_value);
            #[allow(clippy :: question_mark)] if let Err(e) = Self ::
            __validate__(& sanitized_value) { return Err(e); }
            Ok(DefF64Valid(sanitized_value))
        } fn __sanitize__(mut value : f64) -> f64 { value } fn
        __validate__(val : & f64) -> core :: result :: Result < (),
        DefF64ValidError >
        {
            let val = * val; if val < 0f64
            { return Err(DefF64ValidError :: GreaterOrEqualViolated); } if val
            > 10f64 { return Err(DefF64ValidError :: LessOrEqualViolated); }
            Ok(())
        }
    } impl DefF64Valid { #[inline] pub fn into_inner(self) -> f64 { self.0 } }
    impl :: core :: default :: Default for DefF64Valid
    {
        fn default() -> Self
        {
            Self ::
            try_new(5.0).unwrap_or_else(| err |
            {
                let tp = "DefF64Valid"; panic!
                ("\nDefault value for type `{tp}` is invalid.\nERROR: {err:?}\n");
            })
        }
    } #[cfg(test)] mod tests
    {
        use super :: * ; #[test] fn
        should_have_consistent_lower_and_upper_boundaries()
        {
            assert!
            (10f64 >= 0f64,
            "\nInconsistent lower and upper boundaries for type `DefF64Valid`\nThe upper boundary `10f64` must be greater than or equal to the lower boundary `0f64`\nNote: the test is generated automatically by #[nutype] macro.\n");
        } #[test] fn should_have_valid_default_value()
        {
            let default_inner_value = DefF64Valid :: default().into_inner();
            DefF64Valid ::
            try_new(default_inner_value).expect("\nType `DefF64Valid` has invalid default value `5.0`\nNote: the test is generated automatically by #[nutype] macro\n");
        }
    }
} pub use __nutype_DefF64Valid__ :: DefF64Valid; pub use
__nutype_DefF64Valid__ :: DefF64ValidError;
