// NUTYPE_VERIF_INPUT #[nutype(sanitize(with = san_i32), validate(greater_or_equal = sym_lo_i32(), less = sym_hi_i32()), derive(Debug, TryFrom, FromStr, Serialize, Deserialize))] pub struct GrdI32SanVal(i32);
#[doc(hidden)]
#[allow(non_snake_case, reason =
"we keep original structure name which is probably CamelCase")] mod
__nutype_GrdI32SanVal__
{
    use super :: * ; #[derive(Debug,)] pub struct GrdI32SanVal(i32);
    #[derive(Debug, Clone, PartialEq, Eq)]
    #[allow(clippy :: enum_variant_names)] pub enum GrdI32SanValError
    { GreaterOrEqualViolated, LessViolated, } impl :: core :: fmt :: Display
    for GrdI32SanValError
    {
        fn fmt(& self, f : & mut :: core :: fmt :: Formatter < '_ >) -> ::
        core :: fmt :: Result
        {
            match self
            {
                GrdI32SanValError :: GreaterOrEqualViolated => write!
                (f,
                "{} is too small. The value must be greater or equal to {:#?}.",
                stringify! (GrdI32SanVal), sym_lo_i32()), GrdI32SanValError ::
                LessViolated => write!
                (f, "{} is too big. The value must be less than {:#?}.",
                stringify! (GrdI32SanVal), sym_hi_i32()),
            }
        }
    } impl :: core :: error :: Error for GrdI32SanValError
    {
        fn source(& self) -> Option < &
        (dyn :: core :: error :: Error + 'static) > { None }
    } impl GrdI32SanVal
    {
        pub fn try_new(raw_value : i32) -> :: core :: result :: Result < Self,
        GrdI32SanValError >
        {
            let sanitized_value : i32 = Self :: __sanitize__(raw_value);
            #[allow(clippy :: question_mark)] if let Err(e) = Self ::
            __validate__(& sanitized_value) { return Err(e); }
            Ok(GrdI32SanVal(sanitized_value))
        } fn __sanitize__(mut value : i32) -> i32
        { value = (san_i32) (value); value } fn __validate__(val : & i32) ->
        :: core :: result :: Result < (), GrdI32SanValError >
        {
            let val = * val; if val < sym_lo_i32()
            { return Err(GrdI32SanValError :: GreaterOrEqualViolated); } if
            val >= sym_hi_i32()
            { return Err(GrdI32SanValError :: LessViolated); } Ok(())
        }
    } impl GrdI32SanVal
    { #[inline] pub fn into_inner(self) -> i32 { self.0 } } impl :: core ::
    convert :: TryFrom < i32 > for GrdI32SanVal
    {
        type Error = GrdI32SanValError; #[inline] fn try_from(raw_value : i32)
        -> :: core :: result :: Result < GrdI32SanVal, Self :: Error >
        { Self :: try_new(raw_value) }
    } impl < 'de > :: serde :: Deserialize < 'de > for GrdI32SanVal
    {
        fn deserialize < D : :: serde :: Deserializer < 'de >>
        (deserializer : D) -> :: core :: result :: Result < Self, D :: Error >
        {
            struct __Visitor < 'de >
            {
                marker : :: core :: marker :: PhantomData < GrdI32SanVal > ,
                lifetime : :: core :: marker :: PhantomData < & 'de () > ,
            } impl < 'de > :: serde :: de :: Visitor < 'de > for __Visitor <
            'de >
            {
                type Value = GrdI32SanVal; fn
                expecting(& self, formatter : & mut :: core :: fmt ::
                Formatter) -> :: core :: fmt :: Result
                { write! (formatter, "tuple struct GrdI32SanVal") } fn
                visit_newtype_struct < DE > (self, deserializer : DE) -> ::
                core :: result :: Result < Self :: Value, DE :: Error > where
                DE : :: serde :: Deserializer < 'de >
                {
                    let raw_value : i32 = match < i32 as :: serde :: Deserialize
                    > :: deserialize(deserializer)
                    { Ok(val) => val, Err(err) => return Err(err) };
                    GrdI32SanVal ::
                    try_new(raw_value).map_err(| validation_error |
                    {
                        < DE :: Error as serde :: de :: Error > ::
                        custom(core :: format_args!
                        ("{validation_error} Expected valid {}", "GrdI32SanVal"))
                    })
                }
            } :: serde :: de :: Deserializer ::
            deserialize_newtype_struct(deserializer, "GrdI32SanVal", __Visitor
            {
                marker : Default :: default(), lifetime : Default ::
                default(),
            })
        }
    } impl :: serde :: Serialize for GrdI32SanVal
    {
        fn serialize < S > (& self, serializer : S) -> :: core :: result ::
        Result < S :: Ok, S :: Error > where S : :: serde :: Serializer
        {
            :: serde :: ser :: Serializer ::
            serialize_newtype_struct(serializer, "GrdI32SanVal", & self.0)
        }
    } #[derive(Debug)] pub enum GrdI32SanValParseError
    {
        Parse(< i32 as :: core :: str :: FromStr > :: Err),
        Validate(GrdI32SanValError),
    } impl :: core :: fmt :: Display for GrdI32SanValParseError
    {
        fn fmt(& self, formatter : & mut :: core :: fmt :: Formatter < '_ >)
        -> :: core :: fmt :: Result
        {
            match * self
            {
                Self :: Validate(ref validation_error) =>
                {
                    formatter.write_fmt(:: core :: format_args!
                    ("Failed to parse {}: {}", "GrdI32SanVal",
                    validation_error))
                } Self :: Parse(ref parse_error) =>
                {
                    formatter.write_fmt(:: core :: format_args!
                    ("Failed to parse {}: {:?}", "GrdI32SanVal", parse_error))
                }
            }
        }
    } impl :: core :: error :: Error for GrdI32SanValParseError
    {
        fn source(& self) -> Option < &
        (dyn :: core :: error :: Error + 'static) > { None }
    } impl :: core :: str :: FromStr for GrdI32SanVal
    {
        type Err = GrdI32SanValParseError; fn from_str(input : & str) -> ::
        core :: result :: Result < Self, GrdI32SanValParseError >
        {
            match < i32 as :: core :: str :: FromStr > :: from_str(input)
            {
                :: core :: result :: Result :: Err(parse_error) =>
                {
                    :: core :: result :: Result ::
                    Err(GrdI32SanValParseError :: Parse(parse_error))
                } :: core :: result :: Result :: Ok(parsed_value) => match <
                Self > :: try_new(parsed_value)
                {
                    :: core :: result :: Result :: Ok(valid) => :: core ::
                    result :: Result :: Ok(valid), :: core :: result :: Result
                    :: Err(validation_error) =>
                    {
                        :: core :: result :: Result ::
                        Err(GrdI32SanValParseError :: Validate(validation_error))
                    }
                },
            }
        }
    } #[cfg(test)] mod tests
    {
        use super :: * ; #[test] fn
        should_have_consistent_lower_and_upper_boundaries()
        {
            assert!
            (sym_hi_i32() >= sym_lo_i32(),
            "\nInconsistent lower and upper boundaries for type `GrdI32SanVal`\nThe upper boundary `sym_hi_i32()` must be greater than or equal to the lower boundary `sym_lo_i32()`\nNote: the test is generated automatically by #[nutype] macro.\n");
        }
    }
} pub use __nutype_GrdI32SanVal__ :: GrdI32SanVal; pub use
__nutype_GrdI32SanVal__ :: GrdI32SanValError; pub use __nutype_GrdI32SanVal__
:: GrdI32SanValParseError;
