// NUTYPE_VERIF_INPUT #[nutype(validate(greater_or_equal = sym_lo_f32()), derive(Debug, Default), default = sym_hi_f32())] pub struct DefF32SymbolicValid(f32);
#[doc(hidden)]
#[allow(non_snake_case, reason =
"we keep original structure name which is probably CamelCase")] mod
__nutype_DefF32SymbolicValid__
{
    use super :: * ; #[derive(Debug,)] pub struct DefF32SymbolicValid(f32);
    #[derive(Debug, Clone, PartialEq, Eq)]
    #[allow(clippy :: enum_variant_names)] pub enum DefF32SymbolicValidError
    { GreaterOrEqualViolated, } impl :: core :: fmt :: Display for
    DefF32SymbolicValidError
    {
        fn fmt(& self, f : & mut :: core :: fmt :: Formatter < '_ >) -> ::
        core :: fmt :: Result
        {
            match self
            {
                DefF32SymbolicValidError :: GreaterOrEqualViolated => write!
                (f,
                "{} is too small. The value must be greater or equal to {:#?}.",
                stringify! (DefF32SymbolicValid), sym_lo_f32()),
            }
        }
    } impl :: core :: error :: Error for DefF32SymbolicValidError
    {
        fn source(& self) -> Option < &
        (dyn :: core :: error :: Error + 'static) > { None }
    } impl DefF32SymbolicValid
    {
        pub fn try_new(raw_value : f32) -> :: core :: result :: Result < Self,
        DefF32SymbolicValidError >
        {
            let sanitized_value : f32 = Self :: __sanitize__(raw_value);
            #[allow(clippy :: question_mark)] if let Err(e) = Self ::
            __validate__(& sanitized_value) { return Err(e); }
            Ok(DefF32SymbolicValid(sanitized_value))
        } fn __sanitize__(mut value : f32) -> f32 { value } fn
        __validate__(val : & f32) -> core :: result :: Result < (),
        DefF32SymbolicValidError >
        {
            let val = * val; if val < sym_lo_f32()
            {
                return
                Err(DefF32SymbolicValidError :: GreaterOrEqualViolated);
            } Ok(())
        }
    } impl DefF32SymbolicValid
    { #[inline] pub fn into_inner(self) -> f32 { self.0 } } impl :: core ::
    default :: Default for DefF32SymbolicValid
    {
        fn default() -> Self
        {
            Self ::
            try_new(sym_hi_f32()).unwrap_or_else(| err |
            {
                let tp = "DefF32SymbolicValid"; panic!
                ("\nDefault value for type `{tp}` is invalid.\nERROR: {err:?}\n");
            })
        }
    } #[cfg(test)] mod tests
    {
        use super :: * ; #[test] fn should_have_valid_default_value()
        {
            let default_inner_value = DefF32SymbolicValid ::
            default().into_inner(); DefF32SymbolicValid ::
            try_new(default_inner_value).expect("\nType `DefF32SymbolicValid` has invalid default value `sym_hi_f32()`\nNote: the test is generated automatically by #[nutype] macro\n");
        }
    }
} pub use __nutype_DefF32SymbolicValid__ :: DefF32SymbolicValid; pub use
__nutype_DefF32SymbolicValid__ :: DefF32SymbolicValidError;
