// NUTYPE_VERIF_INPUT #[nutype(sanitize(with = san_u8), derive(Debug, TryFrom, FromStr, Serialize, Deserialize))] pub struct GrdU8SanNov(u8);
#[doc(hidden)]
#[allow(non_snake_case, reason =
"we keep original structure name which is probably CamelCase")] mod
__nutype_GrdU8SanNov__
{
    use super :: * ; #[derive(Debug,)] pub struct GrdU8SanNov(u8); impl
    GrdU8SanNov
    {
        pub fn new(raw_value : u8) -> Self
        { Self(Self :: __sanitize__(raw_value)) } fn
        __sanitize__(mut value : u8) -> u8 { value = (san_u8) (value); value }
    } impl GrdU8SanNov { #[inline] pub fn into_inner(self) -> u8 { self.0 } }
    impl < 'de > :: serde :: Deserialize < 'de > for GrdU8SanNov
    {
        fn deserialize < D : :: serde :: Deserializer < 'de >>
        (deserializer : D) -> :: core :: result :: Result < Self, D :: Error >
        {
            struct __Visitor < 'de >
            {
                marker : :: core :: marker :: PhantomData < GrdU8SanNov > ,
                lifetime : :: core :: marker :: PhantomData < & 'de () > ,
            } impl < 'de > :: serde :: de :: Visitor < 'de > for __Visitor <
            'de >
            {
                type Value = GrdU8SanNov; fn
                expecting(& self, formatter : & mut :: core :: fmt ::
                Formatter) -> :: core :: fmt :: Result
                { write! (formatter, "tuple struct GrdU8SanNov") } fn
                visit_newtype_struct < DE > (self, deserializer : DE) -> ::
                core :: result :: Result < Self :: Value, DE :: Error > where
                DE : :: serde :: Deserializer < 'de >
                {
                    let raw_value : u8 = match < u8 as :: serde :: Deserialize >
                    :: deserialize(deserializer)
                    { Ok(val) => val, Err(err) => return Err(err) };
                    Ok(GrdU8SanNov :: new(raw_value))
                }
            } :: serde :: de :: Deserializer ::
            deserialize_newtype_struct(deserializer, "GrdU8SanNov", __Visitor
            {
                marker : Default :: default(), lifetime : Default ::
                default(),
            })
        }
    } impl :: serde :: Serialize for GrdU8SanNov
    {
        fn serialize < S > (& self, serializer : S) -> :: core :: result ::
        Result < S :: Ok, S :: Error > where S : :: serde :: Serializer
        {
            :: serde :: ser :: Serializer ::
            serialize_newtype_struct(serializer, "GrdU8SanNov", & self.0)
        }
    } #[derive(Debug)] pub enum GrdU8SanNovParseError
    { Parse(< u8 as :: core :: str :: FromStr > :: Err), } impl :: core :: fmt
    :: Display for GrdU8SanNovParseError
    {
        fn fmt(& self, formatter : & mut :: core :: fmt :: Formatter < '_ >)
        -> :: core :: fmt :: Result
        {
            let Self :: Parse(parse_error) = self;
            formatter.write_fmt(:: core :: format_args!
            ("Failed to parse {}: {:?}", "GrdU8SanNov", parse_error))
        }
    } impl :: core :: error :: Error for GrdU8SanNovParseError
    {
        fn source(& self) -> Option < &
        (dyn :: core :: error :: Error + 'static) > { None }
    } impl :: core :: str :: FromStr for GrdU8SanNov
    {
        type Err = GrdU8SanNovParseError; fn from_str(input : & str) -> ::
        core :: result :: Result < Self, GrdU8SanNovParseError >
        {
            match < u8 as :: core :: str :: FromStr > :: from_str(input)
            {
                :: core :: result :: Result :: Ok(parsed_value) =>
                {
                    :: core :: result :: Result ::
                    Ok(< Self > :: new(parsed_value))
                } :: core :: result :: Result :: Err(parse_error) =>
                {
                    :: core :: result :: Result ::
                    Err(GrdU8SanNovParseError :: Parse(parse_error))
                }
            }
        }
    } impl :: core :: convert :: TryFrom < u8 > for GrdU8SanNov
    {
        type Error = :: core :: convert :: Infallible; #[inline] fn
        try_from(raw_value : u8) -> :: core :: result :: Result < GrdU8SanNov,
        Self :: Error > { Ok(Self :: new(raw_value)) }
    } #[cfg(test)] mod tests { use super :: * ; }
} pub use __nutype_GrdU8SanNov__ :: GrdU8SanNov; pub use
__nutype_GrdU8SanNov__ :: GrdU8SanNovParseError;
