// NUTYPE_VERIF_INPUT #[nutype(validate(finite, greater_or_equal = sym_lo_f64(), less = sym_hi_f64()), derive(Debug, TryFrom, FromStr, Serialize, Deserialize, Arbitrary))] pub struct GrdF64Val(f64);
#[doc(hidden)]
#[allow(non_snake_case, reason =
"we keep original structure name which is probably CamelCase")] mod
__nutype_GrdF64Val__
{
    use super :: * ; #[derive(Debug,)] pub struct GrdF64Val(f64);
    #[derive(Debug, Clone, PartialEq, Eq)]
    #[allow(clippy :: enum_variant_names)] pub enum GrdF64ValError
    { FiniteViolated, GreaterOrEqualViolated, LessViolated, } impl :: core ::
    fmt :: Display for GrdF64ValError
    {
        fn fmt(& self, f : & mut :: core :: fmt :: Formatter < '_ >) -> ::
        core :: fmt :: Result
        {
            match self
            {
                GrdF64ValError :: FiniteViolated => write!
                (f, "{} is not finite.", stringify! (GrdF64Val)),
                GrdF64ValError :: GreaterOrEqualViolated => write!
                (f,
                "{} is too small. The value must be greater or equal to {:#?}.",
                stringify! (GrdF64Val), sym_lo_f64()), GrdF64ValError ::
                LessViolated => write!
                (f, "{} is too big. The value must be less than {:#?}.",
                stringify! (GrdF64Val), sym_hi_f64()),
            }
        }
    } impl :: core :: error :: Error for GrdF64ValError
    {
        fn source(& self) -> Option < &
        (dyn :: core :: error :: Error + 'static) > { None }
    } impl GrdF64Val
    {
        pub fn try_new(raw_value : f64) -> :: core :: result :: Result < Self,
        GrdF64ValError >
        {
            let sanitized_value : f64 = Self :: __sanitize__(raw_value);
            #[allow(clippy :: question_mark)] if let Err(e) = Self ::
            __validate__(& sanitized_value) { return Err(e); }
            Ok(GrdF64Val(sanitized_value))
        } fn __sanitize__(mut value : f64) -> f64 { value } fn
        __validate__(val : & f64) -> core :: result :: Result < (),
        GrdF64ValError >
        {
            let val = * val; if ! val.is_finite()
            { return Err(GrdF64ValError :: FiniteViolated); } if val <
            sym_lo_f64()
            { return Err(GrdF64ValError :: GreaterOrEqualViolated); } if val
            >= sym_hi_f64() { return Err(GrdF64ValError :: LessViolated); }
            Ok(())
        }
    } impl GrdF64Val { #[inline] pub fn into_inner(self) -> f64 { self.0 } }
    impl :: serde :: Serialize for GrdF64Val
    {
        fn serialize < S > (& self, serializer : S) -> :: core :: result ::
        Result < S :: Ok, S :: Error > where S : :: serde :: Serializer
        {
            :: serde :: ser :: Serializer ::
            serialize_newtype_struct(serializer, "GrdF64Val", & self.0)
        }
    } impl < 'de > :: serde :: Deserialize < 'de > for GrdF64Val
    {
        fn deserialize < D : :: serde :: Deserializer < 'de >>
        (deserializer : D) -> :: core :: result :: Result < Self, D :: Error >
        {
            struct __Visitor < 'de >
            {
                marker : :: core :: marker :: PhantomData < GrdF64Val > ,
                lifetime : :: core :: marker :: PhantomData < & 'de () > ,
            } impl < 'de > :: serde :: de :: Visitor < 'de > for __Visitor <
            'de >
            {
                type Value = GrdF64Val; fn
                expecting(& self, formatter : & mut :: core :: fmt ::
                Formatter) -> :: core :: fmt :: Result
                { write! (formatter, "tuple struct GrdF64Val") } fn
                visit_newtype_struct < DE > (self, deserializer : DE) -> ::
                core :: result :: Result < Self :: Value, DE :: Error > where
                DE : :: serde :: Deserializer < 'de >
                {
                    let raw_value : f64 = match < f64 as :: serde :: Deserialize
                    > :: deserialize(deserializer)
                    { Ok(val) => val, Err(err) => return Err(err) }; GrdF64Val
                    ::
                    try_new(raw_value).map_err(| validation_error |
                    {
                        < DE :: Error as serde :: de :: Error > ::
                        custom(core :: format_args!
                        ("{validation_error} Expected valid {}", "GrdF64Val"))
                    })
                }
            } :: serde :: de :: Deserializer ::
            deserialize_newtype_struct(deserializer, "GrdF64Val", __Visitor
            {
                marker : Default :: default(), lifetime : Default ::
                default(),
            })
        }
    } #[derive(Debug)] pub enum GrdF64ValParseError
    {
        Parse(< f64 as :: core :: str :: FromStr > :: Err),
        Validate(GrdF64ValError),
    } impl :: core :: fmt :: Display for GrdF64ValParseError
    {
        fn fmt(& self, formatter : & mut :: core :: fmt :: Formatter < '_ >)
        -> :: core :: fmt :: Result
        {
            match * self
            {
                Self :: Validate(ref validation_error) =>
                {
                    formatter.write_fmt(:: core :: format_args!
                    ("Failed to parse {}: {}", "GrdF64Val", validation_error))
                } Self :: Parse(ref parse_error) =>
                {
                    formatter.write_fmt(:: core :: format_args!
                    ("Failed to parse {}: {:?}", "GrdF64Val", parse_error))
                }
            }
        }
    } impl :: core :: error :: Error for GrdF64ValParseError
    {
        fn source(& self) -> Option < &
        (dyn :: core :: error :: Error + 'static) > { None }
    } impl :: core :: str :: FromStr for GrdF64Val
    {
        type Err = GrdF64ValParseError; fn from_str(input : & str) -> :: core
        :: result :: Result < Self, GrdF64ValParseError >
        {
            match < f64 as :: core :: str :: FromStr > :: from_str(input)
            {
                :: core :: result :: Result :: Err(parse_error) =>
                {
                    :: core :: result :: Result ::
                    Err(GrdF64ValParseError :: Parse(parse_error))
                } :: core :: result :: Result :: Ok(parsed_value) => match <
                Self > :: try_new(parsed_value)
                {
                    :: core :: result :: Result :: Ok(valid) => :: core ::
                    result :: Result :: Ok(valid), :: core :: result :: Result
                    :: Err(validation_error) =>
                    {
                        :: core :: result :: Result ::
                        Err(GrdF64ValParseError :: Validate(validation_error))
                    }
                },
            }
        }
    } impl :: core :: convert :: TryFrom < f64 > for GrdF64Val
    {
        type Error = GrdF64ValError; #[inline] fn try_from(raw_value : f64) ->
        :: core :: result :: Result < GrdF64Val, Self :: Error >
        { Self :: try_new(raw_value) }
    } impl :: arbitrary :: Arbitrary < '_ > for GrdF64Val
    {
        fn arbitrary(u : & mut :: arbitrary :: Unstructured < '_ >) -> ::
        arbitrary :: Result < Self >
        {
            let inner_value : f64 =
            {
                let from0to1 =
                {
                    let random_int : u64 = u.arbitrary() ? ;
                    (random_int as f64 / u64 :: MAX as f64) as f64
                }; let x = (sym_lo_f64()) * (1.0 - from0to1) + (sym_hi_f64())
                * from0to1; let x = if x < (sym_lo_f64()) { sym_lo_f64() }
                else if x > (sym_hi_f64()) { sym_hi_f64() } else { x }; let x
                = x; let x = if x >= (sym_hi_f64())
                {
                    let boundary : f64 = sym_hi_f64(); if boundary == 0.0
                    { - f64 :: from_bits(1) } else if boundary > 0.0
                    { f64 :: from_bits(boundary.to_bits() - 1) } else
                    { f64 :: from_bits(boundary.to_bits() + 1) }
                } else { x }; x
            };
            Ok(Self ::
            try_new(inner_value).unwrap_or_else(| err |
            {
                panic!
                ("\nArbitrary generated an invalid value for {}.\nInvalid inner value: {:?}\nValidation error: {:?}\n\n{}",
                "GrdF64Val", inner_value, err,
                "\nClick the following link to report the issue:\n\nhttps://github.com/greyblake/nutype/issues/new?title=Arbitrary%20generates%20an%20invalid%20value%20for%20f64&body=%0AHaving%20my%20type%20defined%20as%3A%0A%0A%60%60%60rs%0A%2F%2F%20Put%20the%20definition%20of%20your%20type%20with%20%23%5Bnutype%5D%20macro%20here%0A%60%60%60%0A%0AI%20got%20a%20panic%20when%20I%20tried%20to%20generate%20a%20value%20with%20Arbitrary.%0A&labels=bug\n\n");
            }))
        } #[inline] fn size_hint(_depth : usize) -> (usize, Option < usize >)
        { let n = :: core :: mem :: size_of :: < f64 > (); (n, Some(n)) }
    } #[cfg(test)] mod tests
    {
        use super :: * ; #[test] fn
        should_have_consistent_lower_and_upper_boundaries()
        {
            assert!
            (sym_hi_f64() >= sym_lo_f64(),
            "\nInconsistent lower and upper boundaries for type `GrdF64Val`\nThe upper boundary `sym_hi_f64()` must be greater than or equal to the lower boundary `sym_lo_f64()`\nNote: the test is generated automatically by #[nutype] macro.\n");
        }
    }
} pub use __nutype_GrdF64Val__ :: GrdF64Val; pub use __nutype_GrdF64Val__ ::
GrdF64ValError; pub use __nutype_GrdF64Val__ :: GrdF64ValParseError;
