// NUTYPE_VERIF_INPUT #[nutype(validate(greater_or_equal = 0.0, less_or_equal = 10.0), derive(Debug, Default), default = 5.0)] pub struct DefF32Valid(f32);
#[doc(hidden)]
#[allow(non_snake_case, reason =
"we keep original structure name which is probably CamelCase")] mod
__nutype_DefF32Valid__
{
    use super :: * ; #[derive(Debug,)] pub struct DefF32Valid(f32);
    #[derive(Debug, Clone, PartialEq, Eq)]
    #[allow(clippy :: enum_variant_names)] pub enum DefF32ValidError
    { GreaterOrEqualViolated, LessOrEqualViolated, } impl :: core :: fmt ::
    Display for DefF32ValidError
    {
        fn fmt(& self, f : & mut :: core :: fmt :: Formatter < '_ >) -> ::
        core :: fmt :: Result
        {
            match self
            {
                DefF32ValidError :: GreaterOrEqualViolated => write!
                (f,
                "{} is too small. The value must be greater or equal to {:#?}.",
                stringify! (DefF32Valid), 0f32), DefF32ValidError ::
                LessOrEqualViolated => write!
                (f, "{} is too big. The value must be less than {:#?}.",
                stringify! (DefF32Valid), 10f32),
            }
        }
    } impl :: core :: error :: Error for DefF32ValidError
    {
        fn source(& self) -> Option < &
        (dyn :: core :: error :: Error + 'static) > { None }
    } impl DefF32Valid
    {
        pub fn try_new(raw_value : f32) -> :: core :: result :: Result < Self,
        DefF32ValidError >
        {
            let sanitized_value : f32 = Self :: __sanitize__(raw_value);
            #[allow(clippy :: question_mark)] if let Err(e) = Self ::
            __validate__(& sanitized_value) { return Err(e); }
            Ok(DefF32Valid(sanitized_value))
        } fn __sanitize__(mut value : f32) -> f32 { value } fn
        __validate__(val : & f32) -> core :: result :: Result < (),
        DefF32ValidError >
        {
            let val = * val; if val < 0f32
            { return Err(DefF32ValidError :: GreaterOrEqualViolated); } if val
            > 10f32 { return Err(DefF32ValidError :: LessOrEqualViolated); }
            Ok(())
        }
    } impl DefF32Valid { #[inline] pub fn into_inner(self) -> f32 { self.0 } }
    impl :: core :: default :: Default for DefF32Valid
    {
        fn default() -> Self
        {
            Self ::
            try_new(5.0).unwrap_or_else(| err |
            {
                let tp = "DefF32Valid"; panic!
                ("\nDefault value for type `{tp}` is invalid.\nERROR: {err:?}\n");
            })
        }
    } #[cfg(test)] mod tests
    {
        use super :: * ; #[test] fn
        should_have_consistent_lower_and_upper_boundaries()
        {
            assert!
            (10f32 >= 0f32,
            "\nInconsistent lower and upper boundaries for type `DefF32Valid`\nThe upper boundary `10f32` must be greater than or equal to the lower boundary `0f32`\nNote: the test is generated automatically by #[nutype] macro.\n");
        } #[test] fn should_have_valid_default_value()
        {
            let default_inner_value = DefF32Valid :: default().into_inner();
            DefF32Valid ::
            try_new(default_inner_value).expect("\nType `DefF32Valid` has invalid default value `5.0`\nNote: the test is generated automatically by #[nutype] macro\n");
        }
    }
} pub use __nutype_DefF32Valid__ :: DefF32Valid; pub use
__nutype_DefF32Valid__ :: DefF32ValidError;
