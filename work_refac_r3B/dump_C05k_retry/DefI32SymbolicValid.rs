// NUTYPE_VERIF_INPUT #[nutype(validate(greater_or_equal = sym_lo_i32()), derive(Debug, Default), default = sym_hi_i32())] pub struct DefI32SymbolicValid(i32);
#[doc(hidden)]
#[allow(non_snake_case, reason =
"we keep original structure name which is probably CamelCase")] mod
__nutype_DefI32SymbolicValid__
{
    use super :: * ; #[derive(Debug,)] pub struct DefI32SymbolicValid(i32);
    #[derive(Debug, Clone, PartialEq, Eq)]
    #[allow(clippy :: enum_variant_names)] pub enum DefI32SymbolicValidError
    { GreaterOrEqualViolated, } impl :: core :: fmt :: Display for
    DefI32SymbolicValidError
    {
        fn fmt(& self, f : & mut :: core :: fmt :: Formatter < '_ >) -> ::
        core :: fmt :: Result
        {
            match self
            {
                DefI32SymbolicValidError :: GreaterOrEqualViolated => write!
                (f,
                "{} is too small. The value must be greater or equal to {:#?}.",
                stringify! (DefI32SymbolicValid), sym_lo_i32()),
            }
        }
    } impl :: core :: error :: Error for DefI32SymbolicValidError
    {
        fn source(& self) -> Option < &
        (dyn :: core :: error :: Error + 'static) > { None }
    } impl DefI32SymbolicValid
    {
        pub fn try_new(raw_value : i32) -> :: core :: result :: Result < Self,
        DefI32SymbolicValidError >
        {
            let sanitized_value : i32 = Self :: __sanitize__(raw_value);
            #[allow(clippy :: question_mark)] if let Err(e) = Self ::
            __validate__(& sanitized_value) { return Err(e); }
            Ok(DefI32SymbolicValid(sanitized_value))
        } fn __sanitize__(mut value : i32) -> i32 { value } fn
        __validate__(val : & i32) -> :: core :: result :: Result < (),
        DefI32SymbolicValidError >
        {
            let val = * val; if val < sym_lo_i32()
            {
                return
                Err(DefI32SymbolicValidError :: GreaterOrEqualViolated);
            } Ok(())
        }
    } impl DefI32SymbolicValid
    { #[inline] pub fn into_inner(self) -> i32 { self.0 } } impl :: core ::
    default :: Default for DefI32SymbolicValid
    {
        fn default() -> Self
        {
            Self ::
            try_new(sym_hi_i32()).unwrap_or_else(| err |
            {
                let tp = "DefI32SymbolicValid"; panic!
                ("\nDefault value for type `{tp}` is invalid.\nERROR: {err:?}\n");
            })
        }
    } #[cfg(test)] mod tests
    {
        use super :: * ; #[test] fn should_have_valid_default_value()
        {
            let default_inner_value = DefI32SymbolicValid ::
            default().into_inner(); DefI32SymbolicValid ::
            try_new(default_inner_value).expect("\nType `DefI32SymbolicValid` has invalid default value `sym_hi_i32()`\nNote: the test is generated automatically by #[nutype] macro\n");
        }
    }
} pub use __nutype_DefI32SymbolicValid__ :: DefI32SymbolicValid; pub use
__nutype_DefI32SymbolicValid__ :: DefI32SymbolicValidError;
