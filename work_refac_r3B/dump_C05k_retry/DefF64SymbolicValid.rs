// NUTYPE_VERIF_INPUT #[nutype(validate(greater_or_equal = sym_lo_f64()), derive(Debug, Default), default = sym_hi_f64())] pub struct DefF64SymbolicValid(f64);
#[doc(hidden)]
#[allow(non_snake_case, reason =
"we keep original structure name which is probably CamelCase")] mod
__nutype_DefF64SymbolicValid__
{
    use super :: * ; #[derive(Debug,)] pub struct DefF64SymbolicValid(f64);
    #[derive(Debug, Clone, PartialEq, Eq)]
    #[allow(clippy :: enum_variant_names)] pub enum DefF64SymbolicValidError
    { GreaterOrEqualViolated, } impl :: core :: fmt :: Display for
    DefF64SymbolicValidError
    {
        fn fmt(& self, f : & mut :: core :: fmt :: Formatter < '_ >) -> ::
        core :: fmt :: Result
        {
            match self
            {
                DefF64SymbolicValidError :: GreaterOrEqualViolated => write!
                (f,
                "{} is too small. The value must be greater or equal to {:#?}.",
                stringify! (DefF64SymbolicValid), sym_lo_f64()),
            }
        }
    } impl :: core :: error :: Error for DefF64SymbolicValidError
    {
        fn source(& self) -> Option < &
        (dyn :: core :: error :: Error + 'static) > { None }
    } impl DefF64SymbolicValid
    {
        pub fn try_new(raw_value : f64) -> :: core :: result :: Result < Self,
        DefF64SymbolicValidError >
        {
            let sanitized_value : f64 = Self :: __sanitize__(raw_value);
            #[allow(clippy :: question_mark)] if let Err(e) = Self ::
            __validate__(& sanitized_value) { return Err(e); }
            Ok(DefF64SymbolicValid(sanitized_value))
        } fn __sanitize__(mut value : f64) -> f64 { value } fn
        __validate__(val : & f64) -> core :: result :: Result < (),
        DefF64SymbolicValidError >
        {
            let val = * val; if val < sym_lo_f64()
            {
                return
                Err(DefF64SymbolicValidError :: GreaterOrEqualViolated);
            } Ok(())
        }
    } impl DefF64SymbolicValid
    { #[inline] pub fn into_inner(self) -> f64 { self.0 } } impl :: core ::
    default :: Default for DefF64SymbolicValid
    {
        fn default() -> Self
        {
            Self ::
            try_new(sym_hi_f64()).unwrap_or_else(| err |
            {
                let tp = "DefF64SymbolicValid"; panic!
                ("\nDefault value for type `{tp}` is invalid.\nERROR: {err:?}\n");
            })
        }
    } #[cfg(test)] mod tests
    {
        use super :: * ; #[test] fn should_have_valid_default_value()
        {
            let default_inner_value = DefF64SymbolicValid ::
            default().into_inner(); DefF64SymbolicValid ::
            try_new(default_inner_value).expect("\nType `DefF64SymbolicValid` has invalid default value `sym_hi_f64()`\nNote: the test is generated automatically by #[nutype] macro\n");
        }
    }
} pub use __nutype_DefF64SymbolicValid__ :: DefF64SymbolicValid; pub use
__nutype_DefF64SymbolicValid__ :: DefF64SymbolicValidError;
