// NUTYPE_VERIF_INPUT #[nutype(validate(greater_or_equal = 0, less_or_equal = 10), derive(Debug, Default), default = 5)] pub struct DefU8Valid(u8);
#[doc(hidden)]
#[allow(non_snake_case, reason =
"we keep original structure name which is probably CamelCase")] mod
__nutype_DefU8Valid__
{
    use super :: * ; #[derive(Debug,)] pub struct DefU8Valid(u8);
    #[derive(Debug, Clone, PartialEq, Eq)]
    #[allow(clippy :: enum_variant_names)] pub enum DefU8ValidError
    { GreaterOrEqualViolated, LessOrEqualViolated, } impl :: core :: fmt ::
    Display for DefU8ValidError
    {
        fn fmt(& self, f : & mut :: core :: fmt :: Formatter < '_ >) -> ::
        core :: fmt :: Result
        {
            match self
            {
                DefU8ValidError :: GreaterOrEqualViolated => write!
                (f,
                "{} is too small. The value must be greater or equal to {:#?}.",
                stringify! (DefU8Valid), 0u8), DefU8ValidError ::
                LessOrEqualViolated => write!
                (f,
                "{} is too big. The value must be less or equal to {:#?}.",
                stringify! (DefU8Valid), 10u8),
            }
        }
    } impl :: core :: error :: Error for DefU8ValidError
    {
        fn source(& self) -> Option < &
        (dyn :: core :: error :: Error + 'static) > { None }
    } impl DefU8Valid
    {
        pub fn try_new(raw_value : u8) -> :: core :: result :: Result < Self,
        DefU8ValidError >
        {
            let sanitized_value : u8 = Self :: __sanitize__(raw_value);
            #[allow(clippy :: question_mark)] if let Err(e) = Self ::
            __validate__(& sanitized_value) { return Err(e); }
            Ok(DefU8Valid(sanitized_value))
        } fn __sanitize__(mut value : u8) -> u8 { value } fn
        __validate__(val : & u8) -> :: core :: result :: Result < (),
        DefU8ValidError >
        {
            let val = * val; if val < 0u8
            { return Err(DefU8ValidError :: GreaterOrEqualViolated); } if val
            > 10u8 { return Err(DefU8ValidError :: LessOrEqualViolated); }
            Ok(())
        }
    } impl DefU8Valid { #[inline] pub fn into_inner(self) -> u8 { self.0 } }
    impl :: core :: default :: Default for DefU8Valid
    {
        fn default() -> Self
        {
            Self ::
            try_new(5).unwrap_or_else(| err |
            {
                let tp = "DefU8Valid"; panic!
                ("\nDefault value for type `{tp}` is invalid.\nERROR: {err:?}\n");
            })
        }
    } #[cfg(test)] mod tests
    {
        use super :: * ; #[test] fn
        should_have_consistent_lower_and_upper_boundaries()
        {
            assert!
            (10u8 >= 0u8,
            "\nInconsistent lower and upper boundaries for type `DefU8Valid`\nThe upper boundary `10u8` must be greater than or equal to the lower boundary `0u8`\nNote: the test is generated automatically by #[nutype] macro.\n");
        } #[test] fn should_have_valid_default_value()
        {
            let default_inner_value = DefU8Valid :: default().into_inner();
            DefU8Valid ::
            try_new(default_inner_value).expect("\nType `DefU8Valid` has invalid default value `5`\nNote: the test is generated automatically by #[nutype] macro\n");
        }
    }
} pub use __nutype_DefU8Valid__ :: DefU8Valid; pub use __nutype_DefU8Valid__
:: DefU8ValidError;
