// NUTYPE_VERIF_INPUT #[nutype(validate(greater_or_equal = 0, less_or_equal = 10), derive(Debug, Default), default = 5)] pub struct DefI32Valid(i32);
#[doc(hidden)]
#[allow(non_snake_case, reason =
"we keep original structure name which is probably CamelCase")] mod
__nutype_DefI32Valid__
{
    use super :: * ; #[derive(Debug,)] pub struct DefI32Valid(i32);
    #[derive(Debug, Clone, PartialEq, Eq)]
    #[allow(clippy :: enum_variant_names)] pub enum DefI32ValidError
    { GreaterOrEqualViolated, LessOrEqualViolated, } impl :: core :: fmt ::
    Display for DefI32ValidError
    {
        fn fmt(& self, f : & mut :: core :: fmt :: Formatter < '_ >) -> ::
        core :: fmt :: Result
        {
            match self
            {
                DefI32ValidError :: GreaterOrEqualViolated => write!
                (f,
                "{} is too small. The value must be greater or equal to {:#?}.",
                stringify! (DefI32Valid), 0i32), DefI32ValidError ::
                LessOrEqualViolated => write!
                (f,
                "{} is too big. The value must be less or equal to {:#?}.",
                stringify! (DefI32Valid), 10i32),
            }
        }
    } impl :: core :: error :: Error for DefI32ValidError
    {
        fn source(& self) -> Option < &
        (dyn :: core :: error :: Error + 'static) > { None }
    } impl DefI32Valid
    {
        pub fn try_new(raw_value : i32) -> :: core :: result :: Result < Self,
        DefI32ValidError >
        {
            let sanitized_value : i32 = Self :: __sanitize__(raw_value);
            #[allow(clippy :: question_mark)] if let Err(e) = Self ::
            __validate__(& sanitized_value) { return Err(e); }
            Ok(DefI32Valid(sanitized_value))
        } fn __sanitize__(mut value : i32) -> i32 { value } fn
        __validate__(val : & i32) -> :: core :: result :: Result < (),
        DefI32ValidError >
        {
            let val = * val; if val < 0i32
            { return Err(DefI32ValidError :: GreaterOrEqualViolated); } if val
            > 10i32 { return Err(DefI32ValidError :: LessOrEqualViolated); }
            Ok(())
        }
    } impl DefI32Valid { #[inline] pub fn into_inner(self) -> i32 { self.0 } }
    impl :: core :: default :: Default for DefI32Valid
    {
        fn default() -> Self
        {
            Self ::
            try_new(5).unwrap_or_else(| err |
            {
                let tp = "DefI32Valid"; panic!
                ("\nDefault value for type `{tp}` is invalid.\nERROR: {err:?}\n");
            })
        }
    } #[cfg(test)] mod tests
    {
        use super :: * ; #[test] fn
        should_have_consistent_lower_and_upper_boundaries()
        {
            assert!
            (10i32 >= 0i32,
            "\nInconsistent lower and upper boundaries for type `DefI32Valid`\nThe upper boundary `10i32` must be greater than or equal to the lower boundary `0i32`\nNote: the test is generated automatically by #[nutype] macro.\n");
        } #[test] fn should_have_valid_default_value()
        {
            let default_inner_value = DefI32Valid :: default().into_inner();
            DefI32Valid ::
            try_new(default_inner_value).expect("\nType `DefI32Valid` has invalid default value `5`\nNote: the test is generated automatically by #[nutype] macro\n");
        }
    }
} pub use __nutype_DefI32Valid__ :: DefI32Valid; pub use
__nutype_DefI32Valid__ :: DefI32ValidError;
