// NUTYPE_VERIF_INPUT #[nutype(validate(len_char_max = sym_len_hi()), derive(Debug))] pub struct C16StrMaxSym(String);
#[doc(hidden)]
#[allow(
    non_snake_case,
    reason = "we keep original structure name which is probably CamelCase"
)]
mod __nutype_C16StrMaxSym__ {
    use super::*;
    #[derive(Debug)]
    pub struct C16StrMaxSym(String);
    #[derive(Debug, Clone, PartialEq, Eq)]
    #[allow(clippy::enum_variant_names)]
    pub enum C16StrMaxSymError {
        LenCharMaxViolated,
    }
    impl ::core::fmt::Display for C16StrMaxSymError {
        fn fmt(&self, f: &mut ::core::fmt::Formatter<'_>) -> ::core::fmt::Result {
            match self {
                C16StrMaxSymError::LenCharMaxViolated => write!(
                    f,
                    "{} is too long. The value length must be at most {:#?} character(s).",
                    stringify!(C16StrMaxSym),
                    sym_len_hi()
                ),
            }
        }
    }
    impl ::core::error::Error for C16StrMaxSymError {
        fn source(&self) -> Option<&(dyn ::core::error::Error + 'static)> {
            None
        }
    }
    impl C16StrMaxSym {
        pub fn try_new(
            raw_value: impl Into<String>,
        ) -> ::core::result::Result<Self, C16StrMaxSymError> {
            let raw_value = raw_value.into();
            let sanitized_value: String = Self::__sanitize__(raw_value);
            #[allow(clippy::question_mark)]
            if let Err(e) = Self::__validate__(&sanitized_value) {
                return Err(e);
            }
            Ok(C16StrMaxSym(sanitized_value))
        }
        fn __sanitize__(value: String) -> String {
            value
        }
        fn __validate__(val: &str) -> ::core::result::Result<(), C16StrMaxSymError> {
            let chars_count = val.chars().count();
            if chars_count > sym_len_hi() {
                return Err(C16StrMaxSymError::LenCharMaxViolated);
            }
            Ok(())
        }
    }
    impl C16StrMaxSym {
        #[inline]
        pub fn into_inner(self) -> String {
            self.0
        }
    }
    #[cfg(test)]
    mod tests {
        use super::*;
    }
}
pub use __nutype_C16StrMaxSym__::C16StrMaxSym;
pub use __nutype_C16StrMaxSym__::C16StrMaxSymError;
