// NUTYPE_VERIF_INPUT #[nutype(validate(greater_or_equal = 100), derive(Debug))] pub struct C16U128GreaterOrEqualLitBig(u128);
#[doc(hidden)]
#[allow(
    non_snake_case,
    reason = "we keep original structure name which is probably CamelCase"
)]
mod __nutype_C16U128GreaterOrEqualLitBig__ {
    use super::*;
    #[derive(Debug)]
    pub struct C16U128GreaterOrEqualLitBig(u128);
    #[derive(Debug, Clone, PartialEq, Eq)]
    #[allow(clippy::enum_variant_names)]
    pub enum C16U128GreaterOrEqualLitBigError {
        GreaterOrEqualViolated,
    }
    impl ::core::fmt::Display for C16U128GreaterOrEqualLitBigError {
        fn fmt(&self, f: &mut ::core::fmt::Formatter<'_>) -> ::core::fmt::Result {
            match self {
                C16U128GreaterOrEqualLitBigError::GreaterOrEqualViolated => write!(
                    f,
                    "{} is too small. The value must be greater or equal to {:#?}.",
                    stringify!(C16U128GreaterOrEqualLitBig),
                    100u128
                ),
            }
        }
    }
    impl ::core::error::Error for C16U128GreaterOrEqualLitBigError {
        fn source(&self) -> Option<&(dyn ::core::error::Error + 'static)> {
            None
        }
    }
    impl C16U128GreaterOrEqualLitBig {
        pub fn try_new(
            raw_value: u128,
        ) -> ::core::result::Result<Self, C16U128GreaterOrEqualLitBigError> {
            let sanitized_value: u128 = Self::__sanitize__(raw_value);
            #[allow(clippy::question_mark)]
            if let Err(e) = Self::__validate__(&sanitized_value) {
                return Err(e);
            }
            Ok(C16U128GreaterOrEqualLitBig(sanitized_value))
        }
        fn __sanitize__(mut value: u128) -> u128 {
            value
        }
        fn __validate__(
            val: &u128,
        ) -> ::core::result::Result<(), C16U128GreaterOrEqualLitBigError> {
            let val = *val;
            if val < 100u128 {
                return Err(C16U128GreaterOrEqualLitBigError::GreaterOrEqualViolated);
            }
            Ok(())
        }
    }
    impl C16U128GreaterOrEqualLitBig {
        #[inline]
        pub fn into_inner(self) -> u128 {
            self.0
        }
    }
    #[cfg(test)]
    mod tests {
        use super::*;
    }
}
pub use __nutype_C16U128GreaterOrEqualLitBig__::C16U128GreaterOrEqualLitBig;
pub use __nutype_C16U128GreaterOrEqualLitBig__::C16U128GreaterOrEqualLitBigError;
