// NUTYPE_VERIF_INPUT #[nutype(validate(greater_or_equal = sym_lo_u8()), derive(Debug))] pub struct C16U8GreaterOrEqualSym(u8);
#[doc(hidden)]
#[allow(
    non_snake_case,
    reason = "we keep original structure name which is probably CamelCase"
)]
mod __nutype_C16U8GreaterOrEqualSym__ {
    use super::*;
    #[derive(Debug)]
    pub struct C16U8GreaterOrEqualSym(u8);
    #[derive(Debug, Clone, PartialEq, Eq)]
    #[allow(clippy::enum_variant_names)]
    pub enum C16U8GreaterOrEqualSymError {
        GreaterOrEqualViolated,
    }
    impl ::core::fmt::Display for C16U8GreaterOrEqualSymError {
        fn fmt(&self, f: &mut ::core::fmt::Formatter<'_>) -> ::core::fmt::Result {
            match self {
                C16U8GreaterOrEqualSymError::GreaterOrEqualViolated => write!(
                    f,
                    "{} is too small. The value must be greater or equal to {:#?}.",
                    stringify!(C16U8GreaterOrEqualSym),
                    sym_lo_u8()
                ),
            }
        }
    }
    impl ::core::error::Error for C16U8GreaterOrEqualSymError {
        fn source(&self) -> Option<&(dyn ::core::error::Error + 'static)> {
            None
        }
    }
    impl C16U8GreaterOrEqualSym {
        pub fn try_new(raw_value: u8) -> ::core::result::Result<Self, C16U8GreaterOrEqualSymError> {
            let sanitized_value: u8 = Self::__sanitize__(raw_value);
            #[allow(clippy::question_mark)]
            if let Err(e) = Self::__validate__(&sanitized_value) {
                return Err(e);
            }
            Ok(C16U8GreaterOrEqualSym(sanitized_value))
        }
        fn __sanitize__(mut value: u8) -> u8 {
            value
        }
        fn __validate__(val: &u8) -> ::core::result::Result<(), C16U8GreaterOrEqualSymError> {
            let val = *val;
            if val < sym_lo_u8() {
                return Err(C16U8GreaterOrEqualSymError::GreaterOrEqualViolated);
            }
            Ok(())
        }
    }
    impl C16U8GreaterOrEqualSym {
        #[inline]
        pub fn into_inner(self) -> u8 {
            self.0
        }
    }
    #[cfg(test)]
    mod tests {
        use super::*;
    }
}
pub use __nutype_C16U8GreaterOrEqualSym__::C16U8GreaterOrEqualSym;
pub use __nutype_C16U8GreaterOrEqualSym__::C16U8GreaterOrEqualSymError;
