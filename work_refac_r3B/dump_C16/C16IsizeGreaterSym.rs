// NUTYPE_VERIF_INPUT #[nutype(validate(greater = sym_lo_isize()), derive(Debug))] pub struct C16IsizeGreaterSym(isize);
#[doc(hidden)]
#[allow(
    non_snake_case,
    reason = "we keep original structure name which is probably CamelCase"
)]
mod __nutype_C16IsizeGreaterSym__ {
    use super::*;
    #[derive(Debug)]
    pub struct C16IsizeGreaterSym(isize);
    #[derive(Debug, Clone, PartialEq, Eq)]
    #[allow(clippy::enum_variant_names)]
    pub enum C16IsizeGreaterSymError {
        GreaterViolated,
    }
    impl ::core::fmt::Display for C16IsizeGreaterSymError {
        fn fmt(&self, f: &mut ::core::fmt::Formatter<'_>) -> ::core::fmt::Result {
            match self {
                C16IsizeGreaterSymError::GreaterViolated => write!(
                    f,
                    "{} is too small. The value must be greater than {:#?}.",
                    stringify!(C16IsizeGreaterSym),
                    sym_lo_isize()
                ),
            }
        }
    }
    impl ::core::error::Error for C16IsizeGreaterSymError {
        fn source(&self) -> Option<&(dyn ::core::error::Error + 'static)> {
            None
        }
    }
    impl C16IsizeGreaterSym {
        pub fn try_new(raw_value: isize) -> ::core::result::Result<Self, C16IsizeGreaterSymError> {
            let sanitized_value: isize = Self::__sanitize__(raw_value);
            #[allow(clippy::question_mark)]
            if let Err(e) = Self::__validate__(&sanitized_value) {
                return Err(e);
            }
            Ok(C16IsizeGreaterSym(sanitized_value))
        }
        fn __sanitize__(mut value: isize) -> isize {
            value
        }
        fn __validate__(val: &isize) -> ::core::result::Result<(), C16IsizeGreaterSymError> {
            let val = *val;
            if val <= sym_lo_isize() {
                return Err(C16IsizeGreaterSymError::GreaterViolated);
            }
            Ok(())
        }
    }
    impl C16IsizeGreaterSym {
        #[inline]
        pub fn into_inner(self) -> isize {
            self.0
        }
    }
    #[cfg(test)]
    mod tests {
        use super::*;
    }
}
pub use __nutype_C16IsizeGreaterSym__::C16IsizeGreaterSym;
pub use __nutype_C16IsizeGreaterSym__::C16IsizeGreaterSymError;
