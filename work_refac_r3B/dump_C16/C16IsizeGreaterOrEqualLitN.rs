// NUTYPE_VERIF_INPUT #[nutype(validate(greater_or_equal = -7), derive(Debug))] pub struct C16IsizeGreaterOrEqualLitN(isize);
#[doc(hidden)]
#[allow(
    non_snake_case,
    reason = "we keep original structure name which is probably CamelCase"
)]
mod __nutype_C16IsizeGreaterOrEqualLitN__ {
    use super::*;
    #[derive(Debug)]
    pub struct C16IsizeGreaterOrEqualLitN(isize);
    #[derive(Debug, Clone, PartialEq, Eq)]
    #[allow(clippy::enum_variant_names)]
    pub enum C16IsizeGreaterOrEqualLitNError {
        GreaterOrEqualViolated,
    }
    impl ::core::fmt::Display for C16IsizeGreaterOrEqualLitNError {
        fn fmt(&self, f: &mut ::core::fmt::Formatter<'_>) -> ::core::fmt::Result {
            match self {
                C16IsizeGreaterOrEqualLitNError::GreaterOrEqualViolated => write!(
                    f,
                    "{} is too small. The value must be greater or equal to {:#?}.",
                    stringify!(C16IsizeGreaterOrEqualLitN),
                    -7isize
                ),
            }
        }
    }
    impl ::core::error::Error for C16IsizeGreaterOrEqualLitNError {
        fn source(&self) -> Option<&(dyn ::core::error::Error + 'static)> {
            None
        }
    }
    impl C16IsizeGreaterOrEqualLitN {
        pub fn try_new(
            raw_value: isize,
        ) -> ::core::result::Result<Self, C16IsizeGreaterOrEqualLitNError> {
            let sanitized_value: isize = Self::__sanitize__(raw_value);
            #[allow(clippy::question_mark)]
            if let Err(e) = Self::__validate__(&sanitized_value) {
                return Err(e);
            }
            Ok(C16IsizeGreaterOrEqualLitN(sanitized_value))
        }
        fn __sanitize__(mut value: isize) -> isize {
            value
        }
        fn __validate__(
            val: &isize,
        ) -> ::core::result::Result<(), C16IsizeGreaterOrEqualLitNError> {
            let val = *val;
            if val < -7isize {
                return Err(C16IsizeGreaterOrEqualLitNError::GreaterOrEqualViolated);
            }
            Ok(())
        }
    }
    impl C16IsizeGreaterOrEqualLitN {
        #[inline]
        pub fn into_inner(self) -> isize {
            self.0
        }
    }
    #[cfg(test)]
    mod tests {
        use super::*;
    }
}
pub use __nutype_C16IsizeGreaterOrEqualLitN__::C16IsizeGreaterOrEqualLitN;
pub use __nutype_C16IsizeGreaterOrEqualLitN__::C16IsizeGreaterOrEqualLitNError;
