// NUTYPE_VERIF_INPUT #[nutype(validate(less = -7), derive(Debug))] pub struct C16IsizeLessLitN(isize);
#[doc(hidden)]
#[allow(
    non_snake_case,
    reason = "we keep original structure name which is probably CamelCase"
)]
mod __nutype_C16IsizeLessLitN__ {
    use super::*;
    #[derive(Debug)]
    pub struct C16IsizeLessLitN(isize);
    #[derive(Debug, Clone, PartialEq, Eq)]
    #[allow(clippy::enum_variant_names)]
    pub enum C16IsizeLessLitNError {
        LessViolated,
    }
    impl ::core::fmt::Display for C16IsizeLessLitNError {
        fn fmt(&self, f: &mut ::core::fmt::Formatter<'_>) -> ::core::fmt::Result {
            match self {
                C16IsizeLessLitNError::LessViolated => write!(
                    f,
                    "{} is too big. The value must be less than {:#?}.",
                    stringify!(C16IsizeLessLitN),
                    -7isize
                ),
            }
        }
    }
    impl ::core::error::Error for C16IsizeLessLitNError {
        fn source(&self) -> Option<&(dyn ::core::error::Error + 'static)> {
            None
        }
    }
    impl C16IsizeLessLitN {
        pub fn try_new(raw_value: isize) -> ::core::result::Result<Self, C16IsizeLessLitNError> {
            let sanitized_value: isize = Self::__sanitize__(raw_value);
            #[allow(clippy::question_mark)]
            if let Err(e) = Self::__validate__(&sanitized_value) {
                return Err(e);
            }
            Ok(C16IsizeLessLitN(sanitized_value))
        }
        fn __sanitize__(mut value: isize) -> isize {
            value
        }
        fn __validate__(val: &isize) -> ::core::result::Result<(), C16IsizeLessLitNError> {
            let val = *val;
            if val >= -7isize {
                return Err(C16IsizeLessLitNError::LessViolated);
            }
            Ok(())
        }
    }
    impl C16IsizeLessLitN {
        #[inline]
        pub fn into_inner(self) -> isize {
            self.0
        }
    }
    #[cfg(test)]
    mod tests {
        use super::*;
    }
}
pub use __nutype_C16IsizeLessLitN__::C16IsizeLessLitN;
pub use __nutype_C16IsizeLessLitN__::C16IsizeLessLitNError;
