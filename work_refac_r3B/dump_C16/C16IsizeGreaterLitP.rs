// NUTYPE_VERIF_INPUT #[nutype(validate(greater = 7), derive(Debug))] pub struct C16IsizeGreaterLitP(isize);
#[doc(hidden)]
#[allow(
    non_snake_case,
    reason = "we keep original structure name which is probably CamelCase"
)]
mod __nutype_C16IsizeGreaterLitP__ {
    use super::*;
    #[derive(Debug)]
    pub struct C16IsizeGreaterLitP(isize);
    #[derive(Debug, Clone, PartialEq, Eq)]
    #[allow(clippy::enum_variant_names)]
    pub enum C16IsizeGreaterLitPError {
        GreaterViolated,
    }
    impl ::core::fmt::Display for C16IsizeGreaterLitPError {
        fn fmt(&self, f: &mut ::core::fmt::Formatter<'_>) -> ::core::fmt::Result {
            match self {
                C16IsizeGreaterLitPError::GreaterViolated => write!(
                    f,
                    "{} is too small. The value must be greater than {:#?}.",
                    stringify!(C16IsizeGreaterLitP),
                    7isize
                ),
            }
        }
    }
    impl ::core::error::Error for C16IsizeGreaterLitPError {
        fn source(&self) -> Option<&(dyn ::core::error::Error + 'static)> {
            None
        }
    }
    impl C16IsizeGreaterLitP {
        pub fn try_new(raw_value: isize) -> ::core::result::Result<Self, C16IsizeGreaterLitPError> {
            let sanitized_value: isize = Self::__sanitize__(raw_value);
            #[allow(clippy::question_mark)]
            if let Err(e) = Self::__validate__(&sanitized_value) {
                return Err(e);
            }
            Ok(C16IsizeGreaterLitP(sanitized_value))
        }
        fn __sanitize__(mut value: isize) -> isize {
            value
        }
        fn __validate__(val: &isize) -> ::core::result::Result<(), C16IsizeGreaterLitPError> {
            let val = *val;
            if val <= 7isize {
                return Err(C16IsizeGreaterLitPError::GreaterViolated);
            }
            Ok(())
        }
    }
    impl C16IsizeGreaterLitP {
        #[inline]
        pub fn into_inner(self) -> isize {
            self.0
        }
    }
    #[cfg(test)]
    mod tests {
        use super::*;
    }
}
pub use __nutype_C16IsizeGreaterLitP__::C16IsizeGreaterLitP;
pub use __nutype_C16IsizeGreaterLitP__::C16IsizeGreaterLitPError;
