// NUTYPE_VERIF_INPUT #[nutype(validate(less_or_equal = sym_hi_f64(), greater = sym_lo_f64()), derive(Debug, FromStr, Deserialize))] pub struct C16F64LeGtEmbed(f64);
#[doc(hidden)]
#[allow(
    non_snake_case,
    reason = "we keep original structure name which is probably CamelCase"
)]
mod __nutype_C16F64LeGtEmbed__ {
    use super::*;
    #[derive(Debug)]
    pub struct C16F64LeGtEmbed(f64);
    #[derive(Debug, Clone, PartialEq, Eq)]
    #[allow(clippy::enum_variant_names)]
    pub enum C16F64LeGtEmbedError {
        LessOrEqualViolated,
        GreaterViolated,
    }
    impl ::core::fmt::Display for C16F64LeGtEmbedError {
        fn fmt(&self, f: &mut ::core::fmt::Formatter<'_>) -> ::core::fmt::Result {
            match self {
                C16F64LeGtEmbedError::LessOrEqualViolated => write!(
                    f,
                    "{} is too big. The value must be less than {:#?}.",
                    stringify!(C16F64LeGtEmbed),
                    sym_hi_f64()
                ),
                C16F64LeGtEmbedError::GreaterViolated => write!(
                    f,
                    "{} is too small. The value must be greater than {:#?}.",
                    stringify!(C16F64LeGtEmbed),
                    sym_lo_f64()
                ),
            }
        }
    }
    impl ::core::error::Error for C16F64LeGtEmbedError {
        fn source(&self) -> Option<&(dyn ::core::error::Error + 'static)> {
            None
        }
    }
    impl C16F64LeGtEmbed {
        pub fn try_new(raw_value: f64) -> ::core::result::Result<Self, C16F64LeGtEmbedError> {
            let sanitized_value: f64 = Self::__sanitize__(raw_value);
            #[allow(clippy::question_mark)]
            if let Err(e) = Self::__validate__(&sanitized_value) {
                return Err(e);
            }
            Ok(C16F64LeGtEmbed(sanitized_value))
        }
        fn __sanitize__(mut value: f64) -> f64 {
            value
        }
        fn __validate__(val: &f64) -> core::result::Result<(), C16F64LeGtEmbedError> {
            let val = *val;
            if val > sym_hi_f64() {
                return Err(C16F64LeGtEmbedError::LessOrEqualViolated);
            }
            if val <= sym_lo_f64() {
                return Err(C16F64LeGtEmbedError::GreaterViolated);
            }
            Ok(())
        }
    }
    impl C16F64LeGtEmbed {
        #[inline]
        pub fn into_inner(self) -> f64 {
            self.0
        }
    }
    #[derive(Debug)]
    pub enum C16F64LeGtEmbedParseError {
        Parse(<f64 as ::core::str::FromStr>::Err),
        Validate(C16F64LeGtEmbedError),
    }
    impl ::core::fmt::Display for C16F64LeGtEmbedParseError {
        fn fmt(&self, formatter: &mut ::core::fmt::Formatter<'_>) -> ::core::fmt::Result {
            match *self {
                Self::Validate(ref validation_error) => formatter.write_fmt(::core::format_args!(
                    "Failed to parse {}: {}",
                    "C16F64LeGtEmbed",
                    validation_error
                )),
                Self::Parse(ref parse_error) => formatter.write_fmt(::core::format_args!(
                    "Failed to parse {}: {:?}",
                    "C16F64LeGtEmbed",
                    parse_error
                )),
            }
        }
    }
    impl ::core::error::Error for C16F64LeGtEmbedParseError {
        fn source(&self) -> Option<&(dyn ::core::error::Error + 'static)> {
            None
        }
    }
    impl ::core::str::FromStr for C16F64LeGtEmbed {
        type Err = C16F64LeGtEmbedParseError;
        fn from_str(input: &str) -> ::core::result::Result<Self, C16F64LeGtEmbedParseError> {
            match <f64 as ::core::str::FromStr>::from_str(input) {
                ::core::result::Result::Err(parse_error) => {
                    ::core::result::Result::Err(C16F64LeGtEmbedParseError::Parse(parse_error))
                }
                ::core::result::Result::Ok(parsed_value) => match <Self>::try_new(parsed_value) {
                    ::core::result::Result::Ok(valid) => ::core::result::Result::Ok(valid),
                    ::core::result::Result::Err(validation_error) => ::core::result::Result::Err(
                        C16F64LeGtEmbedParseError::Validate(validation_error),
                    ),
                },
            }
        }
    }
    impl<'de> ::serde::Deserialize<'de> for C16F64LeGtEmbed {
        fn deserialize<D: ::serde::Deserializer<'de>>(
            deserializer: D,
        ) -> ::core::result::Result<Self, D::Error> {
            struct __Visitor<'de> {
                marker: ::core::marker::PhantomData<C16F64LeGtEmbed>,
                lifetime: ::core::marker::PhantomData<&'de ()>,
            }
            impl<'de> ::serde::de::Visitor<'de> for __Visitor<'de> {
                type Value = C16F64LeGtEmbed;
                fn expecting(&self, formatter: &mut ::core::fmt::Formatter) -> ::core::fmt::Result {
                    write!(formatter, "tuple struct C16F64LeGtEmbed")
                }
                fn visit_newtype_struct<DE>(
                    self,
                    deserializer: DE,
                ) -> ::core::result::Result<Self::Value, DE::Error>
                where
                    DE: ::serde::Deserializer<'de>,
                {
                    let raw_value: f64 =
                        match <f64 as ::serde::Deserialize>::deserialize(deserializer) {
                            Ok(val) => val,
                            Err(err) => return Err(err),
                        };
                    C16F64LeGtEmbed::try_new(raw_value).map_err(|validation_error| {
                        <DE::Error as serde::de::Error>::custom(core::format_args!(
                            "{validation_error} Expected valid {}",
                            "C16F64LeGtEmbed"
                        ))
                    })
                }
            }
            ::serde::de::Deserializer::deserialize_newtype_struct(
                deserializer,
                "C16F64LeGtEmbed",
                __Visitor {
                    marker: Default::default(),
                    lifetime: Default::default(),
                },
            )
        }
    }
    #[cfg(test)]
    mod tests {
        use super::*;
        #[test]
        fn should_have_consistent_lower_and_upper_boundaries() {
            assert!
            (sym_hi_f64() >= sym_lo_f64(),
            "\nInconsistent lower and upper boundaries for type `C16F64LeGtEmbed`\nThe upper boundary `sym_hi_f64()` must be greater than or equal to the lower boundary `sym_lo_f64()`\nNote: the test is generated automatically by #[nutype] macro.\n");
        }
    }
}
pub use __nutype_C16F64LeGtEmbed__::C16F64LeGtEmbed;
pub use __nutype_C16F64LeGtEmbed__::C16F64LeGtEmbedError;
pub use __nutype_C16F64LeGtEmbed__::C16F64LeGtEmbedParseError;
