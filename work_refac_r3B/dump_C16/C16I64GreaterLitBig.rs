// NUTYPE_VERIF_INPUT #[nutype(validate(greater = 100), derive(Debug))] pub struct C16I64GreaterLitBig(i64);
#[doc(hidden)]
#[allow(
    non_snake_case,
    reason = "we keep original structure name which is probably CamelCase"
)]
mod __nutype_C16I64GreaterLitBig__ {
    use super::*;
    #[derive(Debug)]
    pub struct C16I64GreaterLitBig(i64);
    #[derive(Debug, Clone, PartialEq, Eq)]
    #[allow(clippy::enum_variant_names)]
    pub enum C16I64GreaterLitBigError {
        GreaterViolated,
    }
    impl ::core::fmt::Display for C16I64GreaterLitBigError {
        fn fmt(&self, f: &mut ::core::fmt::Formatter<'_>) -> ::core::fmt::Result {
            match self {
                C16I64GreaterLitBigError::GreaterViolated => write!(
                    f,
                    "{} is too small. The value must be greater than {:#?}.",
                    stringify!(C16I64GreaterLitBig),
                    100i64
                ),
            }
        }
    }
    impl ::core::error::Error for C16I64GreaterLitBigError {
        fn source(&self) -> Option<&(dyn ::core::error::Error + 'static)> {
            None
        }
    }
    impl C16I64GreaterLitBig {
        pub fn try_new(raw_value: i64) -> ::core::result::Result<Self, C16I64GreaterLitBigError> {
            let sanitized_value: i64 = Self::__sanitize__(raw_value);
            #[allow(clippy::question_mark)]
            if let Err(e) = Self::__validate__(&sanitized_value) {
                return Err(e);
            }
            Ok(C16I64GreaterLitBig(sanitized_value))
        }
        fn __sanitize__(mut value: i64) -> i64 {
            value
        }
        fn __validate__(val: &i64) -> ::core::result::Result<(), C16I64GreaterLitBigError> {
            let val = *val;
            if val <= 100i64 {
                return Err(C16I64GreaterLitBigError::GreaterViolated);
            }
            Ok(())
        }
    }
    impl C16I64GreaterLitBig {
        #[inline]
        pub fn into_inner(self) -> i64 {
            self.0
        }
    }
    #[cfg(test)]
    mod tests {
        use super::*;
    }
}
pub use __nutype_C16I64GreaterLitBig__::C16I64GreaterLitBig;
pub use __nutype_C16I64GreaterLitBig__::C16I64GreaterLitBigError;
