// NUTYPE_VERIF_INPUT #[nutype(validate(less_or_equal = sym_hi_u128(), greater = sym_lo_u128()), derive(Debug, FromStr, Deserialize))] pub struct C16U128LeGtEmbed(u128);
#[doc(hidden)]
#[allow(
    non_snake_case,
    reason = "we keep original structure name which is probably CamelCase"
)]
mod __nutype_C16U128LeGtEmbed__ {
    use super::*;
    #[derive(Debug)]
    pub struct C16U128LeGtEmbed(u128);
    #[derive(Debug, Clone, PartialEq, Eq)]
    #[allow(clippy::enum_variant_names)]
    pub enum C16U128LeGtEmbedError {
        LessOrEqualViolated,
        GreaterViolated,
    }
    impl ::core::fmt::Display for C16U128LeGtEmbedError {
        fn fmt(&self, f: &mut ::core::fmt::Formatter<'_>) -> ::core::fmt::Result {
            match self {
                C16U128LeGtEmbedError::LessOrEqualViolated => write!(
                    f,
                    "{} is too big. The value must be less or equal to {:#?}.",
                    stringify!(C16U128LeGtEmbed),
                    sym_hi_u128()
                ),
                C16U128LeGtEmbedError::GreaterViolated => write!(
                    f,
                    "{} is too small. The value must be greater than {:#?}.",
                    stringify!(C16U128LeGtEmbed),
                    sym_lo_u128()
                ),
            }
        }
    }
    impl ::core::error::Error for C16U128LeGtEmbedError {
        fn source(&self) -> Option<&(dyn ::core::error::Error + 'static)> {
            None
        }
    }
    impl C16U128LeGtEmbed {
        pub fn try_new(raw_value: u128) -> ::core::result::Result<Self, C16U128LeGtEmbedError> {
            let sanitized_value: u128 = Self::__sanitize__(raw_value);
            #[allow(clippy::question_mark)]
            if let Err(e) = Self::__validate__(&sanitized_value) {
                return Err(e);
            }
            Ok(C16U128LeGtEmbed(sanitized_value))
        }
        fn __sanitize__(mut value: u128) -> u128 {
            value
        }
        fn __validate__(val: &u128) -> ::core::result::Result<(), C16U128LeGtEmbedError> {
            let val = *val;
            if val > sym_hi_u128() {
                return Err(C16U128LeGtEmbedError::LessOrEqualViolated);
            }
            if val <= sym_lo_u128() {
                return Err(C16U128LeGtEmbedError::GreaterViolated);
            }
            Ok(())
        }
    }
    impl C16U128LeGtEmbed {
        #[inline]
        pub fn into_inner(self) -> u128 {
            self.0
        }
    }
    #[derive(Debug)]
    pub enum C16U128LeGtEmbedParseError {
        Parse(<u128 as ::core::str::FromStr>::Err),
        Validate(C16U128LeGtEmbedError),
    }
    impl ::core::fmt::Display for C16U128LeGtEmbedParseError {
        fn fmt(&self, formatter: &mut ::core::fmt::Formatter<'_>) -> ::core::fmt::Result {
            match *self {
                Self::Validate(ref validation_error) => formatter.write_fmt(::core::format_args!(
                    "Failed to parse {}: {}",
                    "C16U128LeGtEmbed",
                    validation_error
                )),
                Self::Parse(ref parse_error) => formatter.write_fmt(::core::format_args!(
                    "Failed to parse {}: {:?}",
                    "C16U128LeGtEmbed",
                    parse_error
                )),
            }
        }
    }
    impl ::core::error::Error for C16U128LeGtEmbedParseError {
        fn source(&self) -> Option<&(dyn ::core::error::Error + 'static)> {
            None
        }
    }
    impl ::core::str::FromStr for C16U128LeGtEmbed {
        type Err = C16U128LeGtEmbedParseError;
        fn from_str(input: &str) -> ::core::result::Result<Self, C16U128LeGtEmbedParseError> {
            match <u128 as ::core::str::FromStr>::from_str(input) {
                ::core::result::Result::Err(parse_error) => {
                    ::core::result::Result::Err(C16U128LeGtEmbedParseError::Parse(parse_error))
                }
                ::core::result::Result::Ok(parsed_value) => match <Self>::try_new(parsed_value) {
                    ::core::result::Result::Ok(valid) => ::core::result::Result::Ok(valid),
                    ::core::result::Result::Err(validation_error) => ::core::result::Result::Err(
                        C16U128LeGtEmbedParseError::Validate(validation_error),
                    ),
                },
            }
        }
    }
    impl<'de> ::serde::Deserialize<'de> for C16U128LeGtEmbed {
        fn deserialize<D: ::serde::Deserializer<'de>>(
            deserializer: D,
        ) -> ::core::result::Result<Self, D::Error> {
            struct __Visitor<'de> {
                marker: ::core::marker::PhantomData<C16U128LeGtEmbed>,
                lifetime: ::core::marker::PhantomData<&'de ()>,
            }
            impl<'de> ::serde::de::Visitor<'de> for __Visitor<'de> {
                type Value = C16U128LeGtEmbed;
                fn expecting(&self, formatter: &mut ::core::fmt::Formatter) -> ::core::fmt::Result {
                    write!(formatter, "tuple struct C16U128LeGtEmbed")
                }
                fn visit_newtype_struct<DE>(
                    self,
                    deserializer: DE,
                ) -> ::core::result::Result<Self::Value, DE::Error>
                where
                    DE: ::serde::Deserializer<'de>,
                {
                    let raw_value: u128 =
                        match <u128 as ::serde::Deserialize>::deserialize(deserializer) {
                            Ok(val) => val,
                            Err(err) => return Err(err),
                        };
                    C16U128LeGtEmbed::try_new(raw_value).map_err(|validation_error| {
                        <DE::Error as serde::de::Error>::custom(core::format_args!(
                            "{validation_error} Expected valid {}",
                            "C16U128LeGtEmbed"
                        ))
                    })
                }
            }
            ::serde::de::Deserializer::deserialize_newtype_struct(
                deserializer,
                "C16U128LeGtEmbed",
                __Visitor {
                    marker: Default::default(),
                    lifetime: Default::default(),
                },
            )
        }
    }
    #[cfg(test)]
    mod tests {
        use super::*;
        #[test]
        fn should_have_consistent_lower_and_upper_boundaries() {
            assert!
            (sym_hi_u128() >= sym_lo_u128(),
            "\nInconsistent lower and upper boundaries for type `C16U128LeGtEmbed`\nThe upper boundary `sym_hi_u128()` must be greater than or equal to the lower boundary `sym_lo_u128()`\nNote: the test is generated automatically by #[nutype] macro.\n");
        }
    }
}
pub use __nutype_C16U128LeGtEmbed__::C16U128LeGtEmbed;
pub use __nutype_C16U128LeGtEmbed__::C16U128LeGtEmbedError;
pub use __nutype_C16U128LeGtEmbed__::C16U128LeGtEmbedParseError;
