// NUTYPE_VERIF_INPUT #[nutype(validate(less_or_equal = sym_hi_isize()), derive(Debug))] pub struct C16IsizeLessOrEqualSym(isize);
#[doc(hidden)]
#[allow(
    non_snake_case,
    reason = "we keep original structure name which is probably CamelCase"
)]
mod __nutype_C16IsizeLessOrEqualSym__ {
    use super::*;
    #[derive(Debug)]
    pub struct C16IsizeLessOrEqualSym(isize);
    #[derive(Debug, Clone, PartialEq, Eq)]
    #[allow(clippy::enum_variant_names)]
    pub enum C16IsizeLessOrEqualSymError {
        LessOrEqualViolated,
    }
    impl ::core::fmt::Display for C16IsizeLessOrEqualSymError {
        fn fmt(&self, f: &mut ::core::fmt::Formatter<'_>) -> ::core::fmt::Result {
            match self {
                C16IsizeLessOrEqualSymError::LessOrEqualViolated => write!(
                    f,
                    "{} is too big. The value must be less or equal to {:#?}.",
                    stringify!(C16IsizeLessOrEqualSym),
                    sym_hi_isize()
                ),
            }
        }
    }
    impl ::core::error::Error for C16IsizeLessOrEqualSymError {
        fn source(&self) -> Option<&(dyn ::core::error::Error + 'static)> {
            None
        }
    }
    impl C16IsizeLessOrEqualSym {
        pub fn try_new(
            raw_value: isize,
        ) -> ::core::result::Result<Self, C16IsizeLessOrEqualSymError> {
            let sanitized_value: isize = Self::__sanitize__(raw_value);
            #[allow(clippy::question_mark)]
            if let Err(e) = Self::__validate__(&sanitized_value) {
                return Err(e);
            }
            Ok(C16IsizeLessOrEqualSym(sanitized_value))
        }
        fn __sanitize__(mut value: isize) -> isize {
            value
        }
        fn __validate__(val: &isize) -> ::core::result::Result<(), C16IsizeLessOrEqualSymError> {
            let val = *val;
            if val > sym_hi_isize() {
                return Err(C16IsizeLessOrEqualSymError::LessOrEqualViolated);
            }
            Ok(())
        }
    }
    impl C16IsizeLessOrEqualSym {
        #[inline]
        pub fn into_inner(self) -> isize {
            self.0
        }
    }
    #[cfg(test)]
    mod tests {
        use super::*;
    }
}
pub use __nutype_C16IsizeLessOrEqualSym__::C16IsizeLessOrEqualSym;
pub use __nutype_C16IsizeLessOrEqualSym__::C16IsizeLessOrEqualSymError;
