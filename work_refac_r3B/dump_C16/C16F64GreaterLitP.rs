// NUTYPE_VERIF_INPUT #[nutype(validate(greater = 7.5), derive(Debug))] pub struct C16F64GreaterLitP(f64);
#[doc(hidden)]
#[allow(
    non_snake_case,
    reason = "we keep original structure name which is probably CamelCase"
)]
mod __nutype_C16F64GreaterLitP__ {
    use super::*;
    #[derive(Debug)]
    pub struct C16F64GreaterLitP(f64);
    #[derive(Debug, Clone, PartialEq, Eq)]
    #[allow(clippy::enum_variant_names)]
    pub enum C16F64GreaterLitPError {
        GreaterViolated,
    }
    impl ::core::fmt::Display for C16F64GreaterLitPError {
        fn fmt(&self, f: &mut ::core::fmt::Formatter<'_>) -> ::core::fmt::Result {
            match self {
                C16F64GreaterLitPError::GreaterViolated => write!(
                    f,
                    "{} is too small. The value must be greater than {:#?}.",
                    stringify!(C16F64GreaterLitP),
                    7.5f64
                ),
            }
        }
    }
    impl ::core::error::Error for C16F64GreaterLitPError {
        fn source(&self) -> Option<&(dyn ::core::error::Error + 'static)> {
            None
        }
    }
    impl C16F64GreaterLitP {
        pub fn try_new(raw_value: f64) -> ::core::result::Result<Self, C16F64GreaterLitPError> {
            let sanitized_value: f64 = Self::__sanitize__(raw_value);
            #[allow(clippy::question_mark)]
            if let Err(e) = Self::__validate__(&sanitized_value) {
                return Err(e);
            }
            Ok(C16F64GreaterLitP(sanitized_value))
        }
        fn __sanitize__(mut value: f64) -> f64 {
            value
        }
        fn __validate__(val: &f64) -> core::result::Result<(), C16F64GreaterLitPError> {
            let val = *val;
            if val <= 7.5f64 {
                return Err(C16F64GreaterLitPError::GreaterViolated);
            }
            Ok(())
        }
    }
    impl C16F64GreaterLitP {
        #[inline]
        pub fn into_inner(self) -> f64 {
            self.0
        }
    }
    #[cfg(test)]
    mod tests {
        use super::*;
    }
}
pub use __nutype_C16F64GreaterLitP__::C16F64GreaterLitP;
pub use __nutype_C16F64GreaterLitP__::C16F64GreaterLitPError;
