// NUTYPE_VERIF_INPUT #[nutype(validate(greater = -7), derive(Debug))] pub struct C16IsizeGreaterLitN(isize);
#[doc(hidden)]
#[allow(
    non_snake_case,
    reason = "we keep original structure name which is probably CamelCase"
)]
mod __nutype_C16IsizeGreaterLitN__ {
    use super::*;
    #[derive(Debug)]
    pub struct C16IsizeGreaterLitN(isize);
    #[derive(Debug, Clone, PartialEq, Eq)]
    #[allow(clippy::enum_variant_names)]
    pub enum C16IsizeGreaterLitNError {
        GreaterViolated,
    }
    impl ::core::fmt::Display for C16IsizeGreaterLitNError {
        fn fmt(&self, f: &mut ::core::fmt::Formatter<'_>) -> ::core::fmt::Result {
            match self {
                C16IsizeGreaterLitNError::GreaterViolated => write!(
                    f,
                    "{} is too small. The value must be greater than {:#?}.",
                    stringify!(C16IsizeGreaterLitN),
                    -7isize
                ),
            }
        }
    }
    impl ::core::error::Error for C16IsizeGreaterLitNError {
        fn source(&self) -> Option<&(dyn ::core::error::Error + 'static)> {
            None
        }
    }
    impl C16IsizeGreaterLitN {
        pub fn try_new(raw_value: isize) -> ::core::result::Result<Self, C16IsizeGreaterLitNError> {
            let sanitized_value: isize = Self::__sanitize__(raw_value);
            #[allow(clippy::question_mark)]
            if let Err(e) = Self::__validate__(&sanitized_value) {
                return Err(e);
            }
            Ok(C16IsizeGreaterLitN(sanitized_value))
        }
        fn __sanitize__(mut value: isize) -> isize {
            value
        }
        fn __validate__(val: &isize) -> ::core::result::Result<(), C16IsizeGreaterLitNError> {
            let val = *val;
            if val <= -7isize {
                return Err(C16IsizeGreaterLitNError::GreaterViolated);
            }
            Ok(())
        }
    }
    impl C16IsizeGreaterLitN {
        #[inline]
        pub fn into_inner(self) -> isize {
            self.0
        }
    }
    #[cfg(test)]
    mod tests {
        use super::*;
    }
}
pub use __nutype_C16IsizeGreaterLitN__::C16IsizeGreaterLitN;
pub use __nutype_C16IsizeGreaterLitN__::C16IsizeGreaterLitNError;
