// NUTYPE_VERIF_INPUT #[nutype(validate(less = 7), derive(Debug))] pub struct C16U8LessLitP(u8);
#[doc(hidden)]
#[allow(
    non_snake_case,
    reason = "we keep original structure name which is probably CamelCase"
)]
mod __nutype_C16U8LessLitP__ {
    use super::*;
    #[derive(Debug)]
    pub struct C16U8LessLitP(u8);
    #[derive(Debug, Clone, PartialEq, Eq)]
    #[allow(clippy::enum_variant_names)]
    pub enum C16U8LessLitPError {
        LessViolated,
    }
    impl ::core::fmt::Display for C16U8LessLitPError {
        fn fmt(&self, f: &mut ::core::fmt::Formatter<'_>) -> ::core::fmt::Result {
            match self {
                C16U8LessLitPError::LessViolated => write!(
                    f,
                    "{} is too big. The value must be less than {:#?}.",
                    stringify!(C16U8LessLitP),
                    7u8
                ),
            }
        }
    }
    impl ::core::error::Error for C16U8LessLitPError {
        fn source(&self) -> Option<&(dyn ::core::error::Error + 'static)> {
            None
        }
    }
    impl C16U8LessLitP {
        pub fn try_new(raw_value: u8) -> ::core::result::Result<Self, C16U8LessLitPError> {
            let sanitized_value: u8 = Self::__sanitize__(raw_value);
            #[allow(clippy::question_mark)]
            if let Err(e) = Self::__validate__(&sanitized_value) {
                return Err(e);
            }
            Ok(C16U8LessLitP(sanitized_value))
        }
        fn __sanitize__(mut value: u8) -> u8 {
            value
        }
        fn __validate__(val: &u8) -> ::core::result::Result<(), C16U8LessLitPError> {
            let val = *val;
            if val >= 7u8 {
                return Err(C16U8LessLitPError::LessViolated);
            }
            Ok(())
        }
    }
    impl C16U8LessLitP {
        #[inline]
        pub fn into_inner(self) -> u8 {
            self.0
        }
    }
    #[cfg(test)]
    mod tests {
        use super::*;
    }
}
pub use __nutype_C16U8LessLitP__::C16U8LessLitP;
pub use __nutype_C16U8LessLitP__::C16U8LessLitPError;
