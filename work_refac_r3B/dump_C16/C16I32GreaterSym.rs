// NUTYPE_VERIF_INPUT #[nutype(validate(greater = sym_lo_i32()), derive(Debug))] pub struct C16I32GreaterSym(i32);
#[doc(hidden)]
#[allow(
    non_snake_case,
    reason = "we keep original structure name which is probably CamelCase"
)]
mod __nutype_C16I32GreaterSym__ {
    use super::*;
    #[derive(Debug)]
    pub struct C16I32GreaterSym(i32);
    #[derive(Debug, Clone, PartialEq, Eq)]
    #[allow(clippy::enum_variant_names)]
    pub enum C16I32GreaterSymError {
        GreaterViolated,
    }
    impl ::core::fmt::Display for C16I32GreaterSymError {
        fn fmt(&self, f: &mut ::core::fmt::Formatter<'_>) -> ::core::fmt::Result {
            match self {
                C16I32GreaterSymError::GreaterViolated => write!(
                    f,
                    "{} is too small. The value must be greater than {:#?}.",
                    stringify!(C16I32GreaterSym),
                    sym_lo_i32()
                ),
            }
        }
    }
    impl ::core::error::Error for C16I32GreaterSymError {
        fn source(&self) -> Option<&(dyn ::core::error::Error + 'static)> {
            None
        }
    }
    impl C16I32GreaterSym {
        pub fn try_new(raw_value: i32) -> ::core::result::Result<Self, C16I32GreaterSymError> {
            let sanitized_value: i32 = Self::__sanitize__(raw_value);
            #[allow(clippy::question_mark)]
            if let Err(e) = Self::__validate__(&sanitized_value) {
                return Err(e);
            }
            Ok(C16I32GreaterSym(sanitized_value))
        }
        fn __sanitize__(mut value: i32) -> i32 {
            value
        }
        fn __validate__(val: &i32) -> ::core::result::Result<(), C16I32GreaterSymError> {
            let val = *val;
            if val <= sym_lo_i32() {
                return Err(C16I32GreaterSymError::GreaterViolated);
            }
            Ok(())
        }
    }
    impl C16I32GreaterSym {
        #[inline]
        pub fn into_inner(self) -> i32 {
            self.0
        }
    }
    #[cfg(test)]
    mod tests {
        use super::*;
    }
}
pub use __nutype_C16I32GreaterSym__::C16I32GreaterSym;
pub use __nutype_C16I32GreaterSym__::C16I32GreaterSymError;
