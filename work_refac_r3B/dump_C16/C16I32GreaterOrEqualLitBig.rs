// NUTYPE_VERIF_INPUT #[nutype(validate(greater_or_equal = 100), derive(Debug))] pub struct C16I32GreaterOrEqualLitBig(i32);
#[doc(hidden)]
#[allow(
    non_snake_case,
    reason = "we keep original structure name which is probably CamelCase"
)]
mod __nutype_C16I32GreaterOrEqualLitBig__ {
    use super::*;
    #[derive(Debug)]
    pub struct C16I32GreaterOrEqualLitBig(i32);
    #[derive(Debug, Clone, PartialEq, Eq)]
    #[allow(clippy::enum_variant_names)]
    pub enum C16I32GreaterOrEqualLitBigError {
        GreaterOrEqualViolated,
    }
    impl ::core::fmt::Display for C16I32GreaterOrEqualLitBigError {
        fn fmt(&self, f: &mut ::core::fmt::Formatter<'_>) -> ::core::fmt::Result {
            match self {
                C16I32GreaterOrEqualLitBigError::GreaterOrEqualViolated => write!(
                    f,
                    "{} is too small. The value must be greater or equal to {:#?}.",
                    stringify!(C16I32GreaterOrEqualLitBig),
                    100i32
                ),
            }
        }
    }
    impl ::core::error::Error for C16I32GreaterOrEqualLitBigError {
        fn source(&self) -> Option<&(dyn ::core::error::Error + 'static)> {
            None
        }
    }
    impl C16I32GreaterOrEqualLitBig {
        pub fn try_new(
            raw_value: i32,
        ) -> ::core::result::Result<Self, C16I32GreaterOrEqualLitBigError> {
            let sanitized_value: i32 = Self::__sanitize__(raw_value);
            #[allow(clippy::question_mark)]
            if let Err(e) = Self::__validate__(&sanitized_value) {
                return Err(e);
            }
            Ok(C16I32GreaterOrEqualLitBig(sanitized_value))
        }
        fn __sanitize__(mut value: i32) -> i32 {
            value
        }
        fn __validate__(val: &i32) -> ::core::result::Result<(), C16I32GreaterOrEqualLitBigError> {
            let val = *val;
            if val < 100i32 {
                return Err(C16I32GreaterOrEqualLitBigError::GreaterOrEqualViolated);
            }
            Ok(())
        }
    }
    impl C16I32GreaterOrEqualLitBig {
        #[inline]
        pub fn into_inner(self) -> i32 {
            self.0
        }
    }
    #[cfg(test)]
    mod tests {
        use super::*;
    }
}
pub use __nutype_C16I32GreaterOrEqualLitBig__::C16I32GreaterOrEqualLitBig;
pub use __nutype_C16I32GreaterOrEqualLitBig__::C16I32GreaterOrEqualLitBigError;
