// NUTYPE_VERIF_INPUT #[nutype(sanitize(trim), validate(len_char_min = 3, not_empty, len_char_max = 20), derive(Debug, Deserialize))] pub struct C16StrMinMaxLit(String);
#[doc(hidden)]
#[allow(
    non_snake_case,
    reason = "we keep original structure name which is probably CamelCase"
)]
mod __nutype_C16StrMinMaxLit__ {
    use super::*;
    #[derive(Debug)]
    pub struct C16StrMinMaxLit(String);
    #[derive(Debug, Clone, PartialEq, Eq)]
    #[allow(clippy::enum_variant_names)]
    pub enum C16StrMinMaxLitError {
        LenCharMinViolated,
        NotEmptyViolated,
        LenCharMaxViolated,
    }
    impl ::core::fmt::Display for C16StrMinMaxLitError {
        fn fmt(&self, f: &mut ::core::fmt::Formatter<'_>) -> ::core::fmt::Result {
            match self {
                C16StrMinMaxLitError::LenCharMinViolated => write!(
                    f,
                    "{} is too short. The value length must be at least {:#?} character(s).",
                    stringify!(C16StrMinMaxLit),
                    3usize
                ),
                C16StrMinMaxLitError::NotEmptyViolated => {
                    write!(f, "{} is empty.", stringify!(C16StrMinMaxLit))
                }
                C16StrMinMaxLitError::LenCharMaxViolated => write!(
                    f,
                    "{} is too long. The value length must be at most {:#?} character(s).",
                    stringify!(C16StrMinMaxLit),
                    20usize
                ),
            }
        }
    }
    impl ::core::error::Error for C16StrMinMaxLitError {
        fn source(&self) -> Option<&(dyn ::core::error::Error + 'static)> {
            None
        }
    }
    impl C16StrMinMaxLit {
        pub fn try_new(
            raw_value: impl Into<String>,
        ) -> ::core::result::Result<Self, C16StrMinMaxLitError> {
            let raw_value = raw_value.into();
            let sanitized_value: String = Self::__sanitize__(raw_value);
            #[allow(clippy::question_mark)]
            if let Err(e) = Self::__validate__(&sanitized_value) {
                return Err(e);
            }
            Ok(C16StrMinMaxLit(sanitized_value))
        }
        fn __sanitize__(value: String) -> String {
            let value: String = value.trim().to_string();
            value
        }
        fn __validate__(val: &str) -> ::core::result::Result<(), C16StrMinMaxLitError> {
            let chars_count = val.chars().count();
            if chars_count < 3usize {
                return Err(C16StrMinMaxLitError::LenCharMinViolated);
            }
            if val.is_empty() {
                return Err(C16StrMinMaxLitError::NotEmptyViolated);
            }
            if chars_count > 20usize {
                return Err(C16StrMinMaxLitError::LenCharMaxViolated);
            }
            Ok(())
        }
    }
    impl C16StrMinMaxLit {
        #[inline]
        pub fn into_inner(self) -> String {
            self.0
        }
    }
    impl<'de> ::serde::Deserialize<'de> for C16StrMinMaxLit {
        fn deserialize<D: ::serde::Deserializer<'de>>(
            deserializer: D,
        ) -> ::core::result::Result<Self, D::Error> {
            struct __Visitor<'de> {
                marker: ::core::marker::PhantomData<C16StrMinMaxLit>,
                lifetime: ::core::marker::PhantomData<&'de ()>,
            }
            impl<'de> ::serde::de::Visitor<'de> for __Visitor<'de> {
                type Value = C16StrMinMaxLit;
                fn expecting(&self, formatter: &mut ::core::fmt::Formatter) -> ::core::fmt::Result {
                    write!(formatter, "tuple struct C16StrMinMaxLit")
                }
                fn visit_newtype_struct<DE>(
                    self,
                    deserializer: DE,
                ) -> ::core::result::Result<Self::Value, DE::Error>
                where
                    DE: ::serde::Deserializer<'de>,
                {
                    let raw_value: String =
                        match <String as ::serde::Deserialize>::deserialize(deserializer) {
                            Ok(val) => val,
                            Err(err) => return Err(err),
                        };
                    C16StrMinMaxLit::try_new(raw_value).map_err(|validation_error| {
                        <DE::Error as serde::de::Error>::custom(core::format_args!(
                            "{validation_error} Expected valid {}",
                            "C16StrMinMaxLit"
                        ))
                    })
                }
            }
            ::serde::de::Deserializer::deserialize_newtype_struct(
                deserializer,
                "C16StrMinMaxLit",
                __Visitor {
                    marker: Default::default(),
                    lifetime: Default::default(),
                },
            )
        }
    }
    #[cfg(test)]
    mod tests {
        use super::*;
        #[test]
        fn should_have_consistent_len_char_boundaries() {
            assert!
            (20usize >= 3usize,
            "\nInconsistent lower and upper boundaries for type `C16StrMinMaxLit`\nThe upper boundary `20usize` must be greater than or equal to the lower boundary `3usize`\n");
        }
    }
}
pub use __nutype_C16StrMinMaxLit__::C16StrMinMaxLit;
pub use __nutype_C16StrMinMaxLit__::C16StrMinMaxLitError;
