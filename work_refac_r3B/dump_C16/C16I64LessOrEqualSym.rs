// NUTYPE_VERIF_INPUT #[nutype(validate(less_or_equal = sym_hi_i64()), derive(Debug))] pub struct C16I64LessOrEqualSym(i64);
#[doc(hidden)]
#[allow(
    non_snake_case,
    reason = "we keep original structure name which is probably CamelCase"
)]
mod __nutype_C16I64LessOrEqualSym__ {
    use super::*;
    #[derive(Debug)]
    pub struct C16I64LessOrEqualSym(i64);
    #[derive(Debug, Clone, PartialEq, Eq)]
    #[allow(clippy::enum_variant_names)]
    pub enum C16I64LessOrEqualSymError {
        LessOrEqualViolated,
    }
    impl ::core::fmt::Display for C16I64LessOrEqualSymError {
        fn fmt(&self, f: &mut ::core::fmt::Formatter<'_>) -> ::core::fmt::Result {
            match self {
                C16I64LessOrEqualSymError::LessOrEqualViolated => write!(
                    f,
                    "{} is too big. The value must be less or equal to {:#?}.",
                    stringify!(C16I64LessOrEqualSym),
                    sym_hi_i64()
                ),
            }
        }
    }
    impl ::core::error::Error for C16I64LessOrEqualSymError {
        fn source(&self) -> Option<&(dyn ::core::error::Error + 'static)> {
            None
        }
    }
    impl C16I64LessOrEqualSym {
        pub fn try_new(raw_value: i64) -> ::core::result::Result<Self, C16I64LessOrEqualSymError> {
            let sanitized_value: i64 = Self::__sanitize__(raw_value);
            #[allow(clippy::question_mark)]
            if let Err(e) = Self::__validate__(&sanitized_value) {
                return Err(e);
            }
            Ok(C16I64LessOrEqualSym(sanitized_value))
        }
        fn __sanitize__(mut value: i64) -> i64 {
            value
        }
        fn __validate__(val: &i64) -> ::core::result::Result<(), C16I64LessOrEqualSymError> {
            let val = *val;
            if val > sym_hi_i64() {
                return Err(C16I64LessOrEqualSymError::LessOrEqualViolated);
            }
            Ok(())
        }
    }
    impl C16I64LessOrEqualSym {
        #[inline]
        pub fn into_inner(self) -> i64 {
            self.0
        }
    }
    #[cfg(test)]
    mod tests {
        use super::*;
    }
}
pub use __nutype_C16I64LessOrEqualSym__::C16I64LessOrEqualSym;
pub use __nutype_C16I64LessOrEqualSym__::C16I64LessOrEqualSymError;
