// NUTYPE_VERIF_INPUT #[nutype(validate(less = sym_hi_isize()), derive(Debug))] pub struct C16IsizeLessSym(isize);
#[doc(hidden)]
#[allow(
    non_snake_case,
    reason = "we keep original structure name which is probably CamelCase"
)]
mod __nutype_C16IsizeLessSym__ {
    use super::*;
    #[derive(Debug)]
    pub struct C16IsizeLessSym(isize);
    #[derive(Debug, Clone, PartialEq, Eq)]
    #[allow(clippy::enum_variant_names)]
    pub enum C16IsizeLessSymError {
        LessViolated,
    }
    impl ::core::fmt::Display for C16IsizeLessSymError {
        fn fmt(&self, f: &mut ::core::fmt::Formatter<'_>) -> ::core::fmt::Result {
            match self {
                C16IsizeLessSymError::LessViolated => write!(
                    f,
                    "{} is too big. The value must be less than {:#?}.",
                    stringify!(C16IsizeLessSym),
                    sym_hi_isize()
                ),
            }
        }
    }
    impl ::core::error::Error for C16IsizeLessSymError {
        fn source(&self) -> Option<&(dyn ::core::error::Error + 'static)> {
            None
        }
    }
    impl C16IsizeLessSym {
        pub fn try_new(raw_value: isize) -> ::core::result::Result<Self, C16IsizeLessSymError> {
            let sanitized_value: isize = Self::__sanitize__(raw_value);
            #[allow(clippy::question_mark)]
            if let Err(e) = Self::__validate__(&sanitized_value) {
                return Err(e);
            }
            Ok(C16IsizeLessSym(sanitized_value))
        }
        fn __sanitize__(mut value: isize) -> isize {
            value
        }
        fn __validate__(val: &isize) -> ::core::result::Result<(), C16IsizeLessSymError> {
            let val = *val;
            if val >= sym_hi_isize() {
                return Err(C16IsizeLessSymError::LessViolated);
            }
            Ok(())
        }
    }
    impl C16IsizeLessSym {
        #[inline]
        pub fn into_inner(self) -> isize {
            self.0
        }
    }
    #[cfg(test)]
    mod tests {
        use super::*;
    }
}
pub use __nutype_C16IsizeLessSym__::C16IsizeLessSym;
pub use __nutype_C16IsizeLessSym__::C16IsizeLessSymError;
