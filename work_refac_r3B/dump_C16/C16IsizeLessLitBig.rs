// NUTYPE_VERIF_INPUT #[nutype(validate(less = 100), derive(Debug))] pub struct C16IsizeLessLitBig(isize);
#[doc(hidden)]
#[allow(
    non_snake_case,
    reason = "we keep original structure name which is probably CamelCase"
)]
mod __nutype_C16IsizeLessLitBig__ {
    use super::*;
    #[derive(Debug)]
    pub struct C16IsizeLessLitBig(isize);
    #[derive(Debug, Clone, PartialEq, Eq)]
    #[allow(clippy::enum_variant_names)]
    pub enum C16IsizeLessLitBigError {
        LessViolated,
    }
    impl ::core::fmt::Display for C16IsizeLessLitBigError {
        fn fmt(&self, f: &mut ::core::fmt::Formatter<'_>) -> ::core::fmt::Result {
            match self {
                C16IsizeLessLitBigError::LessViolated => write!(
                    f,
                    "{} is too big. The value must be less than {:#?}.",
                    stringify!(C16IsizeLessLitBig),
                    100isize
                ),
            }
        }
    }
    impl ::core::error::Error for C16IsizeLessLitBigError {
        fn source(&self) -> Option<&(dyn ::core::error::Error + 'static)> {
            None
        }
    }
    impl C16IsizeLessLitBig {
        pub fn try_new(raw_value: isize) -> ::core::result::Result<Self, C16IsizeLessLitBigError> {
            let sanitized_value: isize = Self::__sanitize__(raw_value);
            #[allow(clippy::question_mark)]
            if let Err(e) = Self::__validate__(&sanitized_value) {
                return Err(e);
            }
            Ok(C16IsizeLessLitBig(sanitized_value))
        }
        fn __sanitize__(mut value: isize) -> isize {
            value
        }
        fn __validate__(val: &isize) -> ::core::result::Result<(), C16IsizeLessLitBigError> {
            let val = *val;
            if val >= 100isize {
                return Err(C16IsizeLessLitBigError::LessViolated);
            }
            Ok(())
        }
    }
    impl C16IsizeLessLitBig {
        #[inline]
        pub fn into_inner(self) -> isize {
            self.0
        }
    }
    #[cfg(test)]
    mod tests {
        use super::*;
    }
}
pub use __nutype_C16IsizeLessLitBig__::C16IsizeLessLitBig;
pub use __nutype_C16IsizeLessLitBig__::C16IsizeLessLitBigError;
