// NUTYPE_VERIF_INPUT #[nutype(validate(greater_or_equal = sym_lo_isize()), derive(Debug))] pub struct C16IsizeGreaterOrEqualSym(isize);
#[doc(hidden)]
#[allow(
    non_snake_case,
    reason = "we keep original structure name which is probably CamelCase"
)]
mod __nutype_C16IsizeGreaterOrEqualSym__ {
    use super::*;
    #[derive(Debug)]
    pub struct C16IsizeGreaterOrEqualSym(isize);
    #[derive(Debug, Clone, PartialEq, Eq)]
    #[allow(clippy::enum_variant_names)]
    pub enum C16IsizeGreaterOrEqualSymError {
        GreaterOrEqualViolated,
    }
    impl ::core::fmt::Display for C16IsizeGreaterOrEqualSymError {
        fn fmt(&self, f: &mut ::core::fmt::Formatter<'_>) -> ::core::fmt::Result {
            match self {
                C16IsizeGreaterOrEqualSymError::GreaterOrEqualViolated => write!(
                    f,
                    "{} is too small. The value must be greater or equal to {:#?}.",
                    stringify!(C16IsizeGreaterOrEqualSym),
                    sym_lo_isize()
                ),
            }
        }
    }
    impl ::core::error::Error for C16IsizeGreaterOrEqualSymError {
        fn source(&self) -> Option<&(dyn ::core::error::Error + 'static)> {
            None
        }
    }
    impl C16IsizeGreaterOrEqualSym {
        pub fn try_new(
            raw_value: isize,
        ) -> ::core::result::Result<Self, C16IsizeGreaterOrEqualSymError> {
            let sanitized_value: isize = Self::__sanitize__(raw_value);
            #[allow(clippy::question_mark)]
            if let Err(e) = Self::__validate__(&sanitized_value) {
                return Err(e);
            }
            Ok(C16IsizeGreaterOrEqualSym(sanitized_value))
        }
        fn __sanitize__(mut value: isize) -> isize {
            value
        }
        fn __validate__(val: &isize) -> ::core::result::Result<(), C16IsizeGreaterOrEqualSymError> {
            let val = *val;
            if val < sym_lo_isize() {
                return Err(C16IsizeGreaterOrEqualSymError::GreaterOrEqualViolated);
            }
            Ok(())
        }
    }
    impl C16IsizeGreaterOrEqualSym {
        #[inline]
        pub fn into_inner(self) -> isize {
            self.0
        }
    }
    #[cfg(test)]
    mod tests {
        use super::*;
    }
}
pub use __nutype_C16IsizeGreaterOrEqualSym__::C16IsizeGreaterOrEqualSym;
pub use __nutype_C16IsizeGreaterOrEqualSym__::C16IsizeGreaterOrEqualSymError;
