// NUTYPE_VERIF_INPUT #[nutype(validate(len_char_min = sym_len_lo()), derive(Debug))] pub struct C16StrMinSym(String);
#[doc(hidden)]
#[allow(
    non_snake_case,
    reason = "we keep original structure name which is probably CamelCase"
)]
mod __nutype_C16StrMinSym__ {
    use super::*;
    #[derive(Debug)]
    pub struct C16StrMinSym(String);
    #[derive(Debug, Clone, PartialEq, Eq)]
    #[allow(clippy::enum_variant_names)]
    pub enum C16StrMinSymError {
        LenCharMinViolated,
    }
    impl ::core::fmt::Display for C16StrMinSymError {
        fn fmt(&self, f: &mut ::core::fmt::Formatter<'_>) -> ::core::fmt::Result {
            match self {
                C16StrMinSymError::LenCharMinViolated => write!(
                    f,
                    "{} is too short. The value length must be at least {:#?} character(s).",
                    stringify!(C16StrMinSym),
                    sym_len_lo()
                ),
            }
        }
    }
    impl ::core::error::Error for C16StrMinSymError {
        fn source(&self) -> Option<&(dyn ::core::error::Error + 'static)> {
            None
        }
    }
    impl C16StrMinSym {
        pub fn try_new(
            raw_value: impl Into<String>,
        ) -> ::core::result::Result<Self, C16StrMinSymError> {
            let raw_value = raw_value.into();
            let sanitized_value: String = Self::__sanitize__(raw_value);
            #[allow(clippy::question_mark)]
            if let Err(e) = Self::__validate__(&sanitized_value) {
                return Err(e);
            }
            Ok(C16StrMinSym(sanitized_value))
        }
        fn __sanitize__(value: String) -> String {
            value
        }
        fn __validate__(val: &str) -> ::core::result::Result<(), C16StrMinSymError> {
            let chars_count = val.chars().count();
            if chars_count < sym_len_lo() {
                return Err(C16StrMinSymError::LenCharMinViolated);
            }
            Ok(())
        }
    }
    impl C16StrMinSym {
        #[inline]
        pub fn into_inner(self) -> String {
            self.0
        }
    }
    #[cfg(test)]
    mod tests {
        use super::*;
    }
}
pub use __nutype_C16StrMinSym__::C16StrMinSym;
pub use __nutype_C16StrMinSym__::C16StrMinSymError;
