// NUTYPE_VERIF_INPUT #[nutype(validate(less = 7), derive(Debug))] pub struct C16I64LessLitP(i64);
#[doc(hidden)]
#[allow(
    non_snake_case,
    reason = "we keep original structure name which is probably CamelCase"
)]
mod __nutype_C16I64LessLitP__ {
    use super::*;
    #[derive(Debug)]
    pub struct C16I64LessLitP(i64);
    #[derive(Debug, Clone, PartialEq, Eq)]
    #[allow(clippy::enum_variant_names)]
    pub enum C16I64LessLitPError {
        LessViolated,
    }
    impl ::core::fmt::Display for C16I64LessLitPError {
        fn fmt(&self, f: &mut ::core::fmt::Formatter<'_>) -> ::core::fmt::Result {
            match self {
                C16I64LessLitPError::LessViolated => write!(
                    f,
                    "{} is too big. The value must be less than {:#?}.",
                    stringify!(C16I64LessLitP),
                    7i64
                ),
            }
        }
    }
    impl ::core::error::Error for C16I64LessLitPError {
        fn source(&self) -> Option<&(dyn ::core::error::Error + 'static)> {
            None
        }
    }
    impl C16I64LessLitP {
        pub fn try_new(raw_value: i64) -> ::core::result::Result<Self, C16I64LessLitPError> {
            let sanitized_value: i64 = Self::__sanitize__(raw_value);
            #[allow(clippy::question_mark)]
            if let Err(e) = Self::__validate__(&sanitized_value) {
                return Err(e);
            }
            Ok(C16I64LessLitP(sanitized_value))
        }
        fn __sanitize__(mut value: i64) -> i64 {
            value
        }
        fn __validate__(val: &i64) -> ::core::result::Result<(), C16I64LessLitPError> {
            let val = *val;
            if val >= 7i64 {
                return Err(C16I64LessLitPError::LessViolated);
            }
            Ok(())
        }
    }
    impl C16I64LessLitP {
        #[inline]
        pub fn into_inner(self) -> i64 {
            self.0
        }
    }
    #[cfg(test)]
    mod tests {
        use super::*;
    }
}
pub use __nutype_C16I64LessLitP__::C16I64LessLitP;
pub use __nutype_C16I64LessLitP__::C16I64LessLitPError;
