// NUTYPE_VERIF_INPUT #[nutype(validate(greater_or_equal = 7), derive(Debug))] pub struct C16IsizeGreaterOrEqualLitP(isize);
#[doc(hidden)]
#[allow(
    non_snake_case,
    reason = "we keep original structure name which is probably CamelCase"
)]
mod __nutype_C16IsizeGreaterOrEqualLitP__ {
    use super::*;
    #[derive(Debug)]
    pub struct C16IsizeGreaterOrEqualLitP(isize);
    #[derive(Debug, Clone, PartialEq, Eq)]
    #[allow(clippy::enum_variant_names)]
    pub enum C16IsizeGreaterOrEqualLitPError {
        GreaterOrEqualViolated,
    }
    impl ::core::fmt::Display for C16IsizeGreaterOrEqualLitPError {
        fn fmt(&self, f: &mut ::core::fmt::Formatter<'_>) -> ::core::fmt::Result {
            match self {
                C16IsizeGreaterOrEqualLitPError::GreaterOrEqualViolated => write!(
                    f,
                    "{} is too small. The value must be greater or equal to {:#?}.",
                    stringify!(C16IsizeGreaterOrEqualLitP),
                    7isize
                ),
            }
        }
    }
    impl ::core::error::Error for C16IsizeGreaterOrEqualLitPError {
        fn source(&self) -> Option<&(dyn ::core::error::Error + 'static)> {
            None
        }
    }
    impl C16IsizeGreaterOrEqualLitP {
        pub fn try_new(
            raw_value: isize,
        ) -> ::core::result::Result<Self, C16IsizeGreaterOrEqualLitPError> {
            let sanitized_value: isize = Self::__sanitize__(raw_value);
            #[allow(clippy::question_mark)]
            if let Err(e) = Self::__validate__(&sanitized_value) {
                return Err(e);
            }
            Ok(C16IsizeGreaterOrEqualLitP(sanitized_value))
        }
        fn __sanitize__(mut value: isize) -> isize {
            value
        }
        fn __validate__(
            val: &isize,
        ) -> ::core::result::Result<(), C16IsizeGreaterOrEqualLitPError> {
            let val = *val;
            if val < 7isize {
                return Err(C16IsizeGreaterOrEqualLitPError::GreaterOrEqualViolated);
            }
            Ok(())
        }
    }
    impl C16IsizeGreaterOrEqualLitP {
        #[inline]
        pub fn into_inner(self) -> isize {
            self.0
        }
    }
    #[cfg(test)]
    mod tests {
        use super::*;
    }
}
pub use __nutype_C16IsizeGreaterOrEqualLitP__::C16IsizeGreaterOrEqualLitP;
pub use __nutype_C16IsizeGreaterOrEqualLitP__::C16IsizeGreaterOrEqualLitPError;
