// NUTYPE_VERIF_INPUT #[nutype(validate(greater = 7), derive(Debug))] pub struct C16U128GreaterLitP(u128);
#[doc(hidden)]
#[allow(
    non_snake_case,
    reason = "we keep original structure name which is probably CamelCase"
)]
mod __nutype_C16U128GreaterLitP__ {
    use super::*;
    #[derive(Debug)]
    pub struct C16U128GreaterLitP(u128);
    #[derive(Debug, Clone, PartialEq, Eq)]
    #[allow(clippy::enum_variant_names)]
    pub enum C16U128GreaterLitPError {
        GreaterViolated,
    }
    impl ::core::fmt::Display for C16U128GreaterLitPError {
        fn fmt(&self, f: &mut ::core::fmt::Formatter<'_>) -> ::core::fmt::Result {
            match self {
                C16U128GreaterLitPError::GreaterViolated => write!(
                    f,
                    "{} is too small. The value must be greater than {:#?}.",
                    stringify!(C16U128GreaterLitP),
                    7u128
                ),
            }
        }
    }
    impl ::core::error::Error for C16U128GreaterLitPError {
        fn source(&self) -> Option<&(dyn ::core::error::Error + 'static)> {
            None
        }
    }
    impl C16U128GreaterLitP {
        pub fn try_new(raw_value: u128) -> ::core::result::Result<Self, C16U128GreaterLitPError> {
            let sanitized_value: u128 = Self::__sanitize__(raw_value);
            #[allow(clippy::question_mark)]
            if let Err(e) = Self::__validate__(&sanitized_value) {
                return Err(e);
            }
            Ok(C16U128GreaterLitP(sanitized_value))
        }
        fn __sanitize__(mut value: u128) -> u128 {
            value
        }
        fn __validate__(val: &u128) -> ::core::result::Result<(), C16U128GreaterLitPError> {
            let val = *val;
            if val <= 7u128 {
                return Err(C16U128GreaterLitPError::GreaterViolated);
            }
            Ok(())
        }
    }
    impl C16U128GreaterLitP {
        #[inline]
        pub fn into_inner(self) -> u128 {
            self.0
        }
    }
    #[cfg(test)]
    mod tests {
        use super::*;
    }
}
pub use __nutype_C16U128GreaterLitP__::C16U128GreaterLitP;
pub use __nutype_C16U128GreaterLitP__::C16U128GreaterLitPError;
