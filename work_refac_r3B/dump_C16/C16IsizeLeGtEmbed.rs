// NUTYPE_VERIF_INPUT #[nutype(validate(less_or_equal = sym_hi_isize(), greater = sym_lo_isize()), derive(Debug, FromStr, Deserialize))] pub struct C16IsizeLeGtEmbed(isize);
#[doc(hidden)]
#[allow(
    non_snake_case,
    reason = "we keep original structure name which is probably CamelCase"
)]
mod __nutype_C16IsizeLeGtEmbed__ {
    use super::*;
    #[derive(Debug)]
    pub struct C16IsizeLeGtEmbed(isize);
    #[derive(Debug, Clone, PartialEq, Eq)]
    #[allow(clippy::enum_variant_names)]
    pub enum C16IsizeLeGtEmbedError {
        LessOrEqualViolated,
        GreaterViolated,
    }
    impl ::core::fmt::Display for C16IsizeLeGtEmbedError {
        fn fmt(&self, f: &mut ::core::fmt::Formatter<'_>) -> ::core::fmt::Result {
            match self {
                C16IsizeLeGtEmbedError::LessOrEqualViolated => write!(
                    f,
                    "{} is too big. The value must be less or equal to {:#?}.",
                    stringify!(C16IsizeLeGtEmbed),
                    sym_hi_isize()
                ),
                C16IsizeLeGtEmbedError::GreaterViolated => write!(
                    f,
                    "{} is too small. The value must be greater than {:#?}.",
                    stringify!(C16IsizeLeGtEmbed),
                    sym_lo_isize()
                ),
            }
        }
    }
    impl ::core::error::Error for C16IsizeLeGtEmbedError {
        fn source(&self) -> Option<&(dyn ::core::error::Error + 'static)> {
            None
        }
    }
    impl C16IsizeLeGtEmbed {
        pub fn try_new(raw_value: isize) -> ::core::result::Result<Self, C16IsizeLeGtEmbedError> {
            let sanitized_value: isize = Self::__sanitize__(raw_value);
            #[allow(clippy::question_mark)]
            if let Err(e) = Self::__validate__(&sanitized_value) {
                return Err(e);
            }
            Ok(C16IsizeLeGtEmbed(sanitized_value))
        }
        fn __sanitize__(mut value: isize) -> isize {
            value
        }
        fn __validate__(val: &isize) -> ::core::result::Result<(), C16IsizeLeGtEmbedError> {
            let val = *val;
            if val > sym_hi_isize() {
                return Err(C16IsizeLeGtEmbedError::LessOrEqualViolated);
            }
            if val <= sym_lo_isize() {
                return Err(C16IsizeLeGtEmbedError::GreaterViolated);
            }
            Ok(())
        }
    }
    impl C16IsizeLeGtEmbed {
        #[inline]
        pub fn into_inner(self) -> isize {
            self.0
        }
    }
    impl<'de> ::serde::Deserialize<'de> for C16IsizeLeGtEmbed {
        fn deserialize<D: ::serde::Deserializer<'de>>(
            deserializer: D,
        ) -> ::core::result::Result<Self, D::Error> {
            struct __Visitor<'de> {
                marker: ::core::marker::PhantomData<C16IsizeLeGtEmbed>,
                lifetime: ::core::marker::PhantomData<&'de ()>,
            }
            impl<'de> ::serde::de::Visitor<'de> for __Visitor<'de> {
                type Value = C16IsizeLeGtEmbed;
                fn expecting(&self, formatter: &mut ::core::fmt::Formatter) -> ::core::fmt::Result {
                    write!(formatter, "tuple struct C16IsizeLeGtEmbed")
                }
                fn visit_newtype_struct<DE>(
                    self,
                    deserializer: DE,
                ) -> ::core::result::Result<Self::Value, DE::Error>
                where
                    DE: ::serde::Deserializer<'de>,
                {
                    let raw_value: isize =
                        match <isize as ::serde::Deserialize>::deserialize(deserializer) {
                            Ok(val) => val,
                            Err(err) => return Err(err),
                        };
                    C16IsizeLeGtEmbed::try_new(raw_value).map_err(|validation_error| {
                        <DE::Error as serde::de::Error>::custom(core::format_args!(
                            "{validation_error} Expected valid {}",
                            "C16IsizeLeGtEmbed"
                        ))
                    })
                }
            }
            ::serde::de::Deserializer::deserialize_newtype_struct(
                deserializer,
                "C16IsizeLeGtEmbed",
                __Visitor {
                    marker: Default::default(),
                    lifetime: Default::default(),
                },
            )
        }
    }
    #[derive(Debug)]
    pub enum C16IsizeLeGtEmbedParseError {
        Parse(<isize as ::core::str::FromStr>::Err),
        Validate(C16IsizeLeGtEmbedError),
    }
    impl ::core::fmt::Display for C16IsizeLeGtEmbedParseError {
        fn fmt(&self, formatter: &mut ::core::fmt::Formatter<'_>) -> ::core::fmt::Result {
            match *self {
                Self::Validate(ref validation_error) => formatter.write_fmt(::core::format_args!(
                    "Failed to parse {}: {}",
                    "C16IsizeLeGtEmbed",
                    validation_error
                )),
                Self::Parse(ref parse_error) => formatter.write_fmt(::core::format_args!(
                    "Failed to parse {}: {:?}",
                    "C16IsizeLeGtEmbed",
                    parse_error
                )),
            }
        }
    }
    impl ::core::error::Error for C16IsizeLeGtEmbedParseError {
        fn source(&self) -> Option<&(dyn ::core::error::Error + 'static)> {
            None
        }
    }
    impl ::core::str::FromStr for C16IsizeLeGtEmbed {
        type Err = C16IsizeLeGtEmbedParseError;
        fn from_str(input: &str) -> ::core::result::Result<Self, C16IsizeLeGtEmbedParseError> {
            match <isize as ::core::str::FromStr>::from_str(input) {
                ::core::result::Result::Err(parse_error) => {
                    ::core::result::Result::Err(C16IsizeLeGtEmbedParseError::Parse(parse_error))
                }
                ::core::result::Result::Ok(parsed_value) => match <Self>::try_new(parsed_value) {
                    ::core::result::Result::Ok(valid) => ::core::result::Result::Ok(valid),
                    ::core::result::Result::Err(validation_error) => ::core::result::Result::Err(
                        C16IsizeLeGtEmbedParseError::Validate(validation_error),
                    ),
                },
            }
        }
    }
    #[cfg(test)]
    mod tests {
        use super::*;
        #[test]
        fn should_have_consistent_lower_and_upper_boundaries() {
            assert!
            (sym_hi_isize() >= sym_lo_isize(),
            "\nInconsistent lower and upper boundaries for type `C16IsizeLeGtEmbed`\nThe upper boundary `sym_hi_isize()` must be greater than or equal to the lower boundary `sym_lo_isize()`\nNote: the test is generated automatically by #[nutype] macro.\n");
        }
    }
}
pub use __nutype_C16IsizeLeGtEmbed__::C16IsizeLeGtEmbed;
pub use __nutype_C16IsizeLeGtEmbed__::C16IsizeLeGtEmbedError;
pub use __nutype_C16IsizeLeGtEmbed__::C16IsizeLeGtEmbedParseError;
