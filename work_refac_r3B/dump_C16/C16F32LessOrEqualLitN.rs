// NUTYPE_VERIF_INPUT #[nutype(validate(less_or_equal = -7.5), derive(Debug))] pub struct C16F32LessOrEqualLitN(f32);
#[doc(hidden)]
#[allow(
    non_snake_case,
    reason = "we keep original structure name which is probably CamelCase"
)]
mod __nutype_C16F32LessOrEqualLitN__ {
    use super::*;
    #[derive(Debug)]
    pub struct C16F32LessOrEqualLitN(f32);
    #[derive(Debug, Clone, PartialEq, Eq)]
    #[allow(clippy::enum_variant_names)]
    pub enum C16F32LessOrEqualLitNError {
        LessOrEqualViolated,
    }
    impl ::core::fmt::Display for C16F32LessOrEqualLitNError {
        fn fmt(&self, f: &mut ::core::fmt::Formatter<'_>) -> ::core::fmt::Result {
            match self {
                C16F32LessOrEqualLitNError::LessOrEqualViolated => write!(
                    f,
                    "{} is too big. The value must be less than {:#?}.",
                    stringify!(C16F32LessOrEqualLitN),
                    -7.5f32
                ),
            }
        }
    }
    impl ::core::error::Error for C16F32LessOrEqualLitNError {
        fn source(&self) -> Option<&(dyn ::core::error::Error + 'static)> {
            None
        }
    }
    impl C16F32LessOrEqualLitN {
        pub fn try_new(raw_value: f32) -> ::core::result::Result<Self, C16F32LessOrEqualLitNError> {
            let sanitized_value: f32 = Self::__sanitize__(raw_value);
            #[allow(clippy::question_mark)]
            if let Err(e) = Self::__validate__(&sanitized_value) {
                return Err(e);
            }
            Ok(C16F32LessOrEqualLitN(sanitized_value))
        }
        fn __sanitize__(mut value: f32) -> f32 {
            value
        }
        fn __validate__(val: &f32) -> core::result::Result<(), C16F32LessOrEqualLitNError> {
            let val = *val;
            if val > -7.5f32 {
                return Err(C16F32LessOrEqualLitNError::LessOrEqualViolated);
            }
            Ok(())
        }
    }
    impl C16F32LessOrEqualLitN {
        #[inline]
        pub fn into_inner(self) -> f32 {
            self.0
        }
    }
    #[cfg(test)]
    mod tests {
        use super::*;
    }
}
pub use __nutype_C16F32LessOrEqualLitN__::C16F32LessOrEqualLitN;
pub use __nutype_C16F32LessOrEqualLitN__::C16F32LessOrEqualLitNError;
