// NUTYPE_VERIF_INPUT #[nutype(validate(greater_or_equal = sym_lo_isize(), less = sym_hi_isize()), derive(Debug, FromStr, Deserialize))] pub struct C16IsizeGeLtEmbed(isize);
#[doc(hidden)]
#[allow(
    non_snake_case,
    reason = "we keep original structure name which is probably CamelCase"
)]
mod __nutype_C16IsizeGeLtEmbed__ {
    use super::*;
    #[derive(Debug)]
    pub struct C16IsizeGeLtEmbed(isize);
    #[derive(Debug, Clone, PartialEq, Eq)]
    #[allow(clippy::enum_variant_names)]
    pub enum C16IsizeGeLtEmbedError {
        GreaterOrEqualViolated,
        LessViolated,
    }
    impl ::core::fmt::Display for C16IsizeGeLtEmbedError {
        fn fmt(&self, f: &mut ::core::fmt::Formatter<'_>) -> ::core::fmt::Result {
            match self {
                C16IsizeGeLtEmbedError::GreaterOrEqualViolated => write!(
                    f,
                    "{} is too small. The value must be greater or equal to {:#?}.",
                    stringify!(C16IsizeGeLtEmbed),
                    sym_lo_isize()
                ),
                C16IsizeGeLtEmbedError::LessViolated => write!(
                    f,
                    "{} is too big. The value must be less than {:#?}.",
                    stringify!(C16IsizeGeLtEmbed),
                    sym_hi_isize()
                ),
            }
        }
    }
    impl ::core::error::Error for C16IsizeGeLtEmbedError {
        fn source(&self) -> Option<&(dyn ::core::error::Error + 'static)> {
            None
        }
    }
    impl C16IsizeGeLtEmbed {
        pub fn try_new(raw_value: isize) -> ::core::result::Result<Self, C16IsizeGeLtEmbedError> {
            let sanitized_value: isize = Self::__sanitize__(raw_value);
            #[allow(clippy::question_mark)]
            if let Err(e) = Self::__validate__(&sanitized_value) {
                return Err(e);
            }
            Ok(C16IsizeGeLtEmbed(sanitized_value))
        }
        fn __sanitize__(mut value: isize) -> isize {
            value
        }
        fn __validate__(val: &isize) -> ::core::result::Result<(), C16IsizeGeLtEmbedError> {
            let val = *val;
            if val < sym_lo_isize() {
                return Err(C16IsizeGeLtEmbedError::GreaterOrEqualViolated);
            }
            if val >= sym_hi_isize() {
                return Err(C16IsizeGeLtEmbedError::LessViolated);
            }
            Ok(())
        }
    }
    impl C16IsizeGeLtEmbed {
        #[inline]
        pub fn into_inner(self) -> isize {
            self.0
        }
    }
    #[derive(Debug)]
    pub enum C16IsizeGeLtEmbedParseError {
        Parse(<isize as ::core::str::FromStr>::Err),
        Validate(C16IsizeGeLtEmbedError),
    }
    impl ::core::fmt::Display for C16IsizeGeLtEmbedParseError {
        fn fmt(&self, formatter: &mut ::core::fmt::Formatter<'_>) -> ::core::fmt::Result {
            match *self {
                Self::Validate(ref validation_error) => formatter.write_fmt(::core::format_args!(
                    "Failed to parse {}: {}",
                    "C16IsizeGeLtEmbed",
                    validation_error
                )),
                Self::Parse(ref parse_error) => formatter.write_fmt(::core::format_args!(
                    "Failed to parse {}: {:?}",
                    "C16IsizeGeLtEmbed",
                    parse_error
                )),
            }
        }
    }
    impl ::core::error::Error for C16IsizeGeLtEmbedParseError {
        fn source(&self) -> Option<&(dyn ::core::error::Error + 'static)> {
            None
        }
    }
    impl ::core::str::FromStr for C16IsizeGeLtEmbed {
        type Err = C16IsizeGeLtEmbedParseError;
        fn from_str(input: &str) -> ::core::result::Result<Self, C16IsizeGeLtEmbedParseError> {
            match <isize as ::core::str::FromStr>::from_str(input) {
                ::core::result::Result::Err(parse_error) => {
                    ::core::result::Result::Err(C16IsizeGeLtEmbedParseError::Parse(parse_error))
                }
                ::core::result::Result::Ok(parsed_value) => match <Self>::try_new(parsed_value) {
                    ::core::result::Result::Ok(valid) => ::core::result::Result::Ok(valid),
                    ::core::result::Result::Err(validation_error) => ::core::result::Result::Err(
                        C16IsizeGeLtEmbedParseError::Validate(validation_error),
                    ),
                },
            }
        }
    }
    impl<'de> ::serde::Deserialize<'de> for C16IsizeGeLtEmbed {
        fn deserialize<D: ::serde::Deserializer<'de>>(
            deserializer: D,
        ) -> ::core::result::Result<Self, D::Error> {
            struct __Visitor<'de> {
                marker: ::core::marker::PhantomData<C16IsizeGeLtEmbed>,
                lifetime: ::core::marker::PhantomData<&'de ()>,
            }
            impl<'de> ::serde::de::Visitor<'de> for __Visitor<'de> {
                type Value = C16IsizeGeLtEmbed;
                fn expecting(&self, formatter: &mut ::core::fmt::Formatter) -> ::core::fmt::Result {
                    write!(formatter, "tuple struct C16IsizeGeLtEmbed")
                }
                fn visit_newtype_struct<DE>(
                    self,
                    deserializer: DE,
                ) -> ::core::result::Result<Self::Value, DE::Error>
                where
                    DE: ::serde::Deserializer<'de>,
                {
                    let raw_value: isize =
                        match <isize as ::serde::Deserialize>::deserialize(deserializer) {
                            Ok(val) => val,
                            Err(err) => return Err(err),
                        };
                    C16IsizeGeLtEmbed::try_new(raw_value).map_err(|validation_error| {
                        <DE::Error as serde::de::Error>::custom(core::format_args!(
                            "{validation_error} Expected valid {}",
                            "C16IsizeGeLtEmbed"
                        ))
                    })
                }
            }
            ::serde::de::Deserializer::deserialize_newtype_struct(
                deserializer,
                "C16IsizeGeLtEmbed",
                __Visitor {
                    marker: Default::default(),
                    lifetime: Default::default(),
                },
            )
        }
    }
    #[cfg(test)]
    mod tests {
        use super::*;
        #[test]
        fn should_have_consistent_lower_and_upper_boundaries() {
            assert!
            (sym_hi_isize() >= sym_lo_isize(),
            "\nInconsistent lower and upper boundaries for type `C16IsizeGeLtEmbed`\nThe upper boundary `sym_hi_isize()` must be greater than or equal to the lower boundary `sym_lo_isize()`\nNote: the test is generated automatically by #[nutype] macro.\n");
        }
    }
}
pub use __nutype_C16IsizeGeLtEmbed__::C16IsizeGeLtEmbed;
pub use __nutype_C16IsizeGeLtEmbed__::C16IsizeGeLtEmbedError;
pub use __nutype_C16IsizeGeLtEmbed__::C16IsizeGeLtEmbedParseError;
