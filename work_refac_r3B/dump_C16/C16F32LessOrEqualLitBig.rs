// NUTYPE_VERIF_INPUT #[nutype(validate(less_or_equal = 1e30), derive(Debug))] pub struct C16F32LessOrEqualLitBig(f32);
#[doc(hidden)]
#[allow(
    non_snake_case,
    reason = "we keep original structure name which is probably CamelCase"
)]
mod __nutype_C16F32LessOrEqualLitBig__ {
    use super::*;
    #[derive(Debug)]
    pub struct C16F32LessOrEqualLitBig(f32);
    #[derive(Debug, Clone, PartialEq, Eq)]
    #[allow(clippy::enum_variant_names)]
    pub enum C16F32LessOrEqualLitBigError {
        LessOrEqualViolated,
    }
    impl ::core::fmt::Display for C16F32LessOrEqualLitBigError {
        fn fmt(&self, f: &mut ::core::fmt::Formatter<'_>) -> ::core::fmt::Result {
            match self {
                C16F32LessOrEqualLitBigError::LessOrEqualViolated => write!(
                    f,
                    "{} is too big. The value must be less than {:#?}.",
                    stringify!(C16F32LessOrEqualLitBig),
                    1000000000000000000000000000000f32
                ),
            }
        }
    }
    impl ::core::error::Error for C16F32LessOrEqualLitBigError {
        fn source(&self) -> Option<&(dyn ::core::error::Error + 'static)> {
            None
        }
    }
    impl C16F32LessOrEqualLitBig {
        pub fn try_new(
            raw_value: f32,
        ) -> ::core::result::Result<Self, C16F32LessOrEqualLitBigError> {
            let sanitized_value: f32 = Self::__sanitize__(raw_value);
            #[allow(clippy::question_mark)]
            if let Err(e) = Self::__validate__(&sanitized_value) {
                return Err(e);
            }
            Ok(C16F32LessOrEqualLitBig(sanitized_value))
        }
        fn __sanitize__(mut value: f32) -> f32 {
            value
        }
        fn __validate__(val: &f32) -> core::result::Result<(), C16F32LessOrEqualLitBigError> {
            let val = *val;
            if val > 1000000000000000000000000000000f32 {
                return Err(C16F32LessOrEqualLitBigError::LessOrEqualViolated);
            }
            Ok(())
        }
    }
    impl C16F32LessOrEqualLitBig {
        #[inline]
        pub fn into_inner(self) -> f32 {
            self.0
        }
    }
    #[cfg(test)]
    mod tests {
        use super::*;
    }
}
pub use __nutype_C16F32LessOrEqualLitBig__::C16F32LessOrEqualLitBig;
pub use __nutype_C16F32LessOrEqualLitBig__::C16F32LessOrEqualLitBigError;
