// NUTYPE_VERIF_INPUT #[nutype(validate(greater_or_equal = sym_lo_f64()), derive(Debug))] pub struct C16F64GreaterOrEqualSym(f64);
#[doc(hidden)]
#[allow(
    non_snake_case,
    reason = "we keep original structure name which is probably CamelCase"
)]
mod __nutype_C16F64GreaterOrEqualSym__ {
    use super::*;
    #[derive(Debug)]
    pub struct C16F64GreaterOrEqualSym(f64);
    #[derive(Debug, Clone, PartialEq, Eq)]
    #[allow(clippy::enum_variant_names)]
    pub enum C16F64GreaterOrEqualSymError {
        GreaterOrEqualViolated,
    }
    impl ::core::fmt::Display for C16F64GreaterOrEqualSymError {
        fn fmt(&self, f: &mut ::core::fmt::Formatter<'_>) -> ::core::fmt::Result {
            match self {
                C16F64GreaterOrEqualSymError::GreaterOrEqualViolated => write!(
                    f,
                    "{} is too small. The value must be greater or equal to {:#?}.",
                    stringify!(C16F64GreaterOrEqualSym),
                    sym_lo_f64()
                ),
            }
        }
    }
    impl ::core::error::Error for C16F64GreaterOrEqualSymError {
        fn source(&self) -> Option<&(dyn ::core::error::Error + 'static)> {
            None
        }
    }
    impl C16F64GreaterOrEqualSym {
        pub fn try_new(
            raw_value: f64,
        ) -> ::core::result::Result<Self, C16F64GreaterOrEqualSymError> {
            let sanitized_value: f64 = Self::__sanitize__(raw_value);
            #[allow(clippy::question_mark)]
            if let Err(e) = Self::__validate__(&sanitized_value) {
                return Err(e);
            }
            Ok(C16F64GreaterOrEqualSym(sanitized_value))
        }
        fn __sanitize__(mut value: f64) -> f64 {
            value
        }
        fn __validate__(val: &f64) -> core::result::Result<(), C16F64GreaterOrEqualSymError> {
            let val = *val;
            if val < sym_lo_f64() {
                return Err(C16F64GreaterOrEqualSymError::GreaterOrEqualViolated);
            }
            Ok(())
        }
    }
    impl C16F64GreaterOrEqualSym {
        #[inline]
        pub fn into_inner(self) -> f64 {
            self.0
        }
    }
    #[cfg(test)]
    mod tests {
        use super::*;
    }
}
pub use __nutype_C16F64GreaterOrEqualSym__::C16F64GreaterOrEqualSym;
pub use __nutype_C16F64GreaterOrEqualSym__::C16F64GreaterOrEqualSymError;
