// NUTYPE_VERIF_INPUT #[nutype(validate(len_char_max = 0), derive(Debug))] pub struct C16StrMax0(String);
#[doc(hidden)]
#[allow(
    non_snake_case,
    reason = "we keep original structure name which is probably CamelCase"
)]
mod __nutype_C16StrMax0__ {
    use super::*;
    #[derive(Debug)]
    pub struct C16StrMax0(String);
    #[derive(Debug, Clone, PartialEq, Eq)]
    #[allow(clippy::enum_variant_names)]
    pub enum C16StrMax0Error {
        LenCharMaxViolated,
    }
    impl ::core::fmt::Display for C16StrMax0Error {
        fn fmt(&self, f: &mut ::core::fmt::Formatter<'_>) -> ::core::fmt::Result {
            match self {
                C16StrMax0Error::LenCharMaxViolated => write!(
                    f,
                    "{} is too long. The value length must be at most {:#?} character(s).",
                    stringify!(C16StrMax0),
                    0usize
                ),
            }
        }
    }
    impl ::core::error::Error for C16StrMax0Error {
        fn source(&self) -> Option<&(dyn ::core::error::Error + 'static)> {
            None
        }
    }
    impl C16StrMax0 {
        pub fn try_new(
            raw_value: impl Into<String>,
        ) -> ::core::result::Result<Self, C16StrMax0Error> {
            let raw_value = raw_value.into();
            let sanitized_value: String = Self::__sanitize__(raw_value);
            #[allow(clippy::question_mark)]
            if let Err(e) = Self::__validate__(&sanitized_value) {
                return Err(e);
            }
            Ok(C16StrMax0(sanitized_value))
        }
        fn __sanitize__(value: String) -> String {
            value
        }
        fn __validate__(val: &str) -> ::core::result::Result<(), C16StrMax0Error> {
            let chars_count = val.chars().count();
            if chars_count > 0usize {
                return Err(C16StrMax0Error::LenCharMaxViolated);
            }
            Ok(())
        }
    }
    impl C16StrMax0 {
        #[inline]
        pub fn into_inner(self) -> String {
            self.0
        }
    }
    #[cfg(test)]
    mod tests {
        use super::*;
    }
}
pub use __nutype_C16StrMax0__::C16StrMax0;
pub use __nutype_C16StrMax0__::C16StrMax0Error;
