// NUTYPE_VERIF_INPUT #[nutype(validate(less_or_equal = 7), derive(Debug))] pub struct C16IsizeLessOrEqualLitP(isize);
#[doc(hidden)]
#[allow(
    non_snake_case,
    reason = "we keep original structure name which is probably CamelCase"
)]
mod __nutype_C16IsizeLessOrEqualLitP__ {
    use super::*;
    #[derive(Debug)]
    pub struct C16IsizeLessOrEqualLitP(isize);
    #[derive(Debug, Clone, PartialEq, Eq)]
    #[allow(clippy::enum_variant_names)]
    pub enum C16IsizeLessOrEqualLitPError {
        LessOrEqualViolated,
    }
    impl ::core::fmt::Display for C16IsizeLessOrEqualLitPError {
        fn fmt(&self, f: &mut ::core::fmt::Formatter<'_>) -> ::core::fmt::Result {
            match self {
                C16IsizeLessOrEqualLitPError::LessOrEqualViolated => write!(
                    f,
                    "{} is too big. The value must be less or equal to {:#?}.",
                    stringify!(C16IsizeLessOrEqualLitP),
                    7isize
                ),
            }
        }
    }
    impl ::core::error::Error for C16IsizeLessOrEqualLitPError {
        fn source(&self) -> Option<&(dyn ::core::error::Error + 'static)> {
            None
        }
    }
    impl C16IsizeLessOrEqualLitP {
        pub fn try_new(
            raw_value: isize,
        ) -> ::core::result::Result<Self, C16IsizeLessOrEqualLitPError> {
            let sanitized_value: isize = Self::__sanitize__(raw_value);
            #[allow(clippy::question_mark)]
            if let Err(e) = Self::__validate__(&sanitized_value) {
                return Err(e);
            }
            Ok(C16IsizeLessOrEqualLitP(sanitized_value))
        }
        fn __sanitize__(mut value: isize) -> isize {
            value
        }
        fn __validate__(val: &isize) -> ::core::result::Result<(), C16IsizeLessOrEqualLitPError> {
            let val = *val;
            if val > 7isize {
                return Err(C16IsizeLessOrEqualLitPError::LessOrEqualViolated);
            }
            Ok(())
        }
    }
    impl C16IsizeLessOrEqualLitP {
        #[inline]
        pub fn into_inner(self) -> isize {
            self.0
        }
    }
    #[cfg(test)]
    mod tests {
        use super::*;
    }
}
pub use __nutype_C16IsizeLessOrEqualLitP__::C16IsizeLessOrEqualLitP;
pub use __nutype_C16IsizeLessOrEqualLitP__::C16IsizeLessOrEqualLitPError;
