// NUTYPE_VERIF_INPUT #[nutype(validate(greater = 100), derive(Debug))] pub struct C16IsizeGreaterLitBig(isize);
#[doc(hidden)]
#[allow(
    non_snake_case,
    reason = "we keep original structure name which is probably CamelCase"
)]
mod __nutype_C16IsizeGreaterLitBig__ {
    use super::*;
    #[derive(Debug)]
    pub struct C16IsizeGreaterLitBig(isize);
    #[derive(Debug, Clone, PartialEq, Eq)]
    #[allow(clippy::enum_variant_names)]
    pub enum C16IsizeGreaterLitBigError {
        GreaterViolated,
    }
    impl ::core::fmt::Display for C16IsizeGreaterLitBigError {
        fn fmt(&self, f: &mut ::core::fmt::Formatter<'_>) -> ::core::fmt::Result {
            match self {
                C16IsizeGreaterLitBigError::GreaterViolated => write!(
                    f,
                    "{} is too small. The value must be greater than {:#?}.",
                    stringify!(C16IsizeGreaterLitBig),
                    100isize
                ),
            }
        }
    }
    impl ::core::error::Error for C16IsizeGreaterLitBigError {
        fn source(&self) -> Option<&(dyn ::core::error::Error + 'static)> {
            None
        }
    }
    impl C16IsizeGreaterLitBig {
        pub fn try_new(
            raw_value: isize,
        ) -> ::core::result::Result<Self, C16IsizeGreaterLitBigError> {
            let sanitized_value: isize = Self::__sanitize__(raw_value);
            #[allow(clippy::question_mark)]
            if let Err(e) = Self::__validate__(&sanitized_value) {
                return Err(e);
            }
            Ok(C16IsizeGreaterLitBig(sanitized_value))
        }
        fn __sanitize__(mut value: isize) -> isize {
            value
        }
        fn __validate__(val: &isize) -> ::core::result::Result<(), C16IsizeGreaterLitBigError> {
            let val = *val;
            if val <= 100isize {
                return Err(C16IsizeGreaterLitBigError::GreaterViolated);
            }
            Ok(())
        }
    }
    impl C16IsizeGreaterLitBig {
        #[inline]
        pub fn into_inner(self) -> isize {
            self.0
        }
    }
    #[cfg(test)]
    mod tests {
        use super::*;
    }
}
pub use __nutype_C16IsizeGreaterLitBig__::C16IsizeGreaterLitBig;
pub use __nutype_C16IsizeGreaterLitBig__::C16IsizeGreaterLitBigError;
