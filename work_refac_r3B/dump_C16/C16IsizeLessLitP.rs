// NUTYPE_VERIF_INPUT #[nutype(validate(less = 7), derive(Debug))] pub struct C16IsizeLessLitP(isize);
#[doc(hidden)]
#[allow(
    non_snake_case,
    reason = "we keep original structure name which is probably CamelCase"
)]
mod __nutype_C16IsizeLessLitP__ {
    use super::*;
    #[derive(Debug)]
    pub struct C16IsizeLessLitP(isize);
    #[derive(Debug, Clone, PartialEq, Eq)]
    #[allow(clippy::enum_variant_names)]
    pub enum C16IsizeLessLitPError {
        LessViolated,
    }
    impl ::core::fmt::Display for C16IsizeLessLitPError {
        fn fmt(&self, f: &mut ::core::fmt::Formatter<'_>) -> ::core::fmt::Result {
            match self {
                C16IsizeLessLitPError::LessViolated => write!(
                    f,
                    "{} is too big. The value must be less than {:#?}.",
                    stringify!(C16IsizeLessLitP),
                    7isize
                ),
            }
        }
    }
    impl ::core::error::Error for C16IsizeLessLitPError {
        fn source(&self) -> Option<&(dyn ::core::error::Error + 'static)> {
            None
        }
    }
    impl C16IsizeLessLitP {
        pub fn try_new(raw_value: isize) -> ::core::result::Result<Self, C16IsizeLessLitPError> {
            let sanitized_value: isize = Self::__sanitize__(raw_value);
            #[allow(clippy::question_mark)]
            if let Err(e) = Self::__validate__(&sanitized_value) {
                return Err(e);
            }
            Ok(C16IsizeLessLitP(sanitized_value))
        }
        fn __sanitize__(mut value: isize) -> isize {
            value
        }
        fn __validate__(val: &isize) -> ::core::result::Result<(), C16IsizeLessLitPError> {
            let val = *val;
            if val >= 7isize {
                return Err(C16IsizeLessLitPError::LessViolated);
            }
            Ok(())
        }
    }
    impl C16IsizeLessLitP {
        #[inline]
        pub fn into_inner(self) -> isize {
            self.0
        }
    }
    #[cfg(test)]
    mod tests {
        use super::*;
    }
}
pub use __nutype_C16IsizeLessLitP__::C16IsizeLessLitP;
pub use __nutype_C16IsizeLessLitP__::C16IsizeLessLitPError;
