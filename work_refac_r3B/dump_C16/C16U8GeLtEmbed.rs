// NUTYPE_VERIF_INPUT #[nutype(validate(greater_or_equal = sym_lo_u8(), less = sym_hi_u8()), derive(Debug, FromStr, Deserialize))] pub struct C16U8GeLtEmbed(u8);
#[doc(hidden)]
#[allow(
    non_snake_case,
    reason = "we keep original structure name which is probably CamelCase"
)]
mod __nutype_C16U8GeLtEmbed__ {
    use super::*;
    #[derive(Debug)]
    pub struct C16U8GeLtEmbed(u8);
    #[derive(Debug, Clone, PartialEq, Eq)]
    #[allow(clippy::enum_variant_names)]
    pub enum C16U8GeLtEmbedError {
        GreaterOrEqualViolated,
        LessViolated,
    }
    impl ::core::fmt::Display for C16U8GeLtEmbedError {
        fn fmt(&self, f: &mut ::core::fmt::Formatter<'_>) -> ::core::fmt::Result {
            match self {
                C16U8GeLtEmbedError::GreaterOrEqualViolated => write!(
                    f,
                    "{} is too small. The value must be greater or equal to {:#?}.",
                    stringify!(C16U8GeLtEmbed),
                    sym_lo_u8()
                ),
                C16U8GeLtEmbedError::LessViolated => write!(
                    f,
                    "{} is too big. The value must be less than {:#?}.",
                    stringify!(C16U8GeLtEmbed),
                    sym_hi_u8()
                ),
            }
        }
    }
    impl ::core::error::Error for C16U8GeLtEmbedError {
        fn source(&self) -> Option<&(dyn ::core::error::Error + 'static)> {
            None
        }
    }
    impl C16U8GeLtEmbed {
        pub fn try_new(raw_value: u8) -> ::core::result::Result<Self, C16U8GeLtEmbedError> {
            let sanitized_value: u8 = Self::__sanitize__(raw_value);
            #[allow(clippy::question_mark)]
            if let Err(e) = Self::__validate__(&sanitized_value) {
                return Err(e);
            }
            Ok(C16U8GeLtEmbed(sanitized_value))
        }
        fn __sanitize__(mut value: u8) -> u8 {
            value
        }
        fn __validate__(val: &u8) -> ::core::result::Result<(), C16U8GeLtEmbedError> {
            let val = *val;
            if val < sym_lo_u8() {
                return Err(C16U8GeLtEmbedError::GreaterOrEqualViolated);
            }
            if val >= sym_hi_u8() {
                return Err(C16U8GeLtEmbedError::LessViolated);
            }
            Ok(())
        }
    }
    impl C16U8GeLtEmbed {
        #[inline]
        pub fn into_inner(self) -> u8 {
            self.0
        }
    }
    impl<'de> ::serde::Deserialize<'de> for C16U8GeLtEmbed {
        fn deserialize<D: ::serde::Deserializer<'de>>(
            deserializer: D,
        ) -> ::core::result::Result<Self, D::Error> {
            struct __Visitor<'de> {
                marker: ::core::marker::PhantomData<C16U8GeLtEmbed>,
                lifetime: ::core::marker::PhantomData<&'de ()>,
            }
            impl<'de> ::serde::de::Visitor<'de> for __Visitor<'de> {
                type Value = C16U8GeLtEmbed;
                fn expecting(&self, formatter: &mut ::core::fmt::Formatter) -> ::core::fmt::Result {
                    write!(formatter, "tuple struct C16U8GeLtEmbed")
                }
                fn visit_newtype_struct<DE>(
                    self,
                    deserializer: DE,
                ) -> ::core::result::Result<Self::Value, DE::Error>
                where
                    DE: ::serde::Deserializer<'de>,
                {
                    let raw_value: u8 =
                        match <u8 as ::serde::Deserialize>::deserialize(deserializer) {
                            Ok(val) => val,
                            Err(err) => return Err(err),
                        };
                    C16U8GeLtEmbed::try_new(raw_value).map_err(|validation_error| {
                        <DE::Error as serde::de::Error>::custom(core::format_args!(
                            "{validation_error} Expected valid {}",
                            "C16U8GeLtEmbed"
                        ))
                    })
                }
            }
            ::serde::de::Deserializer::deserialize_newtype_struct(
                deserializer,
                "C16U8GeLtEmbed",
                __Visitor {
                    marker: Default::default(),
                    lifetime: Default::default(),
                },
            )
        }
    }
    #[derive(Debug)]
    pub enum C16U8GeLtEmbedParseError {
        Parse(<u8 as ::core::str::FromStr>::Err),
        Validate(C16U8GeLtEmbedError),
    }
    impl ::core::fmt::Display for C16U8GeLtEmbedParseError {
        fn fmt(&self, formatter: &mut ::core::fmt::Formatter<'_>) -> ::core::fmt::Result {
            match *self {
                Self::Validate(ref validation_error) => formatter.write_fmt(::core::format_args!(
                    "Failed to parse {}: {}",
                    "C16U8GeLtEmbed",
                    validation_error
                )),
                Self::Parse(ref parse_error) => formatter.write_fmt(::core::format_args!(
                    "Failed to parse {}: {:?}",
                    "C16U8GeLtEmbed",
                    parse_error
                )),
            }
        }
    }
    impl ::core::error::Error for C16U8GeLtEmbedParseError {
        fn source(&self) -> Option<&(dyn ::core::error::Error + 'static)> {
            None
        }
    }
    impl ::core::str::FromStr for C16U8GeLtEmbed {
        type Err = C16U8GeLtEmbedParseError;
        fn from_str(input: &str) -> ::core::result::Result<Self, C16U8GeLtEmbedParseError> {
            match <u8 as ::core::str::FromStr>::from_str(input) {
                ::core::result::Result::Err(parse_error) => {
                    ::core::result::Result::Err(C16U8GeLtEmbedParseError::Parse(parse_error))
                }
                ::core::result::Result::Ok(parsed_value) => match <Self>::try_new(parsed_value) {
                    ::core::result::Result::Ok(valid) => ::core::result::Result::Ok(valid),
                    ::core::result::Result::Err(validation_error) => ::core::result::Result::Err(
                        C16U8GeLtEmbedParseError::Validate(validation_error),
                    ),
                },
            }
        }
    }
    #[cfg(test)]
    mod tests {
        use super::*;
        #[test]
        fn should_have_consistent_lower_and_upper_boundaries() {
            assert!
            (sym_hi_u8() >= sym_lo_u8(),
            "\nInconsistent lower and upper boundaries for type `C16U8GeLtEmbed`\nThe upper boundary `sym_hi_u8()` must be greater than or equal to the lower boundary `sym_lo_u8()`\nNote: the test is generated automatically by #[nutype] macro.\n");
        }
    }
}
pub use __nutype_C16U8GeLtEmbed__::C16U8GeLtEmbed;
pub use __nutype_C16U8GeLtEmbed__::C16U8GeLtEmbedError;
pub use __nutype_C16U8GeLtEmbed__::C16U8GeLtEmbedParseError;
