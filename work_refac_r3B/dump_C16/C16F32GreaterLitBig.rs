// NUTYPE_VERIF_INPUT #[nutype(validate(greater = 1e30), derive(Debug))] pub struct C16F32GreaterLitBig(f32);
#[doc(hidden)]
#[allow(
    non_snake_case,
    reason = "we keep original structure name which is probably CamelCase"
)]
mod __nutype_C16F32GreaterLitBig__ {
    use super::*;
    #[derive(Debug)]
    pub struct C16F32GreaterLitBig(f32);
    #[derive(Debug, Clone, PartialEq, Eq)]
    #[allow(clippy::enum_variant_names)]
    pub enum C16F32GreaterLitBigError {
        GreaterViolated,
    }
    impl ::core::fmt::Display for C16F32GreaterLitBigError {
        fn fmt(&self, f: &mut ::core::fmt::Formatter<'_>) -> ::core::fmt::Result {
            match self {
                C16F32GreaterLitBigError::GreaterViolated => write!(
                    f,
                    "{} is too small. The value must be greater than {:#?}.",
                    stringify!(C16F32GreaterLitBig),
                    1000000000000000000000000000000f32
                ),
            }
        }
    }
    impl ::core::error::Error for C16F32GreaterLitBigError {
        fn source(&self) -> Option<&(dyn ::core::error::Error + 'static)> {
            None
        }
    }
    impl C16F32GreaterLitBig {
        pub fn try_new(raw_value: f32) -> ::core::result::Result<Self, C16F32GreaterLitBigError> {
            let sanitized_value: f32 = Self::__sanitize__(raw_value);
            #[allow(clippy::question_mark)]
            if let Err(e) = Self::__validate__(&sanitized_value) {
                return Err(e);
            }
            Ok(C16F32GreaterLitBig(sanitized_value))
        }
        fn __sanitize__(mut value: f32) -> f32 {
            value
        }
        fn __validate__(val: &f32) -> core::result::Result<(), C16F32GreaterLitBigError> {
            let val = *val;
            if val <= 1000000000000000000000000000000f32 {
                return Err(C16F32GreaterLitBigError::GreaterViolated);
            }
            Ok(())
        }
    }
    impl C16F32GreaterLitBig {
        #[inline]
        pub fn into_inner(self) -> f32 {
            self.0
        }
    }
    #[cfg(test)]
    mod tests {
        use super::*;
    }
}
pub use __nutype_C16F32GreaterLitBig__::C16F32GreaterLitBig;
pub use __nutype_C16F32GreaterLitBig__::C16F32GreaterLitBigError;
