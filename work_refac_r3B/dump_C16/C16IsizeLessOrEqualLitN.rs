// NUTYPE_VERIF_INPUT #[nutype(validate(less_or_equal = -7), derive(Debug))] pub struct C16IsizeLessOrEqualLitN(isize);
#[doc(hidden)]
#[allow(
    non_snake_case,
    reason = "we keep original structure name which is probably CamelCase"
)]
mod __nutype_C16IsizeLessOrEqualLitN__ {
    use super::*;
    #[derive(Debug)]
    pub struct C16IsizeLessOrEqualLitN(isize);
    #[derive(Debug, Clone, PartialEq, Eq)]
    #[allow(clippy::enum_variant_names)]
    pub enum C16IsizeLessOrEqualLitNError {
        LessOrEqualViolated,
    }
    impl ::core::fmt::Display for C16IsizeLessOrEqualLitNError {
        fn fmt(&self, f: &mut ::core::fmt::Formatter<'_>) -> ::core::fmt::Result {
            match self {
                C16IsizeLessOrEqualLitNError::LessOrEqualViolated => write!(
                    f,
                    "{} is too big. The value must be less or equal to {:#?}.",
                    stringify!(C16IsizeLessOrEqualLitN),
                    -7isize
                ),
            }
        }
    }
    impl ::core::error::Error for C16IsizeLessOrEqualLitNError {
        fn source(&self) -> Option<&(dyn ::core::error::Error + 'static)> {
            None
        }
    }
    impl C16IsizeLessOrEqualLitN {
        pub fn try_new(
            raw_value: isize,
        ) -> ::core::result::Result<Self, C16IsizeLessOrEqualLitNError> {
            let sanitized_value: isize = Self::__sanitize__(raw_value);
            #[allow(clippy::question_mark)]
            if let Err(e) = Self::__validate__(&sanitized_value) {
                return Err(e);
            }
            Ok(C16IsizeLessOrEqualLitN(sanitized_value))
        }
        fn __sanitize__(mut value: isize) -> isize {
            value
        }
        fn __validate__(val: &isize) -> ::core::result::Result<(), C16IsizeLessOrEqualLitNError> {
            let val = *val;
            if val > -7isize {
                return Err(C16IsizeLessOrEqualLitNError::LessOrEqualViolated);
            }
            Ok(())
        }
    }
    impl C16IsizeLessOrEqualLitN {
        #[inline]
        pub fn into_inner(self) -> isize {
            self.0
        }
    }
    #[cfg(test)]
    mod tests {
        use super::*;
    }
}
pub use __nutype_C16IsizeLessOrEqualLitN__::C16IsizeLessOrEqualLitN;
pub use __nutype_C16IsizeLessOrEqualLitN__::C16IsizeLessOrEqualLitNError;
