// NUTYPE_VERIF_INPUT #[nutype(validate(less_or_equal = 100), derive(Debug))] pub struct C16I32LessOrEqualLitBig(i32);
#[doc(hidden)]
#[allow(
    non_snake_case,
    reason = "we keep original structure name which is probably CamelCase"
)]
mod __nutype_C16I32LessOrEqualLitBig__ {
    use super::*;
    #[derive(Debug)]
    pub struct C16I32LessOrEqualLitBig(i32);
    #[derive(Debug, Clone, PartialEq, Eq)]
    #[allow(clippy::enum_variant_names)]
    pub enum C16I32LessOrEqualLitBigError {
        LessOrEqualViolated,
    }
    impl ::core::fmt::Display for C16I32LessOrEqualLitBigError {
        fn fmt(&self, f: &mut ::core::fmt::Formatter<'_>) -> ::core::fmt::Result {
            match self {
                C16I32LessOrEqualLitBigError::LessOrEqualViolated => write!(
                    f,
                    "{} is too big. The value must be less or equal to {:#?}.",
                    stringify!(C16I32LessOrEqualLitBig),
                    100i32
                ),
            }
        }
    }
    impl ::core::error::Error for C16I32LessOrEqualLitBigError {
        fn source(&self) -> Option<&(dyn ::core::error::Error + 'static)> {
            None
        }
    }
    impl C16I32LessOrEqualLitBig {
        pub fn try_new(
            raw_value: i32,
        ) -> ::core::result::Result<Self, C16I32LessOrEqualLitBigError> {
            let sanitized_value: i32 = Self::__sanitize__(raw_value);
            #[allow(clippy::question_mark)]
            if let Err(e) = Self::__validate__(&sanitized_value) {
                return Err(e);
            }
            Ok(C16I32LessOrEqualLitBig(sanitized_value))
        }
        fn __sanitize__(mut value: i32) -> i32 {
            value
        }
        fn __validate__(val: &i32) -> ::core::result::Result<(), C16I32LessOrEqualLitBigError> {
            let val = *val;
            if val > 100i32 {
                return Err(C16I32LessOrEqualLitBigError::LessOrEqualViolated);
            }
            Ok(())
        }
    }
    impl C16I32LessOrEqualLitBig {
        #[inline]
        pub fn into_inner(self) -> i32 {
            self.0
        }
    }
    #[cfg(test)]
    mod tests {
        use super::*;
    }
}
pub use __nutype_C16I32LessOrEqualLitBig__::C16I32LessOrEqualLitBig;
pub use __nutype_C16I32LessOrEqualLitBig__::C16I32LessOrEqualLitBigError;
