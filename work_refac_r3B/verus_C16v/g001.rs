// GENERATED on every run: real expansions of /repo's macro with contracts inserted in place.
#![allow(unused_imports, dead_code, unused_variables, unused_mut, non_snake_case, non_upper_case_globals, non_camel_case_types)]
use vstd::prelude::*;
use vstd::string::*;
use vstd::std_specs::iter::IteratorSpec;
verus! {
// ---- fixed prelude: ASSUMED contracts on the Rust standard library (trusted, listed in evidence) ----
// Every std function the generated code may call gets its own *uninterpreted* spec symbol, so a
// changed call (trim -> trim_start, to_lowercase -> to_ascii_lowercase, chars().count() -> len())
// fails a postcondition instead of turning into "unsupported".
pub uninterp spec fn spec_trim(s: Seq<char>) -> Seq<char>;
pub uninterp spec fn spec_trim_start(s: Seq<char>) -> Seq<char>;
pub uninterp spec fn spec_trim_end(s: Seq<char>) -> Seq<char>;
pub uninterp spec fn spec_lower(s: Seq<char>) -> Seq<char>;
pub uninterp spec fn spec_upper(s: Seq<char>) -> Seq<char>;
pub uninterp spec fn spec_ascii_lower(s: Seq<char>) -> Seq<char>;
pub uninterp spec fn spec_ascii_upper(s: Seq<char>) -> Seq<char>;

pub assume_specification[ str::trim ](s: &str) -> (r: &str)
    ensures r@ == spec_trim(s@);
pub assume_specification[ str::trim_start ](s: &str) -> (r: &str)
    ensures r@ == spec_trim_start(s@);
pub assume_specification[ str::trim_end ](s: &str) -> (r: &str)
    ensures r@ == spec_trim_end(s@);
pub assume_specification[ str::to_lowercase ](s: &str) -> (r: String)
    ensures r@ == spec_lower(s@);
pub assume_specification[ str::to_uppercase ](s: &str) -> (r: String)
    ensures r@ == spec_upper(s@);
pub assume_specification[ str::to_ascii_lowercase ](s: &str) -> (r: String)
    ensures r@ == spec_ascii_lower(s@);
pub assume_specification[ str::to_ascii_uppercase ](s: &str) -> (r: String)
    ensures r@ == spec_ascii_upper(s@);
pub uninterp spec fn spec_string_byte_len(s: Seq<char>) -> usize;
pub assume_specification[ String::len ](s: &String) -> (r: usize)
    ensures r == spec_string_byte_len(s@);
pub assume_specification<'a>[ <core::str::Chars<'a> as Iterator>::count ](c: core::str::Chars<'a>) -> (r: usize)
    ensures r == c.remaining().len();

global size_of usize == 8;

// opaque std error types that appear as payload of the generated `<X>ParseError` enums
#[verifier::external_type_specification]
#[verifier::external_body]
pub struct ExParseIntError(core::num::ParseIntError);
#[verifier::external_type_specification]
#[verifier::external_body]
pub struct ExParseFloatError(core::num::ParseFloatError);

// `impl Into<String>` arguments: the only facts assumed about the conversion.
pub broadcast axiom fn axiom_into_string_from_string(x: String, s: String)
    requires #[trigger] call_ensures(<String as Into<String>>::into, (x,), s)
    ensures s@ == x@;
pub broadcast axiom fn axiom_into_string_from_str(x: &str, s: String)
    requires #[trigger] call_ensures(<&str as Into<String>>::into, (x,), s)
    ensures s@ == x@;

// Algebraic facts about std's trim / case mapping used only by the C11 (canonical form) lemmas.
// A1-A3 idempotence; A4/A5 case mapping neither creates nor removes edge whitespace, i.e. trim and
// case mapping commute "up to" re-application.  Statements about std, not about nutype.
pub broadcast axiom fn axiom_trim_idem(s: Seq<char>)
    ensures #[trigger] spec_trim(spec_trim(s)) == spec_trim(s);
pub broadcast axiom fn axiom_lower_idem(s: Seq<char>)
    ensures #[trigger] spec_lower(spec_lower(s)) == spec_lower(s);
pub broadcast axiom fn axiom_upper_idem(s: Seq<char>)
    ensures #[trigger] spec_upper(spec_upper(s)) == spec_upper(s);
pub broadcast axiom fn axiom_trim_of_lower_of_trim(s: Seq<char>)
    ensures #[trigger] spec_trim(spec_lower(spec_trim(s))) == spec_lower(spec_trim(s));
pub broadcast axiom fn axiom_trim_of_upper_of_trim(s: Seq<char>)
    ensures #[trigger] spec_trim(spec_upper(spec_trim(s))) == spec_upper(spec_trim(s));
pub broadcast axiom fn axiom_lower_of_trim_of_lower(s: Seq<char>)
    ensures #[trigger] spec_lower(spec_trim(spec_lower(s))) == spec_trim(spec_lower(s));
pub broadcast axiom fn axiom_upper_of_trim_of_upper(s: Seq<char>)
    ensures #[trigger] spec_upper(spec_trim(spec_upper(s))) == spec_trim(spec_upper(s));
pub broadcast group group_c11_std_axioms {
    axiom_trim_idem, axiom_lower_idem, axiom_upper_idem,
    axiom_trim_of_lower_of_trim, axiom_trim_of_upper_of_trim,
    axiom_lower_of_trim_of_lower, axiom_upper_of_trim_of_upper,
}

// ---- auxiliary items of the catalogue (symbolic bounds, custom functions) ----
pub uninterp spec fn SYM_HI_I32() -> i32;
#[verifier::external_body]
pub fn sym_hi_i32() -> (r: i32) ensures r == SYM_HI_I32() { 100 }

pub mod d_c16_i32_less_sym {
    use super::*;
// NUTYPE_VERIF_INPUT #[nutype(validate(less = sym_hi_i32()), derive(Debug))] pub struct C16I32LessSym(i32);
#[doc(hidden)]
#[allow(
    non_snake_case,
    reason = "we keep original structure name which is probably CamelCase"
)]
mod __nutype_C16I32LessSym__ {
    use super::*;
    #[derive(Debug)]
    pub struct C16I32LessSym(i32);
    #[derive(Debug, Clone, PartialEq, Eq)]
    #[allow(clippy::enum_variant_names)]
    pub enum C16I32LessSymError {
        LessViolated,
    }
    #[verifier::external]
impl ::core::fmt::Display for C16I32LessSymError {
        fn fmt(&self, f: &mut ::core::fmt::Formatter<'_>) -> ::core::fmt::Result {
            match self {
                C16I32LessSymError::LessViolated => write!(
                    f,
                    "{} is too big. The value must be less than {:#?}.",
                    stringify!(C16I32LessSym),
                    sym_hi_i32()
                ),
            }
        }
    }
    #[verifier::external]
impl ::core::error::Error for C16I32LessSymError {
        fn source(&self) -> Option<&(dyn ::core::error::Error + 'static)> {
            None
        }
    }
    impl C16I32LessSym {
        pub fn try_new(raw_value: i32) -> (r: ::core::result::Result<Self, C16I32LessSymError>) 
            ensures
                r == Self::spec_try_new(raw_value),
                r is Err ==> Self::spec_validate(Self::spec_sanitize(raw_value)) == Err::<(), C16I32LessSymError>(r->Err_0),
        {
            let sanitized_value: i32 = Self::__sanitize__(raw_value);
            #[allow(clippy::question_mark)]
            if let Err(e) = Self::__validate__(&sanitized_value) {
                return Err(e);
            }
            Ok(C16I32LessSym(sanitized_value))
        }
        fn __sanitize__(mut value: i32) -> (r: i32) 
            ensures
                r == Self::spec_sanitize(value),
        {
            value
        }
        fn __validate__(val: &i32) -> (r: ::core::result::Result<(), C16I32LessSymError>) 
            ensures
                r == Self::spec_validate(*val),
                r is Err ==> r == Self::spec_validate(*val),
        {
            let val = *val;
            if val >= sym_hi_i32() {
                return Err(C16I32LessSymError::LessViolated);
            }
            Ok(())
        }
    }
    impl C16I32LessSym {
        #[inline]
        pub fn into_inner(self) -> (r: i32) 
            ensures
                r == self.spec_view(),
        {
            self.0
        }
    }
    #[cfg(test)]
    mod tests {
        use super::*;
    }

    // ======== inserted by the annotator: spec-mode items only ========
    impl C16I32LessSym {
        pub closed spec fn spec_view(self) -> i32 { self.0 }
        pub closed spec fn spec_sanitize(x: i32) -> i32 { x }
        pub closed spec fn spec_validate(x: i32) -> ::core::result::Result<(), C16I32LessSymError> {
            if !(x < (SYM_HI_I32())) { Err(C16I32LessSymError::LessViolated) } else { Ok(()) }
        }
        pub closed spec fn spec_post(raw: i32, r: ::core::result::Result<Self, C16I32LessSymError>) -> bool { r == Self::spec_try_new(raw) }
        pub closed spec fn spec_try_new(raw: i32) -> ::core::result::Result<Self, C16I32LessSymError> {
            match Self::spec_validate(Self::spec_sanitize(raw)) {
                Ok(_) => Ok(C16I32LessSym(Self::spec_sanitize(raw))),
                Err(e) => Err(e),
            }
        }
        #[verifier::type_invariant]
        closed spec fn spec_inv(self) -> bool { Self::spec_validate(self.0) is Ok }
    }
    impl C16I32LessSym {
        pub proof fn lemma_c16_LessViolated(x: i32)
            ensures (x < (SYM_HI_I32())) <==> (x < (SYM_HI_I32())),
        {
        }
    }
}
pub use __nutype_C16I32LessSym__::C16I32LessSym;
pub use __nutype_C16I32LessSym__::C16I32LessSymError;

}
pub mod d_c16_i32_less_lit_p {
    use super::*;
// NUTYPE_VERIF_INPUT #[nutype(validate(less = 7), derive(Debug))] pub struct C16I32LessLitP(i32);
#[doc(hidden)]
#[allow(
    non_snake_case,
    reason = "we keep original structure name which is probably CamelCase"
)]
mod __nutype_C16I32LessLitP__ {
    use super::*;
    #[derive(Debug)]
    pub struct C16I32LessLitP(i32);
    #[derive(Debug, Clone, PartialEq, Eq)]
    #[allow(clippy::enum_variant_names)]
    pub enum C16I32LessLitPError {
        LessViolated,
    }
    #[verifier::external]
impl ::core::fmt::Display for C16I32LessLitPError {
        fn fmt(&self, f: &mut ::core::fmt::Formatter<'_>) -> ::core::fmt::Result {
            match self {
                C16I32LessLitPError::LessViolated => write!(
                    f,
                    "{} is too big. The value must be less than {:#?}.",
                    stringify!(C16I32LessLitP),
                    7i32
                ),
            }
        }
    }
    #[verifier::external]
impl ::core::error::Error for C16I32LessLitPError {
        fn source(&self) -> Option<&(dyn ::core::error::Error + 'static)> {
            None
        }
    }
    impl C16I32LessLitP {
        pub fn try_new(raw_value: i32) -> (r: ::core::result::Result<Self, C16I32LessLitPError>) 
            ensures
                r == Self::spec_try_new(raw_value),
                r is Err ==> Self::spec_validate(Self::spec_sanitize(raw_value)) == Err::<(), C16I32LessLitPError>(r->Err_0),
        {
            let sanitized_value: i32 = Self::__sanitize__(raw_value);
            #[allow(clippy::question_mark)]
            if let Err(e) = Self::__validate__(&sanitized_value) {
                return Err(e);
            }
            Ok(C16I32LessLitP(sanitized_value))
        }
        fn __sanitize__(mut value: i32) -> (r: i32) 
            ensures
                r == Self::spec_sanitize(value),
        {
            value
        }
        fn __validate__(val: &i32) -> (r: ::core::result::Result<(), C16I32LessLitPError>) 
            ensures
                r == Self::spec_validate(*val),
                r is Err ==> r == Self::spec_validate(*val),
        {
            let val = *val;
            if val >= 7i32 {
                return Err(C16I32LessLitPError::LessViolated);
            }
            Ok(())
        }
    }
    impl C16I32LessLitP {
        #[inline]
        pub fn into_inner(self) -> (r: i32) 
            ensures
                r == self.spec_view(),
        {
            self.0
        }
    }
    #[cfg(test)]
    mod tests {
        use super::*;
    }

    // ======== inserted by the annotator: spec-mode items only ========
    impl C16I32LessLitP {
        pub closed spec fn spec_view(self) -> i32 { self.0 }
        pub closed spec fn spec_sanitize(x: i32) -> i32 { x }
        pub closed spec fn spec_validate(x: i32) -> ::core::result::Result<(), C16I32LessLitPError> {
            if !(x < (7)) { Err(C16I32LessLitPError::LessViolated) } else { Ok(()) }
        }
        pub closed spec fn spec_post(raw: i32, r: ::core::result::Result<Self, C16I32LessLitPError>) -> bool { r == Self::spec_try_new(raw) }
        pub closed spec fn spec_try_new(raw: i32) -> ::core::result::Result<Self, C16I32LessLitPError> {
            match Self::spec_validate(Self::spec_sanitize(raw)) {
                Ok(_) => Ok(C16I32LessLitP(Self::spec_sanitize(raw))),
                Err(e) => Err(e),
            }
        }
        #[verifier::type_invariant]
        closed spec fn spec_inv(self) -> bool { Self::spec_validate(self.0) is Ok }
    }
    impl C16I32LessLitP {
        pub proof fn lemma_c16_LessViolated(x: i32)
            ensures (x < (7)) <==> (x < (7)),
        {
        }
    }
}
pub use __nutype_C16I32LessLitP__::C16I32LessLitP;
pub use __nutype_C16I32LessLitP__::C16I32LessLitPError;

}
pub mod d_c16_i32_less_lit_n {
    use super::*;
// NUTYPE_VERIF_INPUT #[nutype(validate(less = -7), derive(Debug))] pub struct C16I32LessLitN(i32);
#[doc(hidden)]
#[allow(
    non_snake_case,
    reason = "we keep original structure name which is probably CamelCase"
)]
mod __nutype_C16I32LessLitN__ {
    use super::*;
    #[derive(Debug)]
    pub struct C16I32LessLitN(i32);
    #[derive(Debug, Clone, PartialEq, Eq)]
    #[allow(clippy::enum_variant_names)]
    pub enum C16I32LessLitNError {
        LessViolated,
    }
    #[verifier::external]
impl ::core::fmt::Display for C16I32LessLitNError {
        fn fmt(&self, f: &mut ::core::fmt::Formatter<'_>) -> ::core::fmt::Result {
            match self {
                C16I32LessLitNError::LessViolated => write!(
                    f,
                    "{} is too big. The value must be less than {:#?}.",
                    stringify!(C16I32LessLitN),
                    -7i32
                ),
            }
        }
    }
    #[verifier::external]
impl ::core::error::Error for C16I32LessLitNError {
        fn source(&self) -> Option<&(dyn ::core::error::Error + 'static)> {
            None
        }
    }
    impl C16I32LessLitN {
        pub fn try_new(raw_value: i32) -> (r: ::core::result::Result<Self, C16I32LessLitNError>) 
            ensures
                r == Self::spec_try_new(raw_value),
                r is Err ==> Self::spec_validate(Self::spec_sanitize(raw_value)) == Err::<(), C16I32LessLitNError>(r->Err_0),
        {
            let sanitized_value: i32 = Self::__sanitize__(raw_value);
            #[allow(clippy::question_mark)]
            if let Err(e) = Self::__validate__(&sanitized_value) {
                return Err(e);
            }
            Ok(C16I32LessLitN(sanitized_value))
        }
        fn __sanitize__(mut value: i32) -> (r: i32) 
            ensures
                r == Self::spec_sanitize(value),
        {
            value
        }
        fn __validate__(val: &i32) -> (r: ::core::result::Result<(), C16I32LessLitNError>) 
            ensures
                r == Self::spec_validate(*val),
                r is Err ==> r == Self::spec_validate(*val),
        {
            let val = *val;
            if val >= -7i32 {
                return Err(C16I32LessLitNError::LessViolated);
            }
            Ok(())
        }
    }
    impl C16I32LessLitN {
        #[inline]
        pub fn into_inner(self) -> (r: i32) 
            ensures
                r == self.spec_view(),
        {
            self.0
        }
    }
    #[cfg(test)]
    mod tests {
        use super::*;
    }

    // ======== inserted by the annotator: spec-mode items only ========
    impl C16I32LessLitN {
        pub closed spec fn spec_view(self) -> i32 { self.0 }
        pub closed spec fn spec_sanitize(x: i32) -> i32 { x }
        pub closed spec fn spec_validate(x: i32) -> ::core::result::Result<(), C16I32LessLitNError> {
            if !(x < ((-7))) { Err(C16I32LessLitNError::LessViolated) } else { Ok(()) }
        }
        pub closed spec fn spec_post(raw: i32, r: ::core::result::Result<Self, C16I32LessLitNError>) -> bool { r == Self::spec_try_new(raw) }
        pub closed spec fn spec_try_new(raw: i32) -> ::core::result::Result<Self, C16I32LessLitNError> {
            match Self::spec_validate(Self::spec_sanitize(raw)) {
                Ok(_) => Ok(C16I32LessLitN(Self::spec_sanitize(raw))),
                Err(e) => Err(e),
            }
        }
        #[verifier::type_invariant]
        closed spec fn spec_inv(self) -> bool { Self::spec_validate(self.0) is Ok }
    }
    impl C16I32LessLitN {
        pub proof fn lemma_c16_LessViolated(x: i32)
            ensures (x < ((-7))) <==> (x < ((-7))),
        {
        }
    }
}
pub use __nutype_C16I32LessLitN__::C16I32LessLitN;
pub use __nutype_C16I32LessLitN__::C16I32LessLitNError;

}
pub mod d_c16_i32_less_lit_big {
    use super::*;
// NUTYPE_VERIF_INPUT #[nutype(validate(less = 100), derive(Debug))] pub struct C16I32LessLitBig(i32);
#[doc(hidden)]
#[allow(
    non_snake_case,
    reason = "we keep original structure name which is probably CamelCase"
)]
mod __nutype_C16I32LessLitBig__ {
    use super::*;
    #[derive(Debug)]
    pub struct C16I32LessLitBig(i32);
    #[derive(Debug, Clone, PartialEq, Eq)]
    #[allow(clippy::enum_variant_names)]
    pub enum C16I32LessLitBigError {
        LessViolated,
    }
    #[verifier::external]
impl ::core::fmt::Display for C16I32LessLitBigError {
        fn fmt(&self, f: &mut ::core::fmt::Formatter<'_>) -> ::core::fmt::Result {
            match self {
                C16I32LessLitBigError::LessViolated => write!(
                    f,
                    "{} is too big. The value must be less than {:#?}.",
                    stringify!(C16I32LessLitBig),
                    100i32
                ),
            }
        }
    }
    #[verifier::external]
impl ::core::error::Error for C16I32LessLitBigError {
        fn source(&self) -> Option<&(dyn ::core::error::Error + 'static)> {
            None
        }
    }
    impl C16I32LessLitBig {
        pub fn try_new(raw_value: i32) -> (r: ::core::result::Result<Self, C16I32LessLitBigError>) 
            ensures
                r == Self::spec_try_new(raw_value),
                r is Err ==> Self::spec_validate(Self::spec_sanitize(raw_value)) == Err::<(), C16I32LessLitBigError>(r->Err_0),
        {
            let sanitized_value: i32 = Self::__sanitize__(raw_value);
            #[allow(clippy::question_mark)]
            if let Err(e) = Self::__validate__(&sanitized_value) {
                return Err(e);
            }
            Ok(C16I32LessLitBig(sanitized_value))
        }
        fn __sanitize__(mut value: i32) -> (r: i32) 
            ensures
                r == Self::spec_sanitize(value),
        {
            value
        }
        fn __validate__(val: &i32) -> (r: ::core::result::Result<(), C16I32LessLitBigError>) 
            ensures
                r == Self::spec_validate(*val),
                r is Err ==> r == Self::spec_validate(*val),
        {
            let val = *val;
            if val >= 100i32 {
                return Err(C16I32LessLitBigError::LessViolated);
            }
            Ok(())
        }
    }
    impl C16I32LessLitBig {
        #[inline]
        pub fn into_inner(self) -> (r: i32) 
            ensures
                r == self.spec_view(),
        {
            self.0
        }
    }
    #[cfg(test)]
    mod tests {
        use super::*;
    }

    // ======== inserted by the annotator: spec-mode items only ========
    impl C16I32LessLitBig {
        pub closed spec fn spec_view(self) -> i32 { self.0 }
        pub closed spec fn spec_sanitize(x: i32) -> i32 { x }
        pub closed spec fn spec_validate(x: i32) -> ::core::result::Result<(), C16I32LessLitBigError> {
            if !(x < (100)) { Err(C16I32LessLitBigError::LessViolated) } else { Ok(()) }
        }
        pub closed spec fn spec_post(raw: i32, r: ::core::result::Result<Self, C16I32LessLitBigError>) -> bool { r == Self::spec_try_new(raw) }
        pub closed spec fn spec_try_new(raw: i32) -> ::core::result::Result<Self, C16I32LessLitBigError> {
            match Self::spec_validate(Self::spec_sanitize(raw)) {
                Ok(_) => Ok(C16I32LessLitBig(Self::spec_sanitize(raw))),
                Err(e) => Err(e),
            }
        }
        #[verifier::type_invariant]
        closed spec fn spec_inv(self) -> bool { Self::spec_validate(self.0) is Ok }
    }
    impl C16I32LessLitBig {
        pub proof fn lemma_c16_LessViolated(x: i32)
            ensures (x < (100)) <==> (x < (100)),
        {
        }
    }
}
pub use __nutype_C16I32LessLitBig__::C16I32LessLitBig;
pub use __nutype_C16I32LessLitBig__::C16I32LessLitBigError;

}
pub mod d_c16_i32_less_or_equal_sym {
    use super::*;
// NUTYPE_VERIF_INPUT #[nutype(validate(less_or_equal = sym_hi_i32()), derive(Debug))] pub struct C16I32LessOrEqualSym(i32);
#[doc(hidden)]
#[allow(
    non_snake_case,
    reason = "we keep original structure name which is probably CamelCase"
)]
mod __nutype_C16I32LessOrEqualSym__ {
    use super::*;
    #[derive(Debug)]
    pub struct C16I32LessOrEqualSym(i32);
    #[derive(Debug, Clone, PartialEq, Eq)]
    #[allow(clippy::enum_variant_names)]
    pub enum C16I32LessOrEqualSymError {
        LessOrEqualViolated,
    }
    #[verifier::external]
impl ::core::fmt::Display for C16I32LessOrEqualSymError {
        fn fmt(&self, f: &mut ::core::fmt::Formatter<'_>) -> ::core::fmt::Result {
            match self {
                C16I32LessOrEqualSymError::LessOrEqualViolated => write!(
                    f,
                    "{} is too big. The value must be less or equal to {:#?}.",
                    stringify!(C16I32LessOrEqualSym),
                    sym_hi_i32()
                ),
            }
        }
    }
    #[verifier::external]
impl ::core::error::Error for C16I32LessOrEqualSymError {
        fn source(&self) -> Option<&(dyn ::core::error::Error + 'static)> {
            None
        }
    }
    impl C16I32LessOrEqualSym {
        pub fn try_new(raw_value: i32) -> (r: ::core::result::Result<Self, C16I32LessOrEqualSymError>) 
            ensures
                r == Self::spec_try_new(raw_value),
                r is Err ==> Self::spec_validate(Self::spec_sanitize(raw_value)) == Err::<(), C16I32LessOrEqualSymError>(r->Err_0),
        {
            let sanitized_value: i32 = Self::__sanitize__(raw_value);
            #[allow(clippy::question_mark)]
            if let Err(e) = Self::__validate__(&sanitized_value) {
                return Err(e);
            }
            Ok(C16I32LessOrEqualSym(sanitized_value))
        }
        fn __sanitize__(mut value: i32) -> (r: i32) 
            ensures
                r == Self::spec_sanitize(value),
        {
            value
        }
        fn __validate__(val: &i32) -> (r: ::core::result::Result<(), C16I32LessOrEqualSymError>) 
            ensures
                r == Self::spec_validate(*val),
                r is Err ==> r == Self::spec_validate(*val),
        {
            let val = *val;
            if val > sym_hi_i32() {
                return Err(C16I32LessOrEqualSymError::LessOrEqualViolated);
            }
            Ok(())
        }
    }
    impl C16I32LessOrEqualSym {
        #[inline]
        pub fn into_inner(self) -> (r: i32) 
            ensures
                r == self.spec_view(),
        {
            self.0
        }
    }
    #[cfg(test)]
    mod tests {
        use super::*;
    }

    // ======== inserted by the annotator: spec-mode items only ========
    impl C16I32LessOrEqualSym {
        pub closed spec fn spec_view(self) -> i32 { self.0 }
        pub closed spec fn spec_sanitize(x: i32) -> i32 { x }
        pub closed spec fn spec_validate(x: i32) -> ::core::result::Result<(), C16I32LessOrEqualSymError> {
            if !(x <= (SYM_HI_I32())) { Err(C16I32LessOrEqualSymError::LessOrEqualViolated) } else { Ok(()) }
        }
        pub closed spec fn spec_post(raw: i32, r: ::core::result::Result<Self, C16I32LessOrEqualSymError>) -> bool { r == Self::spec_try_new(raw) }
        pub closed spec fn spec_try_new(raw: i32) -> ::core::result::Result<Self, C16I32LessOrEqualSymError> {
            match Self::spec_validate(Self::spec_sanitize(raw)) {
                Ok(_) => Ok(C16I32LessOrEqualSym(Self::spec_sanitize(raw))),
                Err(e) => Err(e),
            }
        }
        #[verifier::type_invariant]
        closed spec fn spec_inv(self) -> bool { Self::spec_validate(self.0) is Ok }
    }
    impl C16I32LessOrEqualSym {
        pub proof fn lemma_c16_LessOrEqualViolated(x: i32)
            ensures (x <= (SYM_HI_I32())) <==> (x <= (SYM_HI_I32())),
        {
        }
    }
}
pub use __nutype_C16I32LessOrEqualSym__::C16I32LessOrEqualSym;
pub use __nutype_C16I32LessOrEqualSym__::C16I32LessOrEqualSymError;

}
pub mod d_c16_i32_less_or_equal_lit_p {
    use super::*;
// NUTYPE_VERIF_INPUT #[nutype(validate(less_or_equal = 7), derive(Debug))] pub struct C16I32LessOrEqualLitP(i32);
#[doc(hidden)]
#[allow(
    non_snake_case,
    reason = "we keep original structure name which is probably CamelCase"
)]
mod __nutype_C16I32LessOrEqualLitP__ {
    use super::*;
    #[derive(Debug)]
    pub struct C16I32LessOrEqualLitP(i32);
    #[derive(Debug, Clone, PartialEq, Eq)]
    #[allow(clippy::enum_variant_names)]
    pub enum C16I32LessOrEqualLitPError {
        LessOrEqualViolated,
    }
    #[verifier::external]
impl ::core::fmt::Display for C16I32LessOrEqualLitPError {
        fn fmt(&self, f: &mut ::core::fmt::Formatter<'_>) -> ::core::fmt::Result {
            match self {
                C16I32LessOrEqualLitPError::LessOrEqualViolated => write!(
                    f,
                    "{} is too big. The value must be less or equal to {:#?}.",
                    stringify!(C16I32LessOrEqualLitP),
                    7i32
                ),
            }
        }
    }
    #[verifier::external]
impl ::core::error::Error for C16I32LessOrEqualLitPError {
        fn source(&self) -> Option<&(dyn ::core::error::Error + 'static)> {
            None
        }
    }
    impl C16I32LessOrEqualLitP {
        pub fn try_new(raw_value: i32) -> (r: ::core::result::Result<Self, C16I32LessOrEqualLitPError>) 
            ensures
                r == Self::spec_try_new(raw_value),
                r is Err ==> Self::spec_validate(Self::spec_sanitize(raw_value)) == Err::<(), C16I32LessOrEqualLitPError>(r->Err_0),
        {
            let sanitized_value: i32 = Self::__sanitize__(raw_value);
            #[allow(clippy::question_mark)]
            if let Err(e) = Self::__validate__(&sanitized_value) {
                return Err(e);
            }
            Ok(C16I32LessOrEqualLitP(sanitized_value))
        }
        fn __sanitize__(mut value: i32) -> (r: i32) 
            ensures
                r == Self::spec_sanitize(value),
        {
            value
        }
        fn __validate__(val: &i32) -> (r: ::core::result::Result<(), C16I32LessOrEqualLitPError>) 
            ensures
                r == Self::spec_validate(*val),
                r is Err ==> r == Self::spec_validate(*val),
        {
            let val = *val;
            if val > 7i32 {
                return Err(C16I32LessOrEqualLitPError::LessOrEqualViolated);
            }
            Ok(())
        }
    }
    impl C16I32LessOrEqualLitP {
        #[inline]
        pub fn into_inner(self) -> (r: i32) 
            ensures
                r == self.spec_view(),
        {
            self.0
        }
    }
    #[cfg(test)]
    mod tests {
        use super::*;
    }

    // ======== inserted by the annotator: spec-mode items only ========
    impl C16I32LessOrEqualLitP {
        pub closed spec fn spec_view(self) -> i32 { self.0 }
        pub closed spec fn spec_sanitize(x: i32) -> i32 { x }
        pub closed spec fn spec_validate(x: i32) -> ::core::result::Result<(), C16I32LessOrEqualLitPError> {
            if !(x <= (7)) { Err(C16I32LessOrEqualLitPError::LessOrEqualViolated) } else { Ok(()) }
        }
        pub closed spec fn spec_post(raw: i32, r: ::core::result::Result<Self, C16I32LessOrEqualLitPError>) -> bool { r == Self::spec_try_new(raw) }
        pub closed spec fn spec_try_new(raw: i32) -> ::core::result::Result<Self, C16I32LessOrEqualLitPError> {
            match Self::spec_validate(Self::spec_sanitize(raw)) {
                Ok(_) => Ok(C16I32LessOrEqualLitP(Self::spec_sanitize(raw))),
                Err(e) => Err(e),
            }
        }
        #[verifier::type_invariant]
        closed spec fn spec_inv(self) -> bool { Self::spec_validate(self.0) is Ok }
    }
    impl C16I32LessOrEqualLitP {
        pub proof fn lemma_c16_LessOrEqualViolated(x: i32)
            ensures (x <= (7)) <==> (x <= (7)),
        {
        }
    }
}
pub use __nutype_C16I32LessOrEqualLitP__::C16I32LessOrEqualLitP;
pub use __nutype_C16I32LessOrEqualLitP__::C16I32LessOrEqualLitPError;

}
pub mod d_c16_i32_less_or_equal_lit_n {
    use super::*;
// NUTYPE_VERIF_INPUT #[nutype(validate(less_or_equal = -7), derive(Debug))] pub struct C16I32LessOrEqualLitN(i32);
#[doc(hidden)]
#[allow(
    non_snake_case,
    reason = "we keep original structure name which is probably CamelCase"
)]
mod __nutype_C16I32LessOrEqualLitN__ {
    use super::*;
    #[derive(Debug)]
    pub struct C16I32LessOrEqualLitN(i32);
    #[derive(Debug, Clone, PartialEq, Eq)]
    #[allow(clippy::enum_variant_names)]
    pub enum C16I32LessOrEqualLitNError {
        LessOrEqualViolated,
    }
    #[verifier::external]
impl ::core::fmt::Display for C16I32LessOrEqualLitNError {
        fn fmt(&self, f: &mut ::core::fmt::Formatter<'_>) -> ::core::fmt::Result {
            match self {
                C16I32LessOrEqualLitNError::LessOrEqualViolated => write!(
                    f,
                    "{} is too big. The value must be less or equal to {:#?}.",
                    stringify!(C16I32LessOrEqualLitN),
                    -7i32
                ),
            }
        }
    }
    #[verifier::external]
impl ::core::error::Error for C16I32LessOrEqualLitNError {
        fn source(&self) -> Option<&(dyn ::core::error::Error + 'static)> {
            None
        }
    }
    impl C16I32LessOrEqualLitN {
        pub fn try_new(raw_value: i32) -> (r: ::core::result::Result<Self, C16I32LessOrEqualLitNError>) 
            ensures
                r == Self::spec_try_new(raw_value),
                r is Err ==> Self::spec_validate(Self::spec_sanitize(raw_value)) == Err::<(), C16I32LessOrEqualLitNError>(r->Err_0),
        {
            let sanitized_value: i32 = Self::__sanitize__(raw_value);
            #[allow(clippy::question_mark)]
            if let Err(e) = Self::__validate__(&sanitized_value) {
                return Err(e);
            }
            Ok(C16I32LessOrEqualLitN(sanitized_value))
        }
        fn __sanitize__(mut value: i32) -> (r: i32) 
            ensures
                r == Self::spec_sanitize(value),
        {
            value
        }
        fn __validate__(val: &i32) -> (r: ::core::result::Result<(), C16I32LessOrEqualLitNError>) 
            ensures
                r == Self::spec_validate(*val),
                r is Err ==> r == Self::spec_validate(*val),
        {
            let val = *val;
            if val > -7i32 {
                return Err(C16I32LessOrEqualLitNError::LessOrEqualViolated);
            }
            Ok(())
        }
    }
    impl C16I32LessOrEqualLitN {
        #[inline]
        pub fn into_inner(self) -> (r: i32) 
            ensures
                r == self.spec_view(),
        {
            self.0
        }
    }
    #[cfg(test)]
    mod tests {
        use super::*;
    }

    // ======== inserted by the annotator: spec-mode items only ========
    impl C16I32LessOrEqualLitN {
        pub closed spec fn spec_view(self) -> i32 { self.0 }
        pub closed spec fn spec_sanitize(x: i32) -> i32 { x }
        pub closed spec fn spec_validate(x: i32) -> ::core::result::Result<(), C16I32LessOrEqualLitNError> {
            if !(x <= ((-7))) { Err(C16I32LessOrEqualLitNError::LessOrEqualViolated) } else { Ok(()) }
        }
        pub closed spec fn spec_post(raw: i32, r: ::core::result::Result<Self, C16I32LessOrEqualLitNError>) -> bool { r == Self::spec_try_new(raw) }
        pub closed spec fn spec_try_new(raw: i32) -> ::core::result::Result<Self, C16I32LessOrEqualLitNError> {
            match Self::spec_validate(Self::spec_sanitize(raw)) {
                Ok(_) => Ok(C16I32LessOrEqualLitN(Self::spec_sanitize(raw))),
                Err(e) => Err(e),
            }
        }
        #[verifier::type_invariant]
        closed spec fn spec_inv(self) -> bool { Self::spec_validate(self.0) is Ok }
    }
    impl C16I32LessOrEqualLitN {
        pub proof fn lemma_c16_LessOrEqualViolated(x: i32)
            ensures (x <= ((-7))) <==> (x <= ((-7))),
        {
        }
    }
}
pub use __nutype_C16I32LessOrEqualLitN__::C16I32LessOrEqualLitN;
pub use __nutype_C16I32LessOrEqualLitN__::C16I32LessOrEqualLitNError;

}
pub mod d_c16_i32_less_or_equal_lit_big {
    use super::*;
// NUTYPE_VERIF_INPUT #[nutype(validate(less_or_equal = 100), derive(Debug))] pub struct C16I32LessOrEqualLitBig(i32);
#[doc(hidden)]
#[allow(
    non_snake_case,
    reason = "we keep original structure name which is probably CamelCase"
)]
mod __nutype_C16I32LessOrEqualLitBig__ {
    use super::*;
    #[derive(Debug)]
    pub struct C16I32LessOrEqualLitBig(i32);
    #[derive(Debug, Clone, PartialEq, Eq)]
    #[allow(clippy::enum_variant_names)]
    pub enum C16I32LessOrEqualLitBigError {
        LessOrEqualViolated,
    }
    #[verifier::external]
impl ::core::fmt::Display for C16I32LessOrEqualLitBigError {
        fn fmt(&self, f: &mut ::core::fmt::Formatter<'_>) -> ::core::fmt::Result {
            match self {
                C16I32LessOrEqualLitBigError::LessOrEqualViolated => write!(
                    f,
                    "{} is too big. The value must be less or equal to {:#?}.",
                    stringify!(C16I32LessOrEqualLitBig),
                    100i32
                ),
            }
        }
    }
    #[verifier::external]
impl ::core::error::Error for C16I32LessOrEqualLitBigError {
        fn source(&self) -> Option<&(dyn ::core::error::Error + 'static)> {
            None
        }
    }
    impl C16I32LessOrEqualLitBig {
        pub fn try_new(
            raw_value: i32,
        ) -> (r: ::core::result::Result<Self, C16I32LessOrEqualLitBigError>) 
            ensures
                r == Self::spec_try_new(raw_value),
                r is Err ==> Self::spec_validate(Self::spec_sanitize(raw_value)) == Err::<(), C16I32LessOrEqualLitBigError>(r->Err_0),
        {
            let sanitized_value: i32 = Self::__sanitize__(raw_value);
            #[allow(clippy::question_mark)]
            if let Err(e) = Self::__validate__(&sanitized_value) {
                return Err(e);
            }
            Ok(C16I32LessOrEqualLitBig(sanitized_value))
        }
        fn __sanitize__(mut value: i32) -> (r: i32) 
            ensures
                r == Self::spec_sanitize(value),
        {
            value
        }
        fn __validate__(val: &i32) -> (r: ::core::result::Result<(), C16I32LessOrEqualLitBigError>) 
            ensures
                r == Self::spec_validate(*val),
                r is Err ==> r == Self::spec_validate(*val),
        {
            let val = *val;
            if val > 100i32 {
                return Err(C16I32LessOrEqualLitBigError::LessOrEqualViolated);
            }
            Ok(())
        }
    }
    impl C16I32LessOrEqualLitBig {
        #[inline]
        pub fn into_inner(self) -> (r: i32) 
            ensures
                r == self.spec_view(),
        {
            self.0
        }
    }
    #[cfg(test)]
    mod tests {
        use super::*;
    }

    // ======== inserted by the annotator: spec-mode items only ========
    impl C16I32LessOrEqualLitBig {
        pub closed spec fn spec_view(self) -> i32 { self.0 }
        pub closed spec fn spec_sanitize(x: i32) -> i32 { x }
        pub closed spec fn spec_validate(x: i32) -> ::core::result::Result<(), C16I32LessOrEqualLitBigError> {
            if !(x <= (100)) { Err(C16I32LessOrEqualLitBigError::LessOrEqualViolated) } else { Ok(()) }
        }
        pub closed spec fn spec_post(raw: i32, r: ::core::result::Result<Self, C16I32LessOrEqualLitBigError>) -> bool { r == Self::spec_try_new(raw) }
        pub closed spec fn spec_try_new(raw: i32) -> ::core::result::Result<Self, C16I32LessOrEqualLitBigError> {
            match Self::spec_validate(Self::spec_sanitize(raw)) {
                Ok(_) => Ok(C16I32LessOrEqualLitBig(Self::spec_sanitize(raw))),
                Err(e) => Err(e),
            }
        }
        #[verifier::type_invariant]
        closed spec fn spec_inv(self) -> bool { Self::spec_validate(self.0) is Ok }
    }
    impl C16I32LessOrEqualLitBig {
        pub proof fn lemma_c16_LessOrEqualViolated(x: i32)
            ensures (x <= (100)) <==> (x <= (100)),
        {
        }
    }
}
pub use __nutype_C16I32LessOrEqualLitBig__::C16I32LessOrEqualLitBig;
pub use __nutype_C16I32LessOrEqualLitBig__::C16I32LessOrEqualLitBigError;

}

// vacuity canary: this MUST fail; if it verifies the assumptions are inconsistent
proof fn __verif_canary() ensures false {}
} // verus!
fn main() {}
