// GENERATED on every run: real expansions of /repo's macro with contracts inserted in place.
#![allow(unused_imports, dead_code, unused_variables, unused_mut, non_snake_case, non_upper_case_globals, non_camel_case_types)]
use vstd::prelude::*;
use vstd::string::*;
use vstd::std_specs::iter::IteratorSpec;
verus! {
// ---- fixed prelude: ASSUMED contracts on the Rust standard library (trusted, listed in evidence) ----
// Every std function the generated code may call gets its own *uninterpreted* spec symbol, so a
// changed call (trim -> trim_start, to_lowercase -> to_ascii_lowercase, chars().count() -> len())
// fails a postcondition instead of turning into "unsupported".
pub uninterp spec fn spec_trim(s: Seq<char>) -> Seq<char>;
pub uninterp spec fn spec_trim_start(s: Seq<char>) -> Seq<char>;
pub uninterp spec fn spec_trim_end(s: Seq<char>) -> Seq<char>;
pub uninterp spec fn spec_lower(s: Seq<char>) -> Seq<char>;
pub uninterp spec fn spec_upper(s: Seq<char>) -> Seq<char>;
pub uninterp spec fn spec_ascii_lower(s: Seq<char>) -> Seq<char>;
pub uninterp spec fn spec_ascii_upper(s: Seq<char>) -> Seq<char>;

pub assume_specification[ str::trim ](s: &str) -> (r: &str)
    ensures r@ == spec_trim(s@);
pub assume_specification[ str::trim_start ](s: &str) -> (r: &str)
    ensures r@ == spec_trim_start(s@);
pub assume_specification[ str::trim_end ](s: &str) -> (r: &str)
    ensures r@ == spec_trim_end(s@);
pub assume_specification[ str::to_lowercase ](s: &str) -> (r: String)
    ensures r@ == spec_lower(s@);
pub assume_specification[ str::to_uppercase ](s: &str) -> (r: String)
    ensures r@ == spec_upper(s@);
pub assume_specification[ str::to_ascii_lowercase ](s: &str) -> (r: String)
    ensures r@ == spec_ascii_lower(s@);
pub assume_specification[ str::to_ascii_uppercase ](s: &str) -> (r: String)
    ensures r@ == spec_ascii_upper(s@);
pub uninterp spec fn spec_string_byte_len(s: Seq<char>) -> usize;
pub assume_specification[ String::len ](s: &String) -> (r: usize)
    ensures r == spec_string_byte_len(s@);
pub assume_specification<'a>[ <core::str::Chars<'a> as Iterator>::count ](c: core::str::Chars<'a>) -> (r: usize)
    ensures r == c.remaining().len();

global size_of usize == 8;

// opaque std error types that appear as payload of the generated `<X>ParseError` enums
#[verifier::external_type_specification]
#[verifier::external_body]
pub struct ExParseIntError(core::num::ParseIntError);
#[verifier::external_type_specification]
#[verifier::external_body]
pub struct ExParseFloatError(core::num::ParseFloatError);

// `impl Into<String>` arguments: the only facts assumed about the conversion.
pub broadcast axiom fn axiom_into_string_from_string(x: String, s: String)
    requires #[trigger] call_ensures(<String as Into<String>>::into, (x,), s)
    ensures s@ == x@;
pub broadcast axiom fn axiom_into_string_from_str(x: &str, s: String)
    requires #[trigger] call_ensures(<&str as Into<String>>::into, (x,), s)
    ensures s@ == x@;

// Algebraic facts about std's trim / case mapping used only by the C11 (canonical form) lemmas.
// A1-A3 idempotence; A4/A5 case mapping neither creates nor removes edge whitespace, i.e. trim and
// case mapping commute "up to" re-application.  Statements about std, not about nutype.
pub broadcast axiom fn axiom_trim_idem(s: Seq<char>)
    ensures #[trigger] spec_trim(spec_trim(s)) == spec_trim(s);
pub broadcast axiom fn axiom_lower_idem(s: Seq<char>)
    ensures #[trigger] spec_lower(spec_lower(s)) == spec_lower(s);
pub broadcast axiom fn axiom_upper_idem(s: Seq<char>)
    ensures #[trigger] spec_upper(spec_upper(s)) == spec_upper(s);
pub broadcast axiom fn axiom_trim_of_lower_of_trim(s: Seq<char>)
    ensures #[trigger] spec_trim(spec_lower(spec_trim(s))) == spec_lower(spec_trim(s));
pub broadcast axiom fn axiom_trim_of_upper_of_trim(s: Seq<char>)
    ensures #[trigger] spec_trim(spec_upper(spec_trim(s))) == spec_upper(spec_trim(s));
pub broadcast axiom fn axiom_lower_of_trim_of_lower(s: Seq<char>)
    ensures #[trigger] spec_lower(spec_trim(spec_lower(s))) == spec_trim(spec_lower(s));
pub broadcast axiom fn axiom_upper_of_trim_of_upper(s: Seq<char>)
    ensures #[trigger] spec_upper(spec_trim(spec_upper(s))) == spec_trim(spec_upper(s));
pub broadcast group group_c11_std_axioms {
    axiom_trim_idem, axiom_lower_idem, axiom_upper_idem,
    axiom_trim_of_lower_of_trim, axiom_trim_of_upper_of_trim,
    axiom_lower_of_trim_of_lower, axiom_upper_of_trim_of_upper,
}

// ---- auxiliary items of the catalogue (symbolic bounds, custom functions) ----
pub uninterp spec fn SYM_LO_I32() -> i32;
#[verifier::external_body]
pub fn sym_lo_i32() -> (r: i32) ensures r == SYM_LO_I32() { 3 }
pub uninterp spec fn SYM_HI_I32() -> i32;
#[verifier::external_body]
pub fn sym_hi_i32() -> (r: i32) ensures r == SYM_HI_I32() { 100 }
pub uninterp spec fn SYM_LO_U8() -> u8;
#[verifier::external_body]
pub fn sym_lo_u8() -> (r: u8) ensures r == SYM_LO_U8() { 3 }

pub mod d_c16_i32_ge_lt_embed {
    use super::*;
// NUTYPE_VERIF_INPUT #[nutype(validate(greater_or_equal = sym_lo_i32(), less = sym_hi_i32()), derive(Debug))] pub struct C16I32GeLtEmbed(i32);
#[doc(hidden)]
#[allow(
    non_snake_case,
    reason = "we keep original structure name which is probably CamelCase"
)]
mod __nutype_C16I32GeLtEmbed__ {
    use super::*;
    #[derive(Debug)]
    pub struct C16I32GeLtEmbed(i32);
    #[derive(Debug, Clone, PartialEq, Eq)]
    #[allow(clippy::enum_variant_names)]
    pub enum C16I32GeLtEmbedError {
        GreaterOrEqualViolated,
        LessViolated,
    }
    #[verifier::external]
impl ::core::fmt::Display for C16I32GeLtEmbedError {
        fn fmt(&self, f: &mut ::core::fmt::Formatter<'_>) -> ::core::fmt::Result {
            match self {
                C16I32GeLtEmbedError::GreaterOrEqualViolated => write!(
                    f,
                    "{} is too small. The value must be greater or equal to {:#?}.",
                    stringify!(C16I32GeLtEmbed),
                    sym_lo_i32()
                ),
                C16I32GeLtEmbedError::LessViolated => write!(
                    f,
                    "{} is too big. The value must be less than {:#?}.",
                    stringify!(C16I32GeLtEmbed),
                    sym_hi_i32()
                ),
            }
        }
    }
    #[verifier::external]
impl ::core::error::Error for C16I32GeLtEmbedError {
        fn source(&self) -> Option<&(dyn ::core::error::Error + 'static)> {
            None
        }
    }
    impl C16I32GeLtEmbed {
        pub fn try_new(raw_value: i32) -> (r: ::core::result::Result<Self, C16I32GeLtEmbedError>) 
            ensures
                r == Self::spec_try_new(raw_value),
                r is Err ==> Self::spec_validate(Self::spec_sanitize(raw_value)) == Err::<(), C16I32GeLtEmbedError>(r->Err_0),
        {
            let sanitized_value: i32 = Self::__sanitize__(raw_value);
            #[allow(clippy::question_mark)]
            if let Err(e) = Self::__validate__(&sanitized_value) {
                return Err(e);
            }
            Ok(C16I32GeLtEmbed(sanitized_value))
        }
        fn __sanitize__(mut value: i32) -> (r: i32) 
            ensures
                r == Self::spec_sanitize(value),
        {
            value
        }
        fn __validate__(val: &i32) -> (r: ::core::result::Result<(), C16I32GeLtEmbedError>) 
            ensures
                r == Self::spec_validate(*val),
                r is Err ==> r == Self::spec_validate(*val),
        {
            let val = *val;
            if val < sym_lo_i32() {
                return Err(C16I32GeLtEmbedError::GreaterOrEqualViolated);
            }
            if val >= sym_hi_i32() {
                return Err(C16I32GeLtEmbedError::LessViolated);
            }
            Ok(())
        }
    }
    impl C16I32GeLtEmbed {
        #[inline]
        pub fn into_inner(self) -> (r: i32) 
            ensures
                r == self.spec_view(),
        {
            self.0
        }
    }
    #[cfg(test)]
    mod tests {
        use super::*;
        #[test]
        fn should_have_consistent_lower_and_upper_boundaries() {
            assert!
            (sym_hi_i32() >= sym_lo_i32(),
            "\nInconsistent lower and upper boundaries for type `C16I32GeLtEmbed`\nThe upper boundary `sym_hi_i32()` must be greater than or equal to the lower boundary `sym_lo_i32()`\nNote: the test is generated automatically by #[nutype] macro.\n");
        }
    }

    // ======== inserted by the annotator: spec-mode items only ========
    impl C16I32GeLtEmbed {
        pub closed spec fn spec_view(self) -> i32 { self.0 }
        pub closed spec fn spec_sanitize(x: i32) -> i32 { x }
        pub closed spec fn spec_validate(x: i32) -> ::core::result::Result<(), C16I32GeLtEmbedError> {
            if !(x >= (SYM_LO_I32())) { Err(C16I32GeLtEmbedError::GreaterOrEqualViolated) } else if !(x < (SYM_HI_I32())) { Err(C16I32GeLtEmbedError::LessViolated) } else { Ok(()) }
        }
        pub closed spec fn spec_post(raw: i32, r: ::core::result::Result<Self, C16I32GeLtEmbedError>) -> bool { r == Self::spec_try_new(raw) }
        pub closed spec fn spec_try_new(raw: i32) -> ::core::result::Result<Self, C16I32GeLtEmbedError> {
            match Self::spec_validate(Self::spec_sanitize(raw)) {
                Ok(_) => Ok(C16I32GeLtEmbed(Self::spec_sanitize(raw))),
                Err(e) => Err(e),
            }
        }
        #[verifier::type_invariant]
        closed spec fn spec_inv(self) -> bool { Self::spec_validate(self.0) is Ok }
    }
    impl C16I32GeLtEmbed {
        pub proof fn lemma_c16_GreaterOrEqualViolated(x: i32)
            ensures (x >= (SYM_LO_I32())) <==> (x >= (SYM_LO_I32())),
        {
        }
    }
    impl C16I32GeLtEmbed {
        pub proof fn lemma_c16_LessViolated(x: i32)
            ensures (x < (SYM_HI_I32())) <==> (x < (SYM_HI_I32())),
        {
        }
    }
}
pub use __nutype_C16I32GeLtEmbed__::C16I32GeLtEmbed;
pub use __nutype_C16I32GeLtEmbed__::C16I32GeLtEmbedError;

}
pub mod d_c16_i32_le_gt_embed {
    use super::*;
// NUTYPE_VERIF_INPUT #[nutype(validate(less_or_equal = sym_hi_i32(), greater = sym_lo_i32()), derive(Debug))] pub struct C16I32LeGtEmbed(i32);
#[doc(hidden)]
#[allow(
    non_snake_case,
    reason = "we keep original structure name which is probably CamelCase"
)]
mod __nutype_C16I32LeGtEmbed__ {
    use super::*;
    #[derive(Debug)]
    pub struct C16I32LeGtEmbed(i32);
    #[derive(Debug, Clone, PartialEq, Eq)]
    #[allow(clippy::enum_variant_names)]
    pub enum C16I32LeGtEmbedError {
        LessOrEqualViolated,
        GreaterViolated,
    }
    #[verifier::external]
impl ::core::fmt::Display for C16I32LeGtEmbedError {
        fn fmt(&self, f: &mut ::core::fmt::Formatter<'_>) -> ::core::fmt::Result {
            match self {
                C16I32LeGtEmbedError::LessOrEqualViolated => write!(
                    f,
                    "{} is too big. The value must be less or equal to {:#?}.",
                    stringify!(C16I32LeGtEmbed),
                    sym_hi_i32()
                ),
                C16I32LeGtEmbedError::GreaterViolated => write!(
                    f,
                    "{} is too small. The value must be greater than {:#?}.",
                    stringify!(C16I32LeGtEmbed),
                    sym_lo_i32()
                ),
            }
        }
    }
    #[verifier::external]
impl ::core::error::Error for C16I32LeGtEmbedError {
        fn source(&self) -> Option<&(dyn ::core::error::Error + 'static)> {
            None
        }
    }
    impl C16I32LeGtEmbed {
        pub fn try_new(raw_value: i32) -> (r: ::core::result::Result<Self, C16I32LeGtEmbedError>) 
            ensures
                r == Self::spec_try_new(raw_value),
                r is Err ==> Self::spec_validate(Self::spec_sanitize(raw_value)) == Err::<(), C16I32LeGtEmbedError>(r->Err_0),
        {
            let sanitized_value: i32 = Self::__sanitize__(raw_value);
            #[allow(clippy::question_mark)]
            if let Err(e) = Self::__validate__(&sanitized_value) {
                return Err(e);
            }
            Ok(C16I32LeGtEmbed(sanitized_value))
        }
        fn __sanitize__(mut value: i32) -> (r: i32) 
            ensures
                r == Self::spec_sanitize(value),
        {
            value
        }
        fn __validate__(val: &i32) -> (r: ::core::result::Result<(), C16I32LeGtEmbedError>) 
            ensures
                r == Self::spec_validate(*val),
                r is Err ==> r == Self::spec_validate(*val),
        {
            let val = *val;
            if val > sym_hi_i32() {
                return Err(C16I32LeGtEmbedError::LessOrEqualViolated);
            }
            if val <= sym_lo_i32() {
                return Err(C16I32LeGtEmbedError::GreaterViolated);
            }
            Ok(())
        }
    }
    impl C16I32LeGtEmbed {
        #[inline]
        pub fn into_inner(self) -> (r: i32) 
            ensures
                r == self.spec_view(),
        {
            self.0
        }
    }
    #[cfg(test)]
    mod tests {
        use super::*;
        #[test]
        fn should_have_consistent_lower_and_upper_boundaries() {
            assert!
            (sym_hi_i32() >= sym_lo_i32(),
            "\nInconsistent lower and upper boundaries for type `C16I32LeGtEmbed`\nThe upper boundary `sym_hi_i32()` must be greater than or equal to the lower boundary `sym_lo_i32()`\nNote: the test is generated automatically by #[nutype] macro.\n");
        }
    }

    // ======== inserted by the annotator: spec-mode items only ========
    impl C16I32LeGtEmbed {
        pub closed spec fn spec_view(self) -> i32 { self.0 }
        pub closed spec fn spec_sanitize(x: i32) -> i32 { x }
        pub closed spec fn spec_validate(x: i32) -> ::core::result::Result<(), C16I32LeGtEmbedError> {
            if !(x <= (SYM_HI_I32())) { Err(C16I32LeGtEmbedError::LessOrEqualViolated) } else if !(x > (SYM_LO_I32())) { Err(C16I32LeGtEmbedError::GreaterViolated) } else { Ok(()) }
        }
        pub closed spec fn spec_post(raw: i32, r: ::core::result::Result<Self, C16I32LeGtEmbedError>) -> bool { r == Self::spec_try_new(raw) }
        pub closed spec fn spec_try_new(raw: i32) -> ::core::result::Result<Self, C16I32LeGtEmbedError> {
            match Self::spec_validate(Self::spec_sanitize(raw)) {
                Ok(_) => Ok(C16I32LeGtEmbed(Self::spec_sanitize(raw))),
                Err(e) => Err(e),
            }
        }
        #[verifier::type_invariant]
        closed spec fn spec_inv(self) -> bool { Self::spec_validate(self.0) is Ok }
    }
    impl C16I32LeGtEmbed {
        pub proof fn lemma_c16_LessOrEqualViolated(x: i32)
            ensures (x <= (SYM_HI_I32())) <==> (x <= (SYM_HI_I32())),
        {
        }
    }
    impl C16I32LeGtEmbed {
        pub proof fn lemma_c16_GreaterViolated(x: i32)
            ensures (x > (SYM_LO_I32())) <==> (x > (SYM_LO_I32())),
        {
        }
    }
}
pub use __nutype_C16I32LeGtEmbed__::C16I32LeGtEmbed;
pub use __nutype_C16I32LeGtEmbed__::C16I32LeGtEmbedError;

}
pub mod d_c16_u8_greater_sym {
    use super::*;
// NUTYPE_VERIF_INPUT #[nutype(validate(greater = sym_lo_u8()), derive(Debug))] pub struct C16U8GreaterSym(u8);
#[doc(hidden)]
#[allow(
    non_snake_case,
    reason = "we keep original structure name which is probably CamelCase"
)]
mod __nutype_C16U8GreaterSym__ {
    use super::*;
    #[derive(Debug)]
    pub struct C16U8GreaterSym(u8);
    #[derive(Debug, Clone, PartialEq, Eq)]
    #[allow(clippy::enum_variant_names)]
    pub enum C16U8GreaterSymError {
        GreaterViolated,
    }
    #[verifier::external]
impl ::core::fmt::Display for C16U8GreaterSymError {
        fn fmt(&self, f: &mut ::core::fmt::Formatter<'_>) -> ::core::fmt::Result {
            match self {
                C16U8GreaterSymError::GreaterViolated => write!(
                    f,
                    "{} is too small. The value must be greater than {:#?}.",
                    stringify!(C16U8GreaterSym),
                    sym_lo_u8()
                ),
            }
        }
    }
    #[verifier::external]
impl ::core::error::Error for C16U8GreaterSymError {
        fn source(&self) -> Option<&(dyn ::core::error::Error + 'static)> {
            None
        }
    }
    impl C16U8GreaterSym {
        pub fn try_new(raw_value: u8) -> (r: ::core::result::Result<Self, C16U8GreaterSymError>) 
            ensures
                r == Self::spec_try_new(raw_value),
                r is Err ==> Self::spec_validate(Self::spec_sanitize(raw_value)) == Err::<(), C16U8GreaterSymError>(r->Err_0),
        {
            let sanitized_value: u8 = Self::__sanitize__(raw_value);
            #[allow(clippy::question_mark)]
            if let Err(e) = Self::__validate__(&sanitized_value) {
                return Err(e);
            }
            Ok(C16U8GreaterSym(sanitized_value))
        }
        fn __sanitize__(mut value: u8) -> (r: u8) 
            ensures
                r == Self::spec_sanitize(value),
        {
            value
        }
        fn __validate__(val: &u8) -> (r: ::core::result::Result<(), C16U8GreaterSymError>) 
            ensures
                r == Self::spec_validate(*val),
                r is Err ==> r == Self::spec_validate(*val),
        {
            let val = *val;
            if val <= sym_lo_u8() {
                return Err(C16U8GreaterSymError::GreaterViolated);
            }
            Ok(())
        }
    }
    impl C16U8GreaterSym {
        #[inline]
        pub fn into_inner(self) -> (r: u8) 
            ensures
                r == self.spec_view(),
        {
            self.0
        }
    }
    #[cfg(test)]
    mod tests {
        use super::*;
    }

    // ======== inserted by the annotator: spec-mode items only ========
    impl C16U8GreaterSym {
        pub closed spec fn spec_view(self) -> u8 { self.0 }
        pub closed spec fn spec_sanitize(x: u8) -> u8 { x }
        pub closed spec fn spec_validate(x: u8) -> ::core::result::Result<(), C16U8GreaterSymError> {
            if !(x > (SYM_LO_U8())) { Err(C16U8GreaterSymError::GreaterViolated) } else { Ok(()) }
        }
        pub closed spec fn spec_post(raw: u8, r: ::core::result::Result<Self, C16U8GreaterSymError>) -> bool { r == Self::spec_try_new(raw) }
        pub closed spec fn spec_try_new(raw: u8) -> ::core::result::Result<Self, C16U8GreaterSymError> {
            match Self::spec_validate(Self::spec_sanitize(raw)) {
                Ok(_) => Ok(C16U8GreaterSym(Self::spec_sanitize(raw))),
                Err(e) => Err(e),
            }
        }
        #[verifier::type_invariant]
        closed spec fn spec_inv(self) -> bool { Self::spec_validate(self.0) is Ok }
    }
    impl C16U8GreaterSym {
        pub proof fn lemma_c16_GreaterViolated(x: u8)
            ensures (x > (SYM_LO_U8())) <==> (x > (SYM_LO_U8())),
        {
        }
    }
}
pub use __nutype_C16U8GreaterSym__::C16U8GreaterSym;
pub use __nutype_C16U8GreaterSym__::C16U8GreaterSymError;

}
pub mod d_c16_u8_greater_lit_p {
    use super::*;
// NUTYPE_VERIF_INPUT #[nutype(validate(greater = 7), derive(Debug))] pub struct C16U8GreaterLitP(u8);
#[doc(hidden)]
#[allow(
    non_snake_case,
    reason = "we keep original structure name which is probably CamelCase"
)]
mod __nutype_C16U8GreaterLitP__ {
    use super::*;
    #[derive(Debug)]
    pub struct C16U8GreaterLitP(u8);
    #[derive(Debug, Clone, PartialEq, Eq)]
    #[allow(clippy::enum_variant_names)]
    pub enum C16U8GreaterLitPError {
        GreaterViolated,
    }
    #[verifier::external]
impl ::core::fmt::Display for C16U8GreaterLitPError {
        fn fmt(&self, f: &mut ::core::fmt::Formatter<'_>) -> ::core::fmt::Result {
            match self {
                C16U8GreaterLitPError::GreaterViolated => write!(
                    f,
                    "{} is too small. The value must be greater than {:#?}.",
                    stringify!(C16U8GreaterLitP),
                    7u8
                ),
            }
        }
    }
    #[verifier::external]
impl ::core::error::Error for C16U8GreaterLitPError {
        fn source(&self) -> Option<&(dyn ::core::error::Error + 'static)> {
            None
        }
    }
    impl C16U8GreaterLitP {
        pub fn try_new(raw_value: u8) -> (r: ::core::result::Result<Self, C16U8GreaterLitPError>) 
            ensures
                r == Self::spec_try_new(raw_value),
                r is Err ==> Self::spec_validate(Self::spec_sanitize(raw_value)) == Err::<(), C16U8GreaterLitPError>(r->Err_0),
        {
            let sanitized_value: u8 = Self::__sanitize__(raw_value);
            #[allow(clippy::question_mark)]
            if let Err(e) = Self::__validate__(&sanitized_value) {
                return Err(e);
            }
            Ok(C16U8GreaterLitP(sanitized_value))
        }
        fn __sanitize__(mut value: u8) -> (r: u8) 
            ensures
                r == Self::spec_sanitize(value),
        {
            value
        }
        fn __validate__(val: &u8) -> (r: ::core::result::Result<(), C16U8GreaterLitPError>) 
            ensures
                r == Self::spec_validate(*val),
                r is Err ==> r == Self::spec_validate(*val),
        {
            let val = *val;
            if val <= 7u8 {
                return Err(C16U8GreaterLitPError::GreaterViolated);
            }
            Ok(())
        }
    }
    impl C16U8GreaterLitP {
        #[inline]
        pub fn into_inner(self) -> (r: u8) 
            ensures
                r == self.spec_view(),
        {
            self.0
        }
    }
    #[cfg(test)]
    mod tests {
        use super::*;
    }

    // ======== inserted by the annotator: spec-mode items only ========
    impl C16U8GreaterLitP {
        pub closed spec fn spec_view(self) -> u8 { self.0 }
        pub closed spec fn spec_sanitize(x: u8) -> u8 { x }
        pub closed spec fn spec_validate(x: u8) -> ::core::result::Result<(), C16U8GreaterLitPError> {
            if !(x > (7)) { Err(C16U8GreaterLitPError::GreaterViolated) } else { Ok(()) }
        }
        pub closed spec fn spec_post(raw: u8, r: ::core::result::Result<Self, C16U8GreaterLitPError>) -> bool { r == Self::spec_try_new(raw) }
        pub closed spec fn spec_try_new(raw: u8) -> ::core::result::Result<Self, C16U8GreaterLitPError> {
            match Self::spec_validate(Self::spec_sanitize(raw)) {
                Ok(_) => Ok(C16U8GreaterLitP(Self::spec_sanitize(raw))),
                Err(e) => Err(e),
            }
        }
        #[verifier::type_invariant]
        closed spec fn spec_inv(self) -> bool { Self::spec_validate(self.0) is Ok }
    }
    impl C16U8GreaterLitP {
        pub proof fn lemma_c16_GreaterViolated(x: u8)
            ensures (x > (7)) <==> (x > (7)),
        {
        }
    }
}
pub use __nutype_C16U8GreaterLitP__::C16U8GreaterLitP;
pub use __nutype_C16U8GreaterLitP__::C16U8GreaterLitPError;

}
pub mod d_c16_u8_greater_lit_big {
    use super::*;
// NUTYPE_VERIF_INPUT #[nutype(validate(greater = 100), derive(Debug))] pub struct C16U8GreaterLitBig(u8);
#[doc(hidden)]
#[allow(
    non_snake_case,
    reason = "we keep original structure name which is probably CamelCase"
)]
mod __nutype_C16U8GreaterLitBig__ {
    use super::*;
    #[derive(Debug)]
    pub struct C16U8GreaterLitBig(u8);
    #[derive(Debug, Clone, PartialEq, Eq)]
    #[allow(clippy::enum_variant_names)]
    pub enum C16U8GreaterLitBigError {
        GreaterViolated,
    }
    #[verifier::external]
impl ::core::fmt::Display for C16U8GreaterLitBigError {
        fn fmt(&self, f: &mut ::core::fmt::Formatter<'_>) -> ::core::fmt::Result {
            match self {
                C16U8GreaterLitBigError::GreaterViolated => write!(
                    f,
                    "{} is too small. The value must be greater than {:#?}.",
                    stringify!(C16U8GreaterLitBig),
                    100u8
                ),
            }
        }
    }
    #[verifier::external]
impl ::core::error::Error for C16U8GreaterLitBigError {
        fn source(&self) -> Option<&(dyn ::core::error::Error + 'static)> {
            None
        }
    }
    impl C16U8GreaterLitBig {
        pub fn try_new(raw_value: u8) -> (r: ::core::result::Result<Self, C16U8GreaterLitBigError>) 
            ensures
                r == Self::spec_try_new(raw_value),
                r is Err ==> Self::spec_validate(Self::spec_sanitize(raw_value)) == Err::<(), C16U8GreaterLitBigError>(r->Err_0),
        {
            let sanitized_value: u8 = Self::__sanitize__(raw_value);
            #[allow(clippy::question_mark)]
            if let Err(e) = Self::__validate__(&sanitized_value) {
                return Err(e);
            }
            Ok(C16U8GreaterLitBig(sanitized_value))
        }
        fn __sanitize__(mut value: u8) -> (r: u8) 
            ensures
                r == Self::spec_sanitize(value),
        {
            value
        }
        fn __validate__(val: &u8) -> (r: ::core::result::Result<(), C16U8GreaterLitBigError>) 
            ensures
                r == Self::spec_validate(*val),
                r is Err ==> r == Self::spec_validate(*val),
        {
            let val = *val;
            if val <= 100u8 {
                return Err(C16U8GreaterLitBigError::GreaterViolated);
            }
            Ok(())
        }
    }
    impl C16U8GreaterLitBig {
        #[inline]
        pub fn into_inner(self) -> (r: u8) 
            ensures
                r == self.spec_view(),
        {
            self.0
        }
    }
    #[cfg(test)]
    mod tests {
        use super::*;
    }

    // ======== inserted by the annotator: spec-mode items only ========
    impl C16U8GreaterLitBig {
        pub closed spec fn spec_view(self) -> u8 { self.0 }
        pub closed spec fn spec_sanitize(x: u8) -> u8 { x }
        pub closed spec fn spec_validate(x: u8) -> ::core::result::Result<(), C16U8GreaterLitBigError> {
            if !(x > (100)) { Err(C16U8GreaterLitBigError::GreaterViolated) } else { Ok(()) }
        }
        pub closed spec fn spec_post(raw: u8, r: ::core::result::Result<Self, C16U8GreaterLitBigError>) -> bool { r == Self::spec_try_new(raw) }
        pub closed spec fn spec_try_new(raw: u8) -> ::core::result::Result<Self, C16U8GreaterLitBigError> {
            match Self::spec_validate(Self::spec_sanitize(raw)) {
                Ok(_) => Ok(C16U8GreaterLitBig(Self::spec_sanitize(raw))),
                Err(e) => Err(e),
            }
        }
        #[verifier::type_invariant]
        closed spec fn spec_inv(self) -> bool { Self::spec_validate(self.0) is Ok }
    }
    impl C16U8GreaterLitBig {
        pub proof fn lemma_c16_GreaterViolated(x: u8)
            ensures (x > (100)) <==> (x > (100)),
        {
        }
    }
}
pub use __nutype_C16U8GreaterLitBig__::C16U8GreaterLitBig;
pub use __nutype_C16U8GreaterLitBig__::C16U8GreaterLitBigError;

}
pub mod d_c16_u8_greater_or_equal_sym {
    use super::*;
// NUTYPE_VERIF_INPUT #[nutype(validate(greater_or_equal = sym_lo_u8()), derive(Debug))] pub struct C16U8GreaterOrEqualSym(u8);
#[doc(hidden)]
#[allow(
    non_snake_case,
    reason = "we keep original structure name which is probably CamelCase"
)]
mod __nutype_C16U8GreaterOrEqualSym__ {
    use super::*;
    #[derive(Debug)]
    pub struct C16U8GreaterOrEqualSym(u8);
    #[derive(Debug, Clone, PartialEq, Eq)]
    #[allow(clippy::enum_variant_names)]
    pub enum C16U8GreaterOrEqualSymError {
        GreaterOrEqualViolated,
    }
    #[verifier::external]
impl ::core::fmt::Display for C16U8GreaterOrEqualSymError {
        fn fmt(&self, f: &mut ::core::fmt::Formatter<'_>) -> ::core::fmt::Result {
            match self {
                C16U8GreaterOrEqualSymError::GreaterOrEqualViolated => write!(
                    f,
                    "{} is too small. The value must be greater or equal to {:#?}.",
                    stringify!(C16U8GreaterOrEqualSym),
                    sym_lo_u8()
                ),
            }
        }
    }
    #[verifier::external]
impl ::core::error::Error for C16U8GreaterOrEqualSymError {
        fn source(&self) -> Option<&(dyn ::core::error::Error + 'static)> {
            None
        }
    }
    impl C16U8GreaterOrEqualSym {
        pub fn try_new(raw_value: u8) -> (r: ::core::result::Result<Self, C16U8GreaterOrEqualSymError>) 
            ensures
                r == Self::spec_try_new(raw_value),
                r is Err ==> Self::spec_validate(Self::spec_sanitize(raw_value)) == Err::<(), C16U8GreaterOrEqualSymError>(r->Err_0),
        {
            let sanitized_value: u8 = Self::__sanitize__(raw_value);
            #[allow(clippy::question_mark)]
            if let Err(e) = Self::__validate__(&sanitized_value) {
                return Err(e);
            }
            Ok(C16U8GreaterOrEqualSym(sanitized_value))
        }
        fn __sanitize__(mut value: u8) -> (r: u8) 
            ensures
                r == Self::spec_sanitize(value),
        {
            value
        }
        fn __validate__(val: &u8) -> (r: ::core::result::Result<(), C16U8GreaterOrEqualSymError>) 
            ensures
                r == Self::spec_validate(*val),
                r is Err ==> r == Self::spec_validate(*val),
        {
            let val = *val;
            if val < sym_lo_u8() {
                return Err(C16U8GreaterOrEqualSymError::GreaterOrEqualViolated);
            }
            Ok(())
        }
    }
    impl C16U8GreaterOrEqualSym {
        #[inline]
        pub fn into_inner(self) -> (r: u8) 
            ensures
                r == self.spec_view(),
        {
            self.0
        }
    }
    #[cfg(test)]
    mod tests {
        use super::*;
    }

    // ======== inserted by the annotator: spec-mode items only ========
    impl C16U8GreaterOrEqualSym {
        pub closed spec fn spec_view(self) -> u8 { self.0 }
        pub closed spec fn spec_sanitize(x: u8) -> u8 { x }
        pub closed spec fn spec_validate(x: u8) -> ::core::result::Result<(), C16U8GreaterOrEqualSymError> {
            if !(x >= (SYM_LO_U8())) { Err(C16U8GreaterOrEqualSymError::GreaterOrEqualViolated) } else { Ok(()) }
        }
        pub closed spec fn spec_post(raw: u8, r: ::core::result::Result<Self, C16U8GreaterOrEqualSymError>) -> bool { r == Self::spec_try_new(raw) }
        pub closed spec fn spec_try_new(raw: u8) -> ::core::result::Result<Self, C16U8GreaterOrEqualSymError> {
            match Self::spec_validate(Self::spec_sanitize(raw)) {
                Ok(_) => Ok(C16U8GreaterOrEqualSym(Self::spec_sanitize(raw))),
                Err(e) => Err(e),
            }
        }
        #[verifier::type_invariant]
        closed spec fn spec_inv(self) -> bool { Self::spec_validate(self.0) is Ok }
    }
    impl C16U8GreaterOrEqualSym {
        pub proof fn lemma_c16_GreaterOrEqualViolated(x: u8)
            ensures (x >= (SYM_LO_U8())) <==> (x >= (SYM_LO_U8())),
        {
        }
    }
}
pub use __nutype_C16U8GreaterOrEqualSym__::C16U8GreaterOrEqualSym;
pub use __nutype_C16U8GreaterOrEqualSym__::C16U8GreaterOrEqualSymError;

}
pub mod d_c16_u8_greater_or_equal_lit_p {
    use super::*;
// NUTYPE_VERIF_INPUT #[nutype(validate(greater_or_equal = 7), derive(Debug))] pub struct C16U8GreaterOrEqualLitP(u8);
#[doc(hidden)]
#[allow(
    non_snake_case,
    reason = "we keep original structure name which is probably CamelCase"
)]
mod __nutype_C16U8GreaterOrEqualLitP__ {
    use super::*;
    #[derive(Debug)]
    pub struct C16U8GreaterOrEqualLitP(u8);
    #[derive(Debug, Clone, PartialEq, Eq)]
    #[allow(clippy::enum_variant_names)]
    pub enum C16U8GreaterOrEqualLitPError {
        GreaterOrEqualViolated,
    }
    #[verifier::external]
impl ::core::fmt::Display for C16U8GreaterOrEqualLitPError {
        fn fmt(&self, f: &mut ::core::fmt::Formatter<'_>) -> ::core::fmt::Result {
            match self {
                C16U8GreaterOrEqualLitPError::GreaterOrEqualViolated => write!(
                    f,
                    "{} is too small. The value must be greater or equal to {:#?}.",
                    stringify!(C16U8GreaterOrEqualLitP),
                    7u8
                ),
            }
        }
    }
    #[verifier::external]
impl ::core::error::Error for C16U8GreaterOrEqualLitPError {
        fn source(&self) -> Option<&(dyn ::core::error::Error + 'static)> {
            None
        }
    }
    impl C16U8GreaterOrEqualLitP {
        pub fn try_new(
            raw_value: u8,
        ) -> (r: ::core::result::Result<Self, C16U8GreaterOrEqualLitPError>) 
            ensures
                r == Self::spec_try_new(raw_value),
                r is Err ==> Self::spec_validate(Self::spec_sanitize(raw_value)) == Err::<(), C16U8GreaterOrEqualLitPError>(r->Err_0),
        {
            let sanitized_value: u8 = Self::__sanitize__(raw_value);
            #[allow(clippy::question_mark)]
            if let Err(e) = Self::__validate__(&sanitized_value) {
                return Err(e);
            }
            Ok(C16U8GreaterOrEqualLitP(sanitized_value))
        }
        fn __sanitize__(mut value: u8) -> (r: u8) 
            ensures
                r == Self::spec_sanitize(value),
        {
            value
        }
        fn __validate__(val: &u8) -> (r: ::core::result::Result<(), C16U8GreaterOrEqualLitPError>) 
            ensures
                r == Self::spec_validate(*val),
                r is Err ==> r == Self::spec_validate(*val),
        {
            let val = *val;
            if val < 7u8 {
                return Err(C16U8GreaterOrEqualLitPError::GreaterOrEqualViolated);
            }
            Ok(())
        }
    }
    impl C16U8GreaterOrEqualLitP {
        #[inline]
        pub fn into_inner(self) -> (r: u8) 
            ensures
                r == self.spec_view(),
        {
            self.0
        }
    }
    #[cfg(test)]
    mod tests {
        use super::*;
    }

    // ======== inserted by the annotator: spec-mode items only ========
    impl C16U8GreaterOrEqualLitP {
        pub closed spec fn spec_view(self) -> u8 { self.0 }
        pub closed spec fn spec_sanitize(x: u8) -> u8 { x }
        pub closed spec fn spec_validate(x: u8) -> ::core::result::Result<(), C16U8GreaterOrEqualLitPError> {
            if !(x >= (7)) { Err(C16U8GreaterOrEqualLitPError::GreaterOrEqualViolated) } else { Ok(()) }
        }
        pub closed spec fn spec_post(raw: u8, r: ::core::result::Result<Self, C16U8GreaterOrEqualLitPError>) -> bool { r == Self::spec_try_new(raw) }
        pub closed spec fn spec_try_new(raw: u8) -> ::core::result::Result<Self, C16U8GreaterOrEqualLitPError> {
            match Self::spec_validate(Self::spec_sanitize(raw)) {
                Ok(_) => Ok(C16U8GreaterOrEqualLitP(Self::spec_sanitize(raw))),
                Err(e) => Err(e),
            }
        }
        #[verifier::type_invariant]
        closed spec fn spec_inv(self) -> bool { Self::spec_validate(self.0) is Ok }
    }
    impl C16U8GreaterOrEqualLitP {
        pub proof fn lemma_c16_GreaterOrEqualViolated(x: u8)
            ensures (x >= (7)) <==> (x >= (7)),
        {
        }
    }
}
pub use __nutype_C16U8GreaterOrEqualLitP__::C16U8GreaterOrEqualLitP;
pub use __nutype_C16U8GreaterOrEqualLitP__::C16U8GreaterOrEqualLitPError;

}
pub mod d_c16_u8_greater_or_equal_lit_big {
    use super::*;
// NUTYPE_VERIF_INPUT #[nutype(validate(greater_or_equal = 100), derive(Debug))] pub struct C16U8GreaterOrEqualLitBig(u8);
#[doc(hidden)]
#[allow(
    non_snake_case,
    reason = "we keep original structure name which is probably CamelCase"
)]
mod __nutype_C16U8GreaterOrEqualLitBig__ {
    use super::*;
    #[derive(Debug)]
    pub struct C16U8GreaterOrEqualLitBig(u8);
    #[derive(Debug, Clone, PartialEq, Eq)]
    #[allow(clippy::enum_variant_names)]
    pub enum C16U8GreaterOrEqualLitBigError {
        GreaterOrEqualViolated,
    }
    #[verifier::external]
impl ::core::fmt::Display for C16U8GreaterOrEqualLitBigError {
        fn fmt(&self, f: &mut ::core::fmt::Formatter<'_>) -> ::core::fmt::Result {
            match self {
                C16U8GreaterOrEqualLitBigError::GreaterOrEqualViolated => write!(
                    f,
                    "{} is too small. The value must be greater or equal to {:#?}.",
                    stringify!(C16U8GreaterOrEqualLitBig),
                    100u8
                ),
            }
        }
    }
    #[verifier::external]
impl ::core::error::Error for C16U8GreaterOrEqualLitBigError {
        fn source(&self) -> Option<&(dyn ::core::error::Error + 'static)> {
            None
        }
    }
    impl C16U8GreaterOrEqualLitBig {
        pub fn try_new(
            raw_value: u8,
        ) -> (r: ::core::result::Result<Self, C16U8GreaterOrEqualLitBigError>) 
            ensures
                r == Self::spec_try_new(raw_value),
                r is Err ==> Self::spec_validate(Self::spec_sanitize(raw_value)) == Err::<(), C16U8GreaterOrEqualLitBigError>(r->Err_0),
        {
            let sanitized_value: u8 = Self::__sanitize__(raw_value);
            #[allow(clippy::question_mark)]
            if let Err(e) = Self::__validate__(&sanitized_value) {
                return Err(e);
            }
            Ok(C16U8GreaterOrEqualLitBig(sanitized_value))
        }
        fn __sanitize__(mut value: u8) -> (r: u8) 
            ensures
                r == Self::spec_sanitize(value),
        {
            value
        }
        fn __validate__(val: &u8) -> (r: ::core::result::Result<(), C16U8GreaterOrEqualLitBigError>) 
            ensures
                r == Self::spec_validate(*val),
                r is Err ==> r == Self::spec_validate(*val),
        {
            let val = *val;
            if val < 100u8 {
                return Err(C16U8GreaterOrEqualLitBigError::GreaterOrEqualViolated);
            }
            Ok(())
        }
    }
    impl C16U8GreaterOrEqualLitBig {
        #[inline]
        pub fn into_inner(self) -> (r: u8) 
            ensures
                r == self.spec_view(),
        {
            self.0
        }
    }
    #[cfg(test)]
    mod tests {
        use super::*;
    }

    // ======== inserted by the annotator: spec-mode items only ========
    impl C16U8GreaterOrEqualLitBig {
        pub closed spec fn spec_view(self) -> u8 { self.0 }
        pub closed spec fn spec_sanitize(x: u8) -> u8 { x }
        pub closed spec fn spec_validate(x: u8) -> ::core::result::Result<(), C16U8GreaterOrEqualLitBigError> {
            if !(x >= (100)) { Err(C16U8GreaterOrEqualLitBigError::GreaterOrEqualViolated) } else { Ok(()) }
        }
        pub closed spec fn spec_post(raw: u8, r: ::core::result::Result<Self, C16U8GreaterOrEqualLitBigError>) -> bool { r == Self::spec_try_new(raw) }
        pub closed spec fn spec_try_new(raw: u8) -> ::core::result::Result<Self, C16U8GreaterOrEqualLitBigError> {
            match Self::spec_validate(Self::spec_sanitize(raw)) {
                Ok(_) => Ok(C16U8GreaterOrEqualLitBig(Self::spec_sanitize(raw))),
                Err(e) => Err(e),
            }
        }
        #[verifier::type_invariant]
        closed spec fn spec_inv(self) -> bool { Self::spec_validate(self.0) is Ok }
    }
    impl C16U8GreaterOrEqualLitBig {
        pub proof fn lemma_c16_GreaterOrEqualViolated(x: u8)
            ensures (x >= (100)) <==> (x >= (100)),
        {
        }
    }
}
pub use __nutype_C16U8GreaterOrEqualLitBig__::C16U8GreaterOrEqualLitBig;
pub use __nutype_C16U8GreaterOrEqualLitBig__::C16U8GreaterOrEqualLitBigError;

}

// vacuity canary: this MUST fail; if it verifies the assumptions are inconsistent
proof fn __verif_canary() ensures false {}
} // verus!
fn main() {}
