// GENERATED on every run: real expansions of /repo's macro with contracts inserted in place.
#![allow(unused_imports, dead_code, unused_variables, unused_mut, non_snake_case, non_upper_case_globals, non_camel_case_types)]
use vstd::prelude::*;
use vstd::string::*;
use vstd::std_specs::iter::IteratorSpec;
verus! {
// ---- fixed prelude: ASSUMED contracts on the Rust standard library (trusted, listed in evidence) ----
// Every std function the generated code may call gets its own *uninterpreted* spec symbol, so a
// changed call (trim -> trim_start, to_lowercase -> to_ascii_lowercase, chars().count() -> len())
// fails a postcondition instead of turning into "unsupported".
pub uninterp spec fn spec_trim(s: Seq<char>) -> Seq<char>;
pub uninterp spec fn spec_trim_start(s: Seq<char>) -> Seq<char>;
pub uninterp spec fn spec_trim_end(s: Seq<char>) -> Seq<char>;
pub uninterp spec fn spec_lower(s: Seq<char>) -> Seq<char>;
pub uninterp spec fn spec_upper(s: Seq<char>) -> Seq<char>;
pub uninterp spec fn spec_ascii_lower(s: Seq<char>) -> Seq<char>;
pub uninterp spec fn spec_ascii_upper(s: Seq<char>) -> Seq<char>;

pub assume_specification[ str::trim ](s: &str) -> (r: &str)
    ensures r@ == spec_trim(s@);
pub assume_specification[ str::trim_start ](s: &str) -> (r: &str)
    ensures r@ == spec_trim_start(s@);
pub assume_specification[ str::trim_end ](s: &str) -> (r: &str)
    ensures r@ == spec_trim_end(s@);
pub assume_specification[ str::to_lowercase ](s: &str) -> (r: String)
    ensures r@ == spec_lower(s@);
pub assume_specification[ str::to_uppercase ](s: &str) -> (r: String)
    ensures r@ == spec_upper(s@);
pub assume_specification[ str::to_ascii_lowercase ](s: &str) -> (r: String)
    ensures r@ == spec_ascii_lower(s@);
pub assume_specification[ str::to_ascii_uppercase ](s: &str) -> (r: String)
    ensures r@ == spec_ascii_upper(s@);
pub uninterp spec fn spec_string_byte_len(s: Seq<char>) -> usize;
pub assume_specification[ String::len ](s: &String) -> (r: usize)
    ensures r == spec_string_byte_len(s@);
pub assume_specification<'a>[ <core::str::Chars<'a> as Iterator>::count ](c: core::str::Chars<'a>) -> (r: usize)
    ensures r == c.remaining().len();

global size_of usize == 8;

// opaque std error types that appear as payload of the generated `<X>ParseError` enums
#[verifier::external_type_specification]
#[verifier::external_body]
pub struct ExParseIntError(core::num::ParseIntError);
#[verifier::external_type_specification]
#[verifier::external_body]
pub struct ExParseFloatError(core::num::ParseFloatError);

// `impl Into<String>` arguments: the only facts assumed about the conversion.
pub broadcast axiom fn axiom_into_string_from_string(x: String, s: String)
    requires #[trigger] call_ensures(<String as Into<String>>::into, (x,), s)
    ensures s@ == x@;
pub broadcast axiom fn axiom_into_string_from_str(x: &str, s: String)
    requires #[trigger] call_ensures(<&str as Into<String>>::into, (x,), s)
    ensures s@ == x@;

// Algebraic facts about std's trim / case mapping used only by the C11 (canonical form) lemmas.
// A1-A3 idempotence; A4/A5 case mapping neither creates nor removes edge whitespace, i.e. trim and
// case mapping commute "up to" re-application.  Statements about std, not about nutype.
pub broadcast axiom fn axiom_trim_idem(s: Seq<char>)
    ensures #[trigger] spec_trim(spec_trim(s)) == spec_trim(s);
pub broadcast axiom fn axiom_lower_idem(s: Seq<char>)
    ensures #[trigger] spec_lower(spec_lower(s)) == spec_lower(s);
pub broadcast axiom fn axiom_upper_idem(s: Seq<char>)
    ensures #[trigger] spec_upper(spec_upper(s)) == spec_upper(s);
pub broadcast axiom fn axiom_trim_of_lower_of_trim(s: Seq<char>)
    ensures #[trigger] spec_trim(spec_lower(spec_trim(s))) == spec_lower(spec_trim(s));
pub broadcast axiom fn axiom_trim_of_upper_of_trim(s: Seq<char>)
    ensures #[trigger] spec_trim(spec_upper(spec_trim(s))) == spec_upper(spec_trim(s));
pub broadcast axiom fn axiom_lower_of_trim_of_lower(s: Seq<char>)
    ensures #[trigger] spec_lower(spec_trim(spec_lower(s))) == spec_trim(spec_lower(s));
pub broadcast axiom fn axiom_upper_of_trim_of_upper(s: Seq<char>)
    ensures #[trigger] spec_upper(spec_trim(spec_upper(s))) == spec_trim(spec_upper(s));
pub broadcast group group_c11_std_axioms {
    axiom_trim_idem, axiom_lower_idem, axiom_upper_idem,
    axiom_trim_of_lower_of_trim, axiom_trim_of_upper_of_trim,
    axiom_lower_of_trim_of_lower, axiom_upper_of_trim_of_upper,
}

// ---- auxiliary items of the catalogue (symbolic bounds, custom functions) ----
pub uninterp spec fn SYM_LO_I32() -> i32;
#[verifier::external_body]
pub fn sym_lo_i32() -> (r: i32) ensures r == SYM_LO_I32() { 3 }

pub mod d_c16_i32_greater_sym {
    use super::*;
// NUTYPE_VERIF_INPUT #[nutype(validate(greater = sym_lo_i32()), derive(Debug))] pub struct C16I32GreaterSym(i32);
#[doc(hidden)]
#[allow(
    non_snake_case,
    reason = "we keep original structure name which is probably CamelCase"
)]
mod __nutype_C16I32GreaterSym__ {
    use super::*;
    #[derive(Debug)]
    pub struct C16I32GreaterSym(i32);
    #[derive(Debug, Clone, PartialEq, Eq)]
    #[allow(clippy::enum_variant_names)]
    pub enum C16I32GreaterSymError {
        GreaterViolated,
    }
    #[verifier::external]
impl ::core::fmt::Display for C16I32GreaterSymError {
        fn fmt(&self, f: &mut ::core::fmt::Formatter<'_>) -> ::core::fmt::Result {
            match self {
                C16I32GreaterSymError::GreaterViolated => write!(
                    f,
                    "{} is too small. The value must be greater than {:#?}.",
                    stringify!(C16I32GreaterSym),
                    sym_lo_i32()
                ),
            }
        }
    }
    #[verifier::external]
impl ::core::error::Error for C16I32GreaterSymError {
        fn source(&self) -> Option<&(dyn ::core::error::Error + 'static)> {
            None
        }
    }
    impl C16I32GreaterSym {
        pub fn try_new(raw_value: i32) -> (r: ::core::result::Result<Self, C16I32GreaterSymError>) 
            ensures
                r == Self::spec_try_new(raw_value),
                r is Err ==> Self::spec_validate(Self::spec_sanitize(raw_value)) == Err::<(), C16I32GreaterSymError>(r->Err_0),
        {
            let sanitized_value: i32 = Self::__sanitize__(raw_value);
            #[allow(clippy::question_mark)]
            if let Err(e) = Self::__validate__(&sanitized_value) {
                return Err(e);
            }
            Ok(C16I32GreaterSym(sanitized_value))
        }
        fn __sanitize__(mut value: i32) -> (r: i32) 
            ensures
                r == Self::spec_sanitize(value),
        {
            value
        }
        fn __validate__(val: &i32) -> (r: ::core::result::Result<(), C16I32GreaterSymError>) 
            ensures
                r == Self::spec_validate(*val),
                r is Err ==> r == Self::spec_validate(*val),
        {
            let val = *val;
            if val <= sym_lo_i32() {
                return Err(C16I32GreaterSymError::GreaterViolated);
            }
            Ok(())
        }
    }
    impl C16I32GreaterSym {
        #[inline]
        pub fn into_inner(self) -> (r: i32) 
            ensures
                r == self.spec_view(),
        {
            self.0
        }
    }
    #[cfg(test)]
    mod tests {
        use super::*;
    }

    // ======== inserted by the annotator: spec-mode items only ========
    impl C16I32GreaterSym {
        pub closed spec fn spec_view(self) -> i32 { self.0 }
        pub closed spec fn spec_sanitize(x: i32) -> i32 { x }
        pub closed spec fn spec_validate(x: i32) -> ::core::result::Result<(), C16I32GreaterSymError> {
            if !(x > (SYM_LO_I32())) { Err(C16I32GreaterSymError::GreaterViolated) } else { Ok(()) }
        }
        pub closed spec fn spec_post(raw: i32, r: ::core::result::Result<Self, C16I32GreaterSymError>) -> bool { r == Self::spec_try_new(raw) }
        pub closed spec fn spec_try_new(raw: i32) -> ::core::result::Result<Self, C16I32GreaterSymError> {
            match Self::spec_validate(Self::spec_sanitize(raw)) {
                Ok(_) => Ok(C16I32GreaterSym(Self::spec_sanitize(raw))),
                Err(e) => Err(e),
            }
        }
        #[verifier::type_invariant]
        closed spec fn spec_inv(self) -> bool { Self::spec_validate(self.0) is Ok }
    }
    impl C16I32GreaterSym {
        pub proof fn lemma_c16_GreaterViolated(x: i32)
            ensures (x > (SYM_LO_I32())) <==> (x > (SYM_LO_I32())),
        {
        }
    }
}
pub use __nutype_C16I32GreaterSym__::C16I32GreaterSym;
pub use __nutype_C16I32GreaterSym__::C16I32GreaterSymError;

}
pub mod d_c16_i32_greater_lit_p {
    use super::*;
// NUTYPE_VERIF_INPUT #[nutype(validate(greater = 7), derive(Debug))] pub struct C16I32GreaterLitP(i32);
#[doc(hidden)]
#[allow(
    non_snake_case,
    reason = "we keep original structure name which is probably CamelCase"
)]
mod __nutype_C16I32GreaterLitP__ {
    use super::*;
    #[derive(Debug)]
    pub struct C16I32GreaterLitP(i32);
    #[derive(Debug, Clone, PartialEq, Eq)]
    #[allow(clippy::enum_variant_names)]
    pub enum C16I32GreaterLitPError {
        GreaterViolated,
    }
    #[verifier::external]
impl ::core::fmt::Display for C16I32GreaterLitPError {
        fn fmt(&self, f: &mut ::core::fmt::Formatter<'_>) -> ::core::fmt::Result {
            match self {
                C16I32GreaterLitPError::GreaterViolated => write!(
                    f,
                    "{} is too small. The value must be greater than {:#?}.",
                    stringify!(C16I32GreaterLitP),
                    7i32
                ),
            }
        }
    }
    #[verifier::external]
impl ::core::error::Error for C16I32GreaterLitPError {
        fn source(&self) -> Option<&(dyn ::core::error::Error + 'static)> {
            None
        }
    }
    impl C16I32GreaterLitP {
        pub fn try_new(raw_value: i32) -> (r: ::core::result::Result<Self, C16I32GreaterLitPError>) 
            ensures
                r == Self::spec_try_new(raw_value),
                r is Err ==> Self::spec_validate(Self::spec_sanitize(raw_value)) == Err::<(), C16I32GreaterLitPError>(r->Err_0),
        {
            let sanitized_value: i32 = Self::__sanitize__(raw_value);
            #[allow(clippy::question_mark)]
            if let Err(e) = Self::__validate__(&sanitized_value) {
                return Err(e);
            }
            Ok(C16I32GreaterLitP(sanitized_value))
        }
        fn __sanitize__(mut value: i32) -> (r: i32) 
            ensures
                r == Self::spec_sanitize(value),
        {
            value
        }
        fn __validate__(val: &i32) -> (r: ::core::result::Result<(), C16I32GreaterLitPError>) 
            ensures
                r == Self::spec_validate(*val),
                r is Err ==> r == Self::spec_validate(*val),
        {
            let val = *val;
            if val <= 7i32 {
                return Err(C16I32GreaterLitPError::GreaterViolated);
            }
            Ok(())
        }
    }
    impl C16I32GreaterLitP {
        #[inline]
        pub fn into_inner(self) -> (r: i32) 
            ensures
                r == self.spec_view(),
        {
            self.0
        }
    }
    #[cfg(test)]
    mod tests {
        use super::*;
    }

    // ======== inserted by the annotator: spec-mode items only ========
    impl C16I32GreaterLitP {
        pub closed spec fn spec_view(self) -> i32 { self.0 }
        pub closed spec fn spec_sanitize(x: i32) -> i32 { x }
        pub closed spec fn spec_validate(x: i32) -> ::core::result::Result<(), C16I32GreaterLitPError> {
            if !(x > (7)) { Err(C16I32GreaterLitPError::GreaterViolated) } else { Ok(()) }
        }
        pub closed spec fn spec_post(raw: i32, r: ::core::result::Result<Self, C16I32GreaterLitPError>) -> bool { r == Self::spec_try_new(raw) }
        pub closed spec fn spec_try_new(raw: i32) -> ::core::result::Result<Self, C16I32GreaterLitPError> {
            match Self::spec_validate(Self::spec_sanitize(raw)) {
                Ok(_) => Ok(C16I32GreaterLitP(Self::spec_sanitize(raw))),
                Err(e) => Err(e),
            }
        }
        #[verifier::type_invariant]
        closed spec fn spec_inv(self) -> bool { Self::spec_validate(self.0) is Ok }
    }
    impl C16I32GreaterLitP {
        pub proof fn lemma_c16_GreaterViolated(x: i32)
            ensures (x > (7)) <==> (x > (7)),
        {
        }
    }
}
pub use __nutype_C16I32GreaterLitP__::C16I32GreaterLitP;
pub use __nutype_C16I32GreaterLitP__::C16I32GreaterLitPError;

}
pub mod d_c16_i32_greater_lit_n {
    use super::*;
// NUTYPE_VERIF_INPUT #[nutype(validate(greater = -7), derive(Debug))] pub struct C16I32GreaterLitN(i32);
#[doc(hidden)]
#[allow(
    non_snake_case,
    reason = "we keep original structure name which is probably CamelCase"
)]
mod __nutype_C16I32GreaterLitN__ {
    use super::*;
    #[derive(Debug)]
    pub struct C16I32GreaterLitN(i32);
    #[derive(Debug, Clone, PartialEq, Eq)]
    #[allow(clippy::enum_variant_names)]
    pub enum C16I32GreaterLitNError {
        GreaterViolated,
    }
    #[verifier::external]
impl ::core::fmt::Display for C16I32GreaterLitNError {
        fn fmt(&self, f: &mut ::core::fmt::Formatter<'_>) -> ::core::fmt::Result {
            match self {
                C16I32GreaterLitNError::GreaterViolated => write!(
                    f,
                    "{} is too small. The value must be greater than {:#?}.",
                    stringify!(C16I32GreaterLitN),
                    -7i32
                ),
            }
        }
    }
    #[verifier::external]
impl ::core::error::Error for C16I32GreaterLitNError {
        fn source(&self) -> Option<&(dyn ::core::error::Error + 'static)> {
            None
        }
    }
    impl C16I32GreaterLitN {
        pub fn try_new(raw_value: i32) -> (r: ::core::result::Result<Self, C16I32GreaterLitNError>) 
            ensures
                r == Self::spec_try_new(raw_value),
                r is Err ==> Self::spec_validate(Self::spec_sanitize(raw_value)) == Err::<(), C16I32GreaterLitNError>(r->Err_0),
        {
            let sanitized_value: i32 = Self::__sanitize__(raw_value);
            #[allow(clippy::question_mark)]
            if let Err(e) = Self::__validate__(&sanitized_value) {
                return Err(e);
            }
            Ok(C16I32GreaterLitN(sanitized_value))
        }
        fn __sanitize__(mut value: i32) -> (r: i32) 
            ensures
                r == Self::spec_sanitize(value),
        {
            value
        }
        fn __validate__(val: &i32) -> (r: ::core::result::Result<(), C16I32GreaterLitNError>) 
            ensures
                r == Self::spec_validate(*val),
                r is Err ==> r == Self::spec_validate(*val),
        {
            let val = *val;
            if val <= -7i32 {
                return Err(C16I32GreaterLitNError::GreaterViolated);
            }
            Ok(())
        }
    }
    impl C16I32GreaterLitN {
        #[inline]
        pub fn into_inner(self) -> (r: i32) 
            ensures
                r == self.spec_view(),
        {
            self.0
        }
    }
    #[cfg(test)]
    mod tests {
        use super::*;
    }

    // ======== inserted by the annotator: spec-mode items only ========
    impl C16I32GreaterLitN {
        pub closed spec fn spec_view(self) -> i32 { self.0 }
        pub closed spec fn spec_sanitize(x: i32) -> i32 { x }
        pub closed spec fn spec_validate(x: i32) -> ::core::result::Result<(), C16I32GreaterLitNError> {
            if !(x > ((-7))) { Err(C16I32GreaterLitNError::GreaterViolated) } else { Ok(()) }
        }
        pub closed spec fn spec_post(raw: i32, r: ::core::result::Result<Self, C16I32GreaterLitNError>) -> bool { r == Self::spec_try_new(raw) }
        pub closed spec fn spec_try_new(raw: i32) -> ::core::result::Result<Self, C16I32GreaterLitNError> {
            match Self::spec_validate(Self::spec_sanitize(raw)) {
                Ok(_) => Ok(C16I32GreaterLitN(Self::spec_sanitize(raw))),
                Err(e) => Err(e),
            }
        }
        #[verifier::type_invariant]
        closed spec fn spec_inv(self) -> bool { Self::spec_validate(self.0) is Ok }
    }
    impl C16I32GreaterLitN {
        pub proof fn lemma_c16_GreaterViolated(x: i32)
            ensures (x > ((-7))) <==> (x > ((-7))),
        {
        }
    }
}
pub use __nutype_C16I32GreaterLitN__::C16I32GreaterLitN;
pub use __nutype_C16I32GreaterLitN__::C16I32GreaterLitNError;

}
pub mod d_c16_i32_greater_lit_big {
    use super::*;
// NUTYPE_VERIF_INPUT #[nutype(validate(greater = 100), derive(Debug))] pub struct C16I32GreaterLitBig(i32);
#[doc(hidden)]
#[allow(
    non_snake_case,
    reason = "we keep original structure name which is probably CamelCase"
)]
mod __nutype_C16I32GreaterLitBig__ {
    use super::*;
    #[derive(Debug)]
    pub struct C16I32GreaterLitBig(i32);
    #[derive(Debug, Clone, PartialEq, Eq)]
    #[allow(clippy::enum_variant_names)]
    pub enum C16I32GreaterLitBigError {
        GreaterViolated,
    }
    #[verifier::external]
impl ::core::fmt::Display for C16I32GreaterLitBigError {
        fn fmt(&self, f: &mut ::core::fmt::Formatter<'_>) -> ::core::fmt::Result {
            match self {
                C16I32GreaterLitBigError::GreaterViolated => write!(
                    f,
                    "{} is too small. The value must be greater than {:#?}.",
                    stringify!(C16I32GreaterLitBig),
                    100i32
                ),
            }
        }
    }
    #[verifier::external]
impl ::core::error::Error for C16I32GreaterLitBigError {
        fn source(&self) -> Option<&(dyn ::core::error::Error + 'static)> {
            None
        }
    }
    impl C16I32GreaterLitBig {
        pub fn try_new(raw_value: i32) -> (r: ::core::result::Result<Self, C16I32GreaterLitBigError>) 
            ensures
                r == Self::spec_try_new(raw_value),
                r is Err ==> Self::spec_validate(Self::spec_sanitize(raw_value)) == Err::<(), C16I32GreaterLitBigError>(r->Err_0),
        {
            let sanitized_value: i32 = Self::__sanitize__(raw_value);
            #[allow(clippy::question_mark)]
            if let Err(e) = Self::__validate__(&sanitized_value) {
                return Err(e);
            }
            Ok(C16I32GreaterLitBig(sanitized_value))
        }
        fn __sanitize__(mut value: i32) -> (r: i32) 
            ensures
                r == Self::spec_sanitize(value),
        {
            value
        }
        fn __validate__(val: &i32) -> (r: ::core::result::Result<(), C16I32GreaterLitBigError>) 
            ensures
                r == Self::spec_validate(*val),
                r is Err ==> r == Self::spec_validate(*val),
        {
            let val = *val;
            if val <= 100i32 {
                return Err(C16I32GreaterLitBigError::GreaterViolated);
            }
            Ok(())
        }
    }
    impl C16I32GreaterLitBig {
        #[inline]
        pub fn into_inner(self) -> (r: i32) 
            ensures
                r == self.spec_view(),
        {
            self.0
        }
    }
    #[cfg(test)]
    mod tests {
        use super::*;
    }

    // ======== inserted by the annotator: spec-mode items only ========
    impl C16I32GreaterLitBig {
        pub closed spec fn spec_view(self) -> i32 { self.0 }
        pub closed spec fn spec_sanitize(x: i32) -> i32 { x }
        pub closed spec fn spec_validate(x: i32) -> ::core::result::Result<(), C16I32GreaterLitBigError> {
            if !(x > (100)) { Err(C16I32GreaterLitBigError::GreaterViolated) } else { Ok(()) }
        }
        pub closed spec fn spec_post(raw: i32, r: ::core::result::Result<Self, C16I32GreaterLitBigError>) -> bool { r == Self::spec_try_new(raw) }
        pub closed spec fn spec_try_new(raw: i32) -> ::core::result::Result<Self, C16I32GreaterLitBigError> {
            match Self::spec_validate(Self::spec_sanitize(raw)) {
                Ok(_) => Ok(C16I32GreaterLitBig(Self::spec_sanitize(raw))),
                Err(e) => Err(e),
            }
        }
        #[verifier::type_invariant]
        closed spec fn spec_inv(self) -> bool { Self::spec_validate(self.0) is Ok }
    }
    impl C16I32GreaterLitBig {
        pub proof fn lemma_c16_GreaterViolated(x: i32)
            ensures (x > (100)) <==> (x > (100)),
        {
        }
    }
}
pub use __nutype_C16I32GreaterLitBig__::C16I32GreaterLitBig;
pub use __nutype_C16I32GreaterLitBig__::C16I32GreaterLitBigError;

}
pub mod d_c16_i32_greater_or_equal_sym {
    use super::*;
// NUTYPE_VERIF_INPUT #[nutype(validate(greater_or_equal = sym_lo_i32()), derive(Debug))] pub struct C16I32GreaterOrEqualSym(i32);
#[doc(hidden)]
#[allow(
    non_snake_case,
    reason = "we keep original structure name which is probably CamelCase"
)]
mod __nutype_C16I32GreaterOrEqualSym__ {
    use super::*;
    #[derive(Debug)]
    pub struct C16I32GreaterOrEqualSym(i32);
    #[derive(Debug, Clone, PartialEq, Eq)]
    #[allow(clippy::enum_variant_names)]
    pub enum C16I32GreaterOrEqualSymError {
        GreaterOrEqualViolated,
    }
    #[verifier::external]
impl ::core::fmt::Display for C16I32GreaterOrEqualSymError {
        fn fmt(&self, f: &mut ::core::fmt::Formatter<'_>) -> ::core::fmt::Result {
            match self {
                C16I32GreaterOrEqualSymError::GreaterOrEqualViolated => write!(
                    f,
                    "{} is too small. The value must be greater or equal to {:#?}.",
                    stringify!(C16I32GreaterOrEqualSym),
                    sym_lo_i32()
                ),
            }
        }
    }
    #[verifier::external]
impl ::core::error::Error for C16I32GreaterOrEqualSymError {
        fn source(&self) -> Option<&(dyn ::core::error::Error + 'static)> {
            None
        }
    }
    impl C16I32GreaterOrEqualSym {
        pub fn try_new(
            raw_value: i32,
        ) -> (r: ::core::result::Result<Self, C16I32GreaterOrEqualSymError>) 
            ensures
                r == Self::spec_try_new(raw_value),
                r is Err ==> Self::spec_validate(Self::spec_sanitize(raw_value)) == Err::<(), C16I32GreaterOrEqualSymError>(r->Err_0),
        {
            let sanitized_value: i32 = Self::__sanitize__(raw_value);
            #[allow(clippy::question_mark)]
            if let Err(e) = Self::__validate__(&sanitized_value) {
                return Err(e);
            }
            Ok(C16I32GreaterOrEqualSym(sanitized_value))
        }
        fn __sanitize__(mut value: i32) -> (r: i32) 
            ensures
                r == Self::spec_sanitize(value),
        {
            value
        }
        fn __validate__(val: &i32) -> (r: ::core::result::Result<(), C16I32GreaterOrEqualSymError>) 
            ensures
                r == Self::spec_validate(*val),
                r is Err ==> r == Self::spec_validate(*val),
        {
            let val = *val;
            if val < sym_lo_i32() {
                return Err(C16I32GreaterOrEqualSymError::GreaterOrEqualViolated);
            }
            Ok(())
        }
    }
    impl C16I32GreaterOrEqualSym {
        #[inline]
        pub fn into_inner(self) -> (r: i32) 
            ensures
                r == self.spec_view(),
        {
            self.0
        }
    }
    #[cfg(test)]
    mod tests {
        use super::*;
    }

    // ======== inserted by the annotator: spec-mode items only ========
    impl C16I32GreaterOrEqualSym {
        pub closed spec fn spec_view(self) -> i32 { self.0 }
        pub closed spec fn spec_sanitize(x: i32) -> i32 { x }
        pub closed spec fn spec_validate(x: i32) -> ::core::result::Result<(), C16I32GreaterOrEqualSymError> {
            if !(x >= (SYM_LO_I32())) { Err(C16I32GreaterOrEqualSymError::GreaterOrEqualViolated) } else { Ok(()) }
        }
        pub closed spec fn spec_post(raw: i32, r: ::core::result::Result<Self, C16I32GreaterOrEqualSymError>) -> bool { r == Self::spec_try_new(raw) }
        pub closed spec fn spec_try_new(raw: i32) -> ::core::result::Result<Self, C16I32GreaterOrEqualSymError> {
            match Self::spec_validate(Self::spec_sanitize(raw)) {
                Ok(_) => Ok(C16I32GreaterOrEqualSym(Self::spec_sanitize(raw))),
                Err(e) => Err(e),
            }
        }
        #[verifier::type_invariant]
        closed spec fn spec_inv(self) -> bool { Self::spec_validate(self.0) is Ok }
    }
    impl C16I32GreaterOrEqualSym {
        pub proof fn lemma_c16_GreaterOrEqualViolated(x: i32)
            ensures (x >= (SYM_LO_I32())) <==> (x >= (SYM_LO_I32())),
        {
        }
    }
}
pub use __nutype_C16I32GreaterOrEqualSym__::C16I32GreaterOrEqualSym;
pub use __nutype_C16I32GreaterOrEqualSym__::C16I32GreaterOrEqualSymError;

}
pub mod d_c16_i32_greater_or_equal_lit_p {
    use super::*;
// NUTYPE_VERIF_INPUT #[nutype(validate(greater_or_equal = 7), derive(Debug))] pub struct C16I32GreaterOrEqualLitP(i32);
#[doc(hidden)]
#[allow(
    non_snake_case,
    reason = "we keep original structure name which is probably CamelCase"
)]
mod __nutype_C16I32GreaterOrEqualLitP__ {
    use super::*;
    #[derive(Debug)]
    pub struct C16I32GreaterOrEqualLitP(i32);
    #[derive(Debug, Clone, PartialEq, Eq)]
    #[allow(clippy::enum_variant_names)]
    pub enum C16I32GreaterOrEqualLitPError {
        GreaterOrEqualViolated,
    }
    #[verifier::external]
impl ::core::fmt::Display for C16I32GreaterOrEqualLitPError {
        fn fmt(&self, f: &mut ::core::fmt::Formatter<'_>) -> ::core::fmt::Result {
            match self {
                C16I32GreaterOrEqualLitPError::GreaterOrEqualViolated => write!(
                    f,
                    "{} is too small. The value must be greater or equal to {:#?}.",
                    stringify!(C16I32GreaterOrEqualLitP),
                    7i32
                ),
            }
        }
    }
    #[verifier::external]
impl ::core::error::Error for C16I32GreaterOrEqualLitPError {
        fn source(&self) -> Option<&(dyn ::core::error::Error + 'static)> {
            None
        }
    }
    impl C16I32GreaterOrEqualLitP {
        pub fn try_new(
            raw_value: i32,
        ) -> (r: ::core::result::Result<Self, C16I32GreaterOrEqualLitPError>) 
            ensures
                r == Self::spec_try_new(raw_value),
                r is Err ==> Self::spec_validate(Self::spec_sanitize(raw_value)) == Err::<(), C16I32GreaterOrEqualLitPError>(r->Err_0),
        {
            let sanitized_value: i32 = Self::__sanitize__(raw_value);
            #[allow(clippy::question_mark)]
            if let Err(e) = Self::__validate__(&sanitized_value) {
                return Err(e);
            }
            Ok(C16I32GreaterOrEqualLitP(sanitized_value))
        }
        fn __sanitize__(mut value: i32) -> (r: i32) 
            ensures
                r == Self::spec_sanitize(value),
        {
            value
        }
        fn __validate__(val: &i32) -> (r: ::core::result::Result<(), C16I32GreaterOrEqualLitPError>) 
            ensures
                r == Self::spec_validate(*val),
                r is Err ==> r == Self::spec_validate(*val),
        {
            let val = *val;
            if val < 7i32 {
                return Err(C16I32GreaterOrEqualLitPError::GreaterOrEqualViolated);
            }
            Ok(())
        }
    }
    impl C16I32GreaterOrEqualLitP {
        #[inline]
        pub fn into_inner(self) -> (r: i32) 
            ensures
                r == self.spec_view(),
        {
            self.0
        }
    }
    #[cfg(test)]
    mod tests {
        use super::*;
    }

    // ======== inserted by the annotator: spec-mode items only ========
    impl C16I32GreaterOrEqualLitP {
        pub closed spec fn spec_view(self) -> i32 { self.0 }
        pub closed spec fn spec_sanitize(x: i32) -> i32 { x }
        pub closed spec fn spec_validate(x: i32) -> ::core::result::Result<(), C16I32GreaterOrEqualLitPError> {
            if !(x >= (7)) { Err(C16I32GreaterOrEqualLitPError::GreaterOrEqualViolated) } else { Ok(()) }
        }
        pub closed spec fn spec_post(raw: i32, r: ::core::result::Result<Self, C16I32GreaterOrEqualLitPError>) -> bool { r == Self::spec_try_new(raw) }
        pub closed spec fn spec_try_new(raw: i32) -> ::core::result::Result<Self, C16I32GreaterOrEqualLitPError> {
            match Self::spec_validate(Self::spec_sanitize(raw)) {
                Ok(_) => Ok(C16I32GreaterOrEqualLitP(Self::spec_sanitize(raw))),
                Err(e) => Err(e),
            }
        }
        #[verifier::type_invariant]
        closed spec fn spec_inv(self) -> bool { Self::spec_validate(self.0) is Ok }
    }
    impl C16I32GreaterOrEqualLitP {
        pub proof fn lemma_c16_GreaterOrEqualViolated(x: i32)
            ensures (x >= (7)) <==> (x >= (7)),
        {
        }
    }
}
pub use __nutype_C16I32GreaterOrEqualLitP__::C16I32GreaterOrEqualLitP;
pub use __nutype_C16I32GreaterOrEqualLitP__::C16I32GreaterOrEqualLitPError;

}
pub mod d_c16_i32_greater_or_equal_lit_n {
    use super::*;
// NUTYPE_VERIF_INPUT #[nutype(validate(greater_or_equal = -7), derive(Debug))] pub struct C16I32GreaterOrEqualLitN(i32);
#[doc(hidden)]
#[allow(
    non_snake_case,
    reason = "we keep original structure name which is probably CamelCase"
)]
mod __nutype_C16I32GreaterOrEqualLitN__ {
    use super::*;
    #[derive(Debug)]
    pub struct C16I32GreaterOrEqualLitN(i32);
    #[derive(Debug, Clone, PartialEq, Eq)]
    #[allow(clippy::enum_variant_names)]
    pub enum C16I32GreaterOrEqualLitNError {
        GreaterOrEqualViolated,
    }
    #[verifier::external]
impl ::core::fmt::Display for C16I32GreaterOrEqualLitNError {
        fn fmt(&self, f: &mut ::core::fmt::Formatter<'_>) -> ::core::fmt::Result {
            match self {
                C16I32GreaterOrEqualLitNError::GreaterOrEqualViolated => write!(
                    f,
                    "{} is too small. The value must be greater or equal to {:#?}.",
                    stringify!(C16I32GreaterOrEqualLitN),
                    -7i32
                ),
            }
        }
    }
    #[verifier::external]
impl ::core::error::Error for C16I32GreaterOrEqualLitNError {
        fn source(&self) -> Option<&(dyn ::core::error::Error + 'static)> {
            None
        }
    }
    impl C16I32GreaterOrEqualLitN {
        pub fn try_new(
            raw_value: i32,
        ) -> (r: ::core::result::Result<Self, C16I32GreaterOrEqualLitNError>) 
            ensures
                r == Self::spec_try_new(raw_value),
                r is Err ==> Self::spec_validate(Self::spec_sanitize(raw_value)) == Err::<(), C16I32GreaterOrEqualLitNError>(r->Err_0),
        {
            let sanitized_value: i32 = Self::__sanitize__(raw_value);
            #[allow(clippy::question_mark)]
            if let Err(e) = Self::__validate__(&sanitized_value) {
                return Err(e);
            }
            Ok(C16I32GreaterOrEqualLitN(sanitized_value))
        }
        fn __sanitize__(mut value: i32) -> (r: i32) 
            ensures
                r == Self::spec_sanitize(value),
        {
            value
        }
        fn __validate__(val: &i32) -> (r: ::core::result::Result<(), C16I32GreaterOrEqualLitNError>) 
            ensures
                r == Self::spec_validate(*val),
                r is Err ==> r == Self::spec_validate(*val),
        {
            let val = *val;
            if val < -7i32 {
                return Err(C16I32GreaterOrEqualLitNError::GreaterOrEqualViolated);
            }
            Ok(())
        }
    }
    impl C16I32GreaterOrEqualLitN {
        #[inline]
        pub fn into_inner(self) -> (r: i32) 
            ensures
                r == self.spec_view(),
        {
            self.0
        }
    }
    #[cfg(test)]
    mod tests {
        use super::*;
    }

    // ======== inserted by the annotator: spec-mode items only ========
    impl C16I32GreaterOrEqualLitN {
        pub closed spec fn spec_view(self) -> i32 { self.0 }
        pub closed spec fn spec_sanitize(x: i32) -> i32 { x }
        pub closed spec fn spec_validate(x: i32) -> ::core::result::Result<(), C16I32GreaterOrEqualLitNError> {
            if !(x >= ((-7))) { Err(C16I32GreaterOrEqualLitNError::GreaterOrEqualViolated) } else { Ok(()) }
        }
        pub closed spec fn spec_post(raw: i32, r: ::core::result::Result<Self, C16I32GreaterOrEqualLitNError>) -> bool { r == Self::spec_try_new(raw) }
        pub closed spec fn spec_try_new(raw: i32) -> ::core::result::Result<Self, C16I32GreaterOrEqualLitNError> {
            match Self::spec_validate(Self::spec_sanitize(raw)) {
                Ok(_) => Ok(C16I32GreaterOrEqualLitN(Self::spec_sanitize(raw))),
                Err(e) => Err(e),
            }
        }
        #[verifier::type_invariant]
        closed spec fn spec_inv(self) -> bool { Self::spec_validate(self.0) is Ok }
    }
    impl C16I32GreaterOrEqualLitN {
        pub proof fn lemma_c16_GreaterOrEqualViolated(x: i32)
            ensures (x >= ((-7))) <==> (x >= ((-7))),
        {
        }
    }
}
pub use __nutype_C16I32GreaterOrEqualLitN__::C16I32GreaterOrEqualLitN;
pub use __nutype_C16I32GreaterOrEqualLitN__::C16I32GreaterOrEqualLitNError;

}
pub mod d_c16_i32_greater_or_equal_lit_big {
    use super::*;
// NUTYPE_VERIF_INPUT #[nutype(validate(greater_or_equal = 100), derive(Debug))] pub struct C16I32GreaterOrEqualLitBig(i32);
#[doc(hidden)]
#[allow(
    non_snake_case,
    reason = "we keep original structure name which is probably CamelCase"
)]
mod __nutype_C16I32GreaterOrEqualLitBig__ {
    use super::*;
    #[derive(Debug)]
    pub struct C16I32GreaterOrEqualLitBig(i32);
    #[derive(Debug, Clone, PartialEq, Eq)]
    #[allow(clippy::enum_variant_names)]
    pub enum C16I32GreaterOrEqualLitBigError {
        GreaterOrEqualViolated,
    }
    #[verifier::external]
impl ::core::fmt::Display for C16I32GreaterOrEqualLitBigError {
        fn fmt(&self, f: &mut ::core::fmt::Formatter<'_>) -> ::core::fmt::Result {
            match self {
                C16I32GreaterOrEqualLitBigError::GreaterOrEqualViolated => write!(
                    f,
                    "{} is too small. The value must be greater or equal to {:#?}.",
                    stringify!(C16I32GreaterOrEqualLitBig),
                    100i32
                ),
            }
        }
    }
    #[verifier::external]
impl ::core::error::Error for C16I32GreaterOrEqualLitBigError {
        fn source(&self) -> Option<&(dyn ::core::error::Error + 'static)> {
            None
        }
    }
    impl C16I32GreaterOrEqualLitBig {
        pub fn try_new(
            raw_value: i32,
        ) -> (r: ::core::result::Result<Self, C16I32GreaterOrEqualLitBigError>) 
            ensures
                r == Self::spec_try_new(raw_value),
                r is Err ==> Self::spec_validate(Self::spec_sanitize(raw_value)) == Err::<(), C16I32GreaterOrEqualLitBigError>(r->Err_0),
        {
            let sanitized_value: i32 = Self::__sanitize__(raw_value);
            #[allow(clippy::question_mark)]
            if let Err(e) = Self::__validate__(&sanitized_value) {
                return Err(e);
            }
            Ok(C16I32GreaterOrEqualLitBig(sanitized_value))
        }
        fn __sanitize__(mut value: i32) -> (r: i32) 
            ensures
                r == Self::spec_sanitize(value),
        {
            value
        }
        fn __validate__(val: &i32) -> (r: ::core::result::Result<(), C16I32GreaterOrEqualLitBigError>) 
            ensures
                r == Self::spec_validate(*val),
                r is Err ==> r == Self::spec_validate(*val),
        {
            let val = *val;
            if val < 100i32 {
                return Err(C16I32GreaterOrEqualLitBigError::GreaterOrEqualViolated);
            }
            Ok(())
        }
    }
    impl C16I32GreaterOrEqualLitBig {
        #[inline]
        pub fn into_inner(self) -> (r: i32) 
            ensures
                r == self.spec_view(),
        {
            self.0
        }
    }
    #[cfg(test)]
    mod tests {
        use super::*;
    }

    // ======== inserted by the annotator: spec-mode items only ========
    impl C16I32GreaterOrEqualLitBig {
        pub closed spec fn spec_view(self) -> i32 { self.0 }
        pub closed spec fn spec_sanitize(x: i32) -> i32 { x }
        pub closed spec fn spec_validate(x: i32) -> ::core::result::Result<(), C16I32GreaterOrEqualLitBigError> {
            if !(x >= (100)) { Err(C16I32GreaterOrEqualLitBigError::GreaterOrEqualViolated) } else { Ok(()) }
        }
        pub closed spec fn spec_post(raw: i32, r: ::core::result::Result<Self, C16I32GreaterOrEqualLitBigError>) -> bool { r == Self::spec_try_new(raw) }
        pub closed spec fn spec_try_new(raw: i32) -> ::core::result::Result<Self, C16I32GreaterOrEqualLitBigError> {
            match Self::spec_validate(Self::spec_sanitize(raw)) {
                Ok(_) => Ok(C16I32GreaterOrEqualLitBig(Self::spec_sanitize(raw))),
                Err(e) => Err(e),
            }
        }
        #[verifier::type_invariant]
        closed spec fn spec_inv(self) -> bool { Self::spec_validate(self.0) is Ok }
    }
    impl C16I32GreaterOrEqualLitBig {
        pub proof fn lemma_c16_GreaterOrEqualViolated(x: i32)
            ensures (x >= (100)) <==> (x >= (100)),
        {
        }
    }
}
pub use __nutype_C16I32GreaterOrEqualLitBig__::C16I32GreaterOrEqualLitBig;
pub use __nutype_C16I32GreaterOrEqualLitBig__::C16I32GreaterOrEqualLitBigError;

}

// vacuity canary: this MUST fail; if it verifies the assumptions are inconsistent
proof fn __verif_canary() ensures false {}
} // verus!
fn main() {}
