// GENERATED on every run: real expansions of /repo's macro with contracts inserted in place.
#![allow(unused_imports, dead_code, unused_variables, unused_mut, non_snake_case, non_upper_case_globals, non_camel_case_types)]
use vstd::prelude::*;
use vstd::string::*;
use vstd::std_specs::iter::IteratorSpec;
verus! {
// ---- fixed prelude: ASSUMED contracts on the Rust standard library (trusted, listed in evidence) ----
// Every std function the generated code may call gets its own *uninterpreted* spec symbol, so a
// changed call (trim -> trim_start, to_lowercase -> to_ascii_lowercase, chars().count() -> len())
// fails a postcondition instead of turning into "unsupported".
pub uninterp spec fn spec_trim(s: Seq<char>) -> Seq<char>;
pub uninterp spec fn spec_trim_start(s: Seq<char>) -> Seq<char>;
pub uninterp spec fn spec_trim_end(s: Seq<char>) -> Seq<char>;
pub uninterp spec fn spec_lower(s: Seq<char>) -> Seq<char>;
pub uninterp spec fn spec_upper(s: Seq<char>) -> Seq<char>;
pub uninterp spec fn spec_ascii_lower(s: Seq<char>) -> Seq<char>;
pub uninterp spec fn spec_ascii_upper(s: Seq<char>) -> Seq<char>;

pub assume_specification[ str::trim ](s: &str) -> (r: &str)
    ensures r@ == spec_trim(s@);
pub assume_specification[ str::trim_start ](s: &str) -> (r: &str)
    ensures r@ == spec_trim_start(s@);
pub assume_specification[ str::trim_end ](s: &str) -> (r: &str)
    ensures r@ == spec_trim_end(s@);
pub assume_specification[ str::to_lowercase ](s: &str) -> (r: String)
    ensures r@ == spec_lower(s@);
pub assume_specification[ str::to_uppercase ](s: &str) -> (r: String)
    ensures r@ == spec_upper(s@);
pub assume_specification[ str::to_ascii_lowercase ](s: &str) -> (r: String)
    ensures r@ == spec_ascii_lower(s@);
pub assume_specification[ str::to_ascii_uppercase ](s: &str) -> (r: String)
    ensures r@ == spec_ascii_upper(s@);
pub uninterp spec fn spec_string_byte_len(s: Seq<char>) -> usize;
pub assume_specification[ String::len ](s: &String) -> (r: usize)
    ensures r == spec_string_byte_len(s@);
pub assume_specification<'a>[ <core::str::Chars<'a> as Iterator>::count ](c: core::str::Chars<'a>) -> (r: usize)
    ensures r == c.remaining().len();

global size_of usize == 8;

// opaque std error types that appear as payload of the generated `<X>ParseError` enums
#[verifier::external_type_specification]
#[verifier::external_body]
pub struct ExParseIntError(core::num::ParseIntError);
#[verifier::external_type_specification]
#[verifier::external_body]
pub struct ExParseFloatError(core::num::ParseFloatError);

// `impl Into<String>` arguments: the only facts assumed about the conversion.
pub broadcast axiom fn axiom_into_string_from_string(x: String, s: String)
    requires #[trigger] call_ensures(<String as Into<String>>::into, (x,), s)
    ensures s@ == x@;
pub broadcast axiom fn axiom_into_string_from_str(x: &str, s: String)
    requires #[trigger] call_ensures(<&str as Into<String>>::into, (x,), s)
    ensures s@ == x@;

// Algebraic facts about std's trim / case mapping used only by the C11 (canonical form) lemmas.
// A1-A3 idempotence; A4/A5 case mapping neither creates nor removes edge whitespace, i.e. trim and
// case mapping commute "up to" re-application.  Statements about std, not about nutype.
pub broadcast axiom fn axiom_trim_idem(s: Seq<char>)
    ensures #[trigger] spec_trim(spec_trim(s)) == spec_trim(s);
pub broadcast axiom fn axiom_lower_idem(s: Seq<char>)
    ensures #[trigger] spec_lower(spec_lower(s)) == spec_lower(s);
pub broadcast axiom fn axiom_upper_idem(s: Seq<char>)
    ensures #[trigger] spec_upper(spec_upper(s)) == spec_upper(s);
pub broadcast axiom fn axiom_trim_of_lower_of_trim(s: Seq<char>)
    ensures #[trigger] spec_trim(spec_lower(spec_trim(s))) == spec_lower(spec_trim(s));
pub broadcast axiom fn axiom_trim_of_upper_of_trim(s: Seq<char>)
    ensures #[trigger] spec_trim(spec_upper(spec_trim(s))) == spec_upper(spec_trim(s));
pub broadcast axiom fn axiom_lower_of_trim_of_lower(s: Seq<char>)
    ensures #[trigger] spec_lower(spec_trim(spec_lower(s))) == spec_trim(spec_lower(s));
pub broadcast axiom fn axiom_upper_of_trim_of_upper(s: Seq<char>)
    ensures #[trigger] spec_upper(spec_trim(spec_upper(s))) == spec_trim(spec_upper(s));
pub broadcast group group_c11_std_axioms {
    axiom_trim_idem, axiom_lower_idem, axiom_upper_idem,
    axiom_trim_of_lower_of_trim, axiom_trim_of_upper_of_trim,
    axiom_lower_of_trim_of_lower, axiom_upper_of_trim_of_upper,
}

// ---- auxiliary items of the catalogue (symbolic bounds, custom functions) ----
pub uninterp spec fn SYM_HI_U128() -> u128;
#[verifier::external_body]
pub fn sym_hi_u128() -> (r: u128) ensures r == SYM_HI_U128() { 100 }
pub uninterp spec fn SYM_LO_U128() -> u128;
#[verifier::external_body]
pub fn sym_lo_u128() -> (r: u128) ensures r == SYM_LO_U128() { 3 }

pub mod d_c16_u128_less_sym {
    use super::*;
// NUTYPE_VERIF_INPUT #[nutype(validate(less = sym_hi_u128()), derive(Debug))] pub struct C16U128LessSym(u128);
#[doc(hidden)]
#[allow(
    non_snake_case,
    reason = "we keep original structure name which is probably CamelCase"
)]
mod __nutype_C16U128LessSym__ {
    use super::*;
    #[derive(Debug)]
    pub struct C16U128LessSym(u128);
    #[derive(Debug, Clone, PartialEq, Eq)]
    #[allow(clippy::enum_variant_names)]
    pub enum C16U128LessSymError {
        LessViolated,
    }
    #[verifier::external]
impl ::core::fmt::Display for C16U128LessSymError {
        fn fmt(&self, f: &mut ::core::fmt::Formatter<'_>) -> ::core::fmt::Result {
            match self {
                C16U128LessSymError::LessViolated => write!(
                    f,
                    "{} is too big. The value must be less than {:#?}.",
                    stringify!(C16U128LessSym),
                    sym_hi_u128()
                ),
            }
        }
    }
    #[verifier::external]
impl ::core::error::Error for C16U128LessSymError {
        fn source(&self) -> Option<&(dyn ::core::error::Error + 'static)> {
            None
        }
    }
    impl C16U128LessSym {
        pub fn try_new(raw_value: u128) -> (r: ::core::result::Result<Self, C16U128LessSymError>) 
            ensures
                r == Self::spec_try_new(raw_value),
                r is Err ==> Self::spec_validate(Self::spec_sanitize(raw_value)) == Err::<(), C16U128LessSymError>(r->Err_0),
        {
            let sanitized_value: u128 = Self::__sanitize__(raw_value);
            #[allow(clippy::question_mark)]
            if let Err(e) = Self::__validate__(&sanitized_value) {
                return Err(e);
            }
            Ok(C16U128LessSym(sanitized_value))
        }
        fn __sanitize__(mut value: u128) -> (r: u128) 
            ensures
                r == Self::spec_sanitize(value),
        {
            value
        }
        fn __validate__(val: &u128) -> (r: ::core::result::Result<(), C16U128LessSymError>) 
            ensures
                r == Self::spec_validate(*val),
                r is Err ==> r == Self::spec_validate(*val),
        {
            let val = *val;
            if val >= sym_hi_u128() {
                return Err(C16U128LessSymError::LessViolated);
            }
            Ok(())
        }
    }
    impl C16U128LessSym {
        #[inline]
        pub fn into_inner(self) -> (r: u128) 
            ensures
                r == self.spec_view(),
        {
            self.0
        }
    }
    #[cfg(test)]
    mod tests {
        use super::*;
    }

    // ======== inserted by the annotator: spec-mode items only ========
    impl C16U128LessSym {
        pub closed spec fn spec_view(self) -> u128 { self.0 }
        pub closed spec fn spec_sanitize(x: u128) -> u128 { x }
        pub closed spec fn spec_validate(x: u128) -> ::core::result::Result<(), C16U128LessSymError> {
            if !(x < (SYM_HI_U128())) { Err(C16U128LessSymError::LessViolated) } else { Ok(()) }
        }
        pub closed spec fn spec_post(raw: u128, r: ::core::result::Result<Self, C16U128LessSymError>) -> bool { r == Self::spec_try_new(raw) }
        pub closed spec fn spec_try_new(raw: u128) -> ::core::result::Result<Self, C16U128LessSymError> {
            match Self::spec_validate(Self::spec_sanitize(raw)) {
                Ok(_) => Ok(C16U128LessSym(Self::spec_sanitize(raw))),
                Err(e) => Err(e),
            }
        }
        #[verifier::type_invariant]
        closed spec fn spec_inv(self) -> bool { Self::spec_validate(self.0) is Ok }
    }
    impl C16U128LessSym {
        pub proof fn lemma_c16_LessViolated(x: u128)
            ensures (x < (SYM_HI_U128())) <==> (x < (SYM_HI_U128())),
        {
        }
    }
}
pub use __nutype_C16U128LessSym__::C16U128LessSym;
pub use __nutype_C16U128LessSym__::C16U128LessSymError;

}
pub mod d_c16_u128_less_lit_p {
    use super::*;
// NUTYPE_VERIF_INPUT #[nutype(validate(less = 7), derive(Debug))] pub struct C16U128LessLitP(u128);
#[doc(hidden)]
#[allow(
    non_snake_case,
    reason = "we keep original structure name which is probably CamelCase"
)]
mod __nutype_C16U128LessLitP__ {
    use super::*;
    #[derive(Debug)]
    pub struct C16U128LessLitP(u128);
    #[derive(Debug, Clone, PartialEq, Eq)]
    #[allow(clippy::enum_variant_names)]
    pub enum C16U128LessLitPError {
        LessViolated,
    }
    #[verifier::external]
impl ::core::fmt::Display for C16U128LessLitPError {
        fn fmt(&self, f: &mut ::core::fmt::Formatter<'_>) -> ::core::fmt::Result {
            match self {
                C16U128LessLitPError::LessViolated => write!(
                    f,
                    "{} is too big. The value must be less than {:#?}.",
                    stringify!(C16U128LessLitP),
                    7u128
                ),
            }
        }
    }
    #[verifier::external]
impl ::core::error::Error for C16U128LessLitPError {
        fn source(&self) -> Option<&(dyn ::core::error::Error + 'static)> {
            None
        }
    }
    impl C16U128LessLitP {
        pub fn try_new(raw_value: u128) -> (r: ::core::result::Result<Self, C16U128LessLitPError>) 
            ensures
                r == Self::spec_try_new(raw_value),
                r is Err ==> Self::spec_validate(Self::spec_sanitize(raw_value)) == Err::<(), C16U128LessLitPError>(r->Err_0),
        {
            let sanitized_value: u128 = Self::__sanitize__(raw_value);
            #[allow(clippy::question_mark)]
            if let Err(e) = Self::__validate__(&sanitized_value) {
                return Err(e);
            }
            Ok(C16U128LessLitP(sanitized_value))
        }
        fn __sanitize__(mut value: u128) -> (r: u128) 
            ensures
                r == Self::spec_sanitize(value),
        {
            value
        }
        fn __validate__(val: &u128) -> (r: ::core::result::Result<(), C16U128LessLitPError>) 
            ensures
                r == Self::spec_validate(*val),
                r is Err ==> r == Self::spec_validate(*val),
        {
            let val = *val;
            if val >= 7u128 {
                return Err(C16U128LessLitPError::LessViolated);
            }
            Ok(())
        }
    }
    impl C16U128LessLitP {
        #[inline]
        pub fn into_inner(self) -> (r: u128) 
            ensures
                r == self.spec_view(),
        {
            self.0
        }
    }
    #[cfg(test)]
    mod tests {
        use super::*;
    }

    // ======== inserted by the annotator: spec-mode items only ========
    impl C16U128LessLitP {
        pub closed spec fn spec_view(self) -> u128 { self.0 }
        pub closed spec fn spec_sanitize(x: u128) -> u128 { x }
        pub closed spec fn spec_validate(x: u128) -> ::core::result::Result<(), C16U128LessLitPError> {
            if !(x < (7)) { Err(C16U128LessLitPError::LessViolated) } else { Ok(()) }
        }
        pub closed spec fn spec_post(raw: u128, r: ::core::result::Result<Self, C16U128LessLitPError>) -> bool { r == Self::spec_try_new(raw) }
        pub closed spec fn spec_try_new(raw: u128) -> ::core::result::Result<Self, C16U128LessLitPError> {
            match Self::spec_validate(Self::spec_sanitize(raw)) {
                Ok(_) => Ok(C16U128LessLitP(Self::spec_sanitize(raw))),
                Err(e) => Err(e),
            }
        }
        #[verifier::type_invariant]
        closed spec fn spec_inv(self) -> bool { Self::spec_validate(self.0) is Ok }
    }
    impl C16U128LessLitP {
        pub proof fn lemma_c16_LessViolated(x: u128)
            ensures (x < (7)) <==> (x < (7)),
        {
        }
    }
}
pub use __nutype_C16U128LessLitP__::C16U128LessLitP;
pub use __nutype_C16U128LessLitP__::C16U128LessLitPError;

}
pub mod d_c16_u128_less_lit_big {
    use super::*;
// NUTYPE_VERIF_INPUT #[nutype(validate(less = 100), derive(Debug))] pub struct C16U128LessLitBig(u128);
#[doc(hidden)]
#[allow(
    non_snake_case,
    reason = "we keep original structure name which is probably CamelCase"
)]
mod __nutype_C16U128LessLitBig__ {
    use super::*;
    #[derive(Debug)]
    pub struct C16U128LessLitBig(u128);
    #[derive(Debug, Clone, PartialEq, Eq)]
    #[allow(clippy::enum_variant_names)]
    pub enum C16U128LessLitBigError {
        LessViolated,
    }
    #[verifier::external]
impl ::core::fmt::Display for C16U128LessLitBigError {
        fn fmt(&self, f: &mut ::core::fmt::Formatter<'_>) -> ::core::fmt::Result {
            match self {
                C16U128LessLitBigError::LessViolated => write!(
                    f,
                    "{} is too big. The value must be less than {:#?}.",
                    stringify!(C16U128LessLitBig),
                    100u128
                ),
            }
        }
    }
    #[verifier::external]
impl ::core::error::Error for C16U128LessLitBigError {
        fn source(&self) -> Option<&(dyn ::core::error::Error + 'static)> {
            None
        }
    }
    impl C16U128LessLitBig {
        pub fn try_new(raw_value: u128) -> (r: ::core::result::Result<Self, C16U128LessLitBigError>) 
            ensures
                r == Self::spec_try_new(raw_value),
                r is Err ==> Self::spec_validate(Self::spec_sanitize(raw_value)) == Err::<(), C16U128LessLitBigError>(r->Err_0),
        {
            let sanitized_value: u128 = Self::__sanitize__(raw_value);
            #[allow(clippy::question_mark)]
            if let Err(e) = Self::__validate__(&sanitized_value) {
                return Err(e);
            }
            Ok(C16U128LessLitBig(sanitized_value))
        }
        fn __sanitize__(mut value: u128) -> (r: u128) 
            ensures
                r == Self::spec_sanitize(value),
        {
            value
        }
        fn __validate__(val: &u128) -> (r: ::core::result::Result<(), C16U128LessLitBigError>) 
            ensures
                r == Self::spec_validate(*val),
                r is Err ==> r == Self::spec_validate(*val),
        {
            let val = *val;
            if val >= 100u128 {
                return Err(C16U128LessLitBigError::LessViolated);
            }
            Ok(())
        }
    }
    impl C16U128LessLitBig {
        #[inline]
        pub fn into_inner(self) -> (r: u128) 
            ensures
                r == self.spec_view(),
        {
            self.0
        }
    }
    #[cfg(test)]
    mod tests {
        use super::*;
    }

    // ======== inserted by the annotator: spec-mode items only ========
    impl C16U128LessLitBig {
        pub closed spec fn spec_view(self) -> u128 { self.0 }
        pub closed spec fn spec_sanitize(x: u128) -> u128 { x }
        pub closed spec fn spec_validate(x: u128) -> ::core::result::Result<(), C16U128LessLitBigError> {
            if !(x < (100)) { Err(C16U128LessLitBigError::LessViolated) } else { Ok(()) }
        }
        pub closed spec fn spec_post(raw: u128, r: ::core::result::Result<Self, C16U128LessLitBigError>) -> bool { r == Self::spec_try_new(raw) }
        pub closed spec fn spec_try_new(raw: u128) -> ::core::result::Result<Self, C16U128LessLitBigError> {
            match Self::spec_validate(Self::spec_sanitize(raw)) {
                Ok(_) => Ok(C16U128LessLitBig(Self::spec_sanitize(raw))),
                Err(e) => Err(e),
            }
        }
        #[verifier::type_invariant]
        closed spec fn spec_inv(self) -> bool { Self::spec_validate(self.0) is Ok }
    }
    impl C16U128LessLitBig {
        pub proof fn lemma_c16_LessViolated(x: u128)
            ensures (x < (100)) <==> (x < (100)),
        {
        }
    }
}
pub use __nutype_C16U128LessLitBig__::C16U128LessLitBig;
pub use __nutype_C16U128LessLitBig__::C16U128LessLitBigError;

}
pub mod d_c16_u128_less_or_equal_sym {
    use super::*;
// NUTYPE_VERIF_INPUT #[nutype(validate(less_or_equal = sym_hi_u128()), derive(Debug))] pub struct C16U128LessOrEqualSym(u128);
#[doc(hidden)]
#[allow(
    non_snake_case,
    reason = "we keep original structure name which is probably CamelCase"
)]
mod __nutype_C16U128LessOrEqualSym__ {
    use super::*;
    #[derive(Debug)]
    pub struct C16U128LessOrEqualSym(u128);
    #[derive(Debug, Clone, PartialEq, Eq)]
    #[allow(clippy::enum_variant_names)]
    pub enum C16U128LessOrEqualSymError {
        LessOrEqualViolated,
    }
    #[verifier::external]
impl ::core::fmt::Display for C16U128LessOrEqualSymError {
        fn fmt(&self, f: &mut ::core::fmt::Formatter<'_>) -> ::core::fmt::Result {
            match self {
                C16U128LessOrEqualSymError::LessOrEqualViolated => write!(
                    f,
                    "{} is too big. The value must be less or equal to {:#?}.",
                    stringify!(C16U128LessOrEqualSym),
                    sym_hi_u128()
                ),
            }
        }
    }
    #[verifier::external]
impl ::core::error::Error for C16U128LessOrEqualSymError {
        fn source(&self) -> Option<&(dyn ::core::error::Error + 'static)> {
            None
        }
    }
    impl C16U128LessOrEqualSym {
        pub fn try_new(
            raw_value: u128,
        ) -> (r: ::core::result::Result<Self, C16U128LessOrEqualSymError>) 
            ensures
                r == Self::spec_try_new(raw_value),
                r is Err ==> Self::spec_validate(Self::spec_sanitize(raw_value)) == Err::<(), C16U128LessOrEqualSymError>(r->Err_0),
        {
            let sanitized_value: u128 = Self::__sanitize__(raw_value);
            #[allow(clippy::question_mark)]
            if let Err(e) = Self::__validate__(&sanitized_value) {
                return Err(e);
            }
            Ok(C16U128LessOrEqualSym(sanitized_value))
        }
        fn __sanitize__(mut value: u128) -> (r: u128) 
            ensures
                r == Self::spec_sanitize(value),
        {
            value
        }
        fn __validate__(val: &u128) -> (r: ::core::result::Result<(), C16U128LessOrEqualSymError>) 
            ensures
                r == Self::spec_validate(*val),
                r is Err ==> r == Self::spec_validate(*val),
        {
            let val = *val;
            if val > sym_hi_u128() {
                return Err(C16U128LessOrEqualSymError::LessOrEqualViolated);
            }
            Ok(())
        }
    }
    impl C16U128LessOrEqualSym {
        #[inline]
        pub fn into_inner(self) -> (r: u128) 
            ensures
                r == self.spec_view(),
        {
            self.0
        }
    }
    #[cfg(test)]
    mod tests {
        use super::*;
    }

    // ======== inserted by the annotator: spec-mode items only ========
    impl C16U128LessOrEqualSym {
        pub closed spec fn spec_view(self) -> u128 { self.0 }
        pub closed spec fn spec_sanitize(x: u128) -> u128 { x }
        pub closed spec fn spec_validate(x: u128) -> ::core::result::Result<(), C16U128LessOrEqualSymError> {
            if !(x <= (SYM_HI_U128())) { Err(C16U128LessOrEqualSymError::LessOrEqualViolated) } else { Ok(()) }
        }
        pub closed spec fn spec_post(raw: u128, r: ::core::result::Result<Self, C16U128LessOrEqualSymError>) -> bool { r == Self::spec_try_new(raw) }
        pub closed spec fn spec_try_new(raw: u128) -> ::core::result::Result<Self, C16U128LessOrEqualSymError> {
            match Self::spec_validate(Self::spec_sanitize(raw)) {
                Ok(_) => Ok(C16U128LessOrEqualSym(Self::spec_sanitize(raw))),
                Err(e) => Err(e),
            }
        }
        #[verifier::type_invariant]
        closed spec fn spec_inv(self) -> bool { Self::spec_validate(self.0) is Ok }
    }
    impl C16U128LessOrEqualSym {
        pub proof fn lemma_c16_LessOrEqualViolated(x: u128)
            ensures (x <= (SYM_HI_U128())) <==> (x <= (SYM_HI_U128())),
        {
        }
    }
}
pub use __nutype_C16U128LessOrEqualSym__::C16U128LessOrEqualSym;
pub use __nutype_C16U128LessOrEqualSym__::C16U128LessOrEqualSymError;

}
pub mod d_c16_u128_less_or_equal_lit_p {
    use super::*;
// NUTYPE_VERIF_INPUT #[nutype(validate(less_or_equal = 7), derive(Debug))] pub struct C16U128LessOrEqualLitP(u128);
#[doc(hidden)]
#[allow(
    non_snake_case,
    reason = "we keep original structure name which is probably CamelCase"
)]
mod __nutype_C16U128LessOrEqualLitP__ {
    use super::*;
    #[derive(Debug)]
    pub struct C16U128LessOrEqualLitP(u128);
    #[derive(Debug, Clone, PartialEq, Eq)]
    #[allow(clippy::enum_variant_names)]
    pub enum C16U128LessOrEqualLitPError {
        LessOrEqualViolated,
    }
    #[verifier::external]
impl ::core::fmt::Display for C16U128LessOrEqualLitPError {
        fn fmt(&self, f: &mut ::core::fmt::Formatter<'_>) -> ::core::fmt::Result {
            match self {
                C16U128LessOrEqualLitPError::LessOrEqualViolated => write!(
                    f,
                    "{} is too big. The value must be less or equal to {:#?}.",
                    stringify!(C16U128LessOrEqualLitP),
                    7u128
                ),
            }
        }
    }
    #[verifier::external]
impl ::core::error::Error for C16U128LessOrEqualLitPError {
        fn source(&self) -> Option<&(dyn ::core::error::Error + 'static)> {
            None
        }
    }
    impl C16U128LessOrEqualLitP {
        pub fn try_new(
            raw_value: u128,
        ) -> (r: ::core::result::Result<Self, C16U128LessOrEqualLitPError>) 
            ensures
                r == Self::spec_try_new(raw_value),
                r is Err ==> Self::spec_validate(Self::spec_sanitize(raw_value)) == Err::<(), C16U128LessOrEqualLitPError>(r->Err_0),
        {
            let sanitized_value: u128 = Self::__sanitize__(raw_value);
            #[allow(clippy::question_mark)]
            if let Err(e) = Self::__validate__(&sanitized_value) {
                return Err(e);
            }
            Ok(C16U128LessOrEqualLitP(sanitized_value))
        }
        fn __sanitize__(mut value: u128) -> (r: u128) 
            ensures
                r == Self::spec_sanitize(value),
        {
            value
        }
        fn __validate__(val: &u128) -> (r: ::core::result::Result<(), C16U128LessOrEqualLitPError>) 
            ensures
                r == Self::spec_validate(*val),
                r is Err ==> r == Self::spec_validate(*val),
        {
            let val = *val;
            if val > 7u128 {
                return Err(C16U128LessOrEqualLitPError::LessOrEqualViolated);
            }
            Ok(())
        }
    }
    impl C16U128LessOrEqualLitP {
        #[inline]
        pub fn into_inner(self) -> (r: u128) 
            ensures
                r == self.spec_view(),
        {
            self.0
        }
    }
    #[cfg(test)]
    mod tests {
        use super::*;
    }

    // ======== inserted by the annotator: spec-mode items only ========
    impl C16U128LessOrEqualLitP {
        pub closed spec fn spec_view(self) -> u128 { self.0 }
        pub closed spec fn spec_sanitize(x: u128) -> u128 { x }
        pub closed spec fn spec_validate(x: u128) -> ::core::result::Result<(), C16U128LessOrEqualLitPError> {
            if !(x <= (7)) { Err(C16U128LessOrEqualLitPError::LessOrEqualViolated) } else { Ok(()) }
        }
        pub closed spec fn spec_post(raw: u128, r: ::core::result::Result<Self, C16U128LessOrEqualLitPError>) -> bool { r == Self::spec_try_new(raw) }
        pub closed spec fn spec_try_new(raw: u128) -> ::core::result::Result<Self, C16U128LessOrEqualLitPError> {
            match Self::spec_validate(Self::spec_sanitize(raw)) {
                Ok(_) => Ok(C16U128LessOrEqualLitP(Self::spec_sanitize(raw))),
                Err(e) => Err(e),
            }
        }
        #[verifier::type_invariant]
        closed spec fn spec_inv(self) -> bool { Self::spec_validate(self.0) is Ok }
    }
    impl C16U128LessOrEqualLitP {
        pub proof fn lemma_c16_LessOrEqualViolated(x: u128)
            ensures (x <= (7)) <==> (x <= (7)),
        {
        }
    }
}
pub use __nutype_C16U128LessOrEqualLitP__::C16U128LessOrEqualLitP;
pub use __nutype_C16U128LessOrEqualLitP__::C16U128LessOrEqualLitPError;

}
pub mod d_c16_u128_less_or_equal_lit_big {
    use super::*;
// NUTYPE_VERIF_INPUT #[nutype(validate(less_or_equal = 100), derive(Debug))] pub struct C16U128LessOrEqualLitBig(u128);
#[doc(hidden)]
#[allow(
    non_snake_case,
    reason = "we keep original structure name which is probably CamelCase"
)]
mod __nutype_C16U128LessOrEqualLitBig__ {
    use super::*;
    #[derive(Debug)]
    pub struct C16U128LessOrEqualLitBig(u128);
    #[derive(Debug, Clone, PartialEq, Eq)]
    #[allow(clippy::enum_variant_names)]
    pub enum C16U128LessOrEqualLitBigError {
        LessOrEqualViolated,
    }
    #[verifier::external]
impl ::core::fmt::Display for C16U128LessOrEqualLitBigError {
        fn fmt(&self, f: &mut ::core::fmt::Formatter<'_>) -> ::core::fmt::Result {
            match self {
                C16U128LessOrEqualLitBigError::LessOrEqualViolated => write!(
                    f,
                    "{} is too big. The value must be less or equal to {:#?}.",
                    stringify!(C16U128LessOrEqualLitBig),
                    100u128
                ),
            }
        }
    }
    #[verifier::external]
impl ::core::error::Error for C16U128LessOrEqualLitBigError {
        fn source(&self) -> Option<&(dyn ::core::error::Error + 'static)> {
            None
        }
    }
    impl C16U128LessOrEqualLitBig {
        pub fn try_new(
            raw_value: u128,
        ) -> (r: ::core::result::Result<Self, C16U128LessOrEqualLitBigError>) 
            ensures
                r == Self::spec_try_new(raw_value),
                r is Err ==> Self::spec_validate(Self::spec_sanitize(raw_value)) == Err::<(), C16U128LessOrEqualLitBigError>(r->Err_0),
        {
            let sanitized_value: u128 = Self::__sanitize__(raw_value);
            #[allow(clippy::question_mark)]
            if let Err(e) = Self::__validate__(&sanitized_value) {
                return Err(e);
            }
            Ok(C16U128LessOrEqualLitBig(sanitized_value))
        }
        fn __sanitize__(mut value: u128) -> (r: u128) 
            ensures
                r == Self::spec_sanitize(value),
        {
            value
        }
        fn __validate__(val: &u128) -> (r: ::core::result::Result<(), C16U128LessOrEqualLitBigError>) 
            ensures
                r == Self::spec_validate(*val),
                r is Err ==> r == Self::spec_validate(*val),
        {
            let val = *val;
            if val > 100u128 {
                return Err(C16U128LessOrEqualLitBigError::LessOrEqualViolated);
            }
            Ok(())
        }
    }
    impl C16U128LessOrEqualLitBig {
        #[inline]
        pub fn into_inner(self) -> (r: u128) 
            ensures
                r == self.spec_view(),
        {
            self.0
        }
    }
    #[cfg(test)]
    mod tests {
        use super::*;
    }

    // ======== inserted by the annotator: spec-mode items only ========
    impl C16U128LessOrEqualLitBig {
        pub closed spec fn spec_view(self) -> u128 { self.0 }
        pub closed spec fn spec_sanitize(x: u128) -> u128 { x }
        pub closed spec fn spec_validate(x: u128) -> ::core::result::Result<(), C16U128LessOrEqualLitBigError> {
            if !(x <= (100)) { Err(C16U128LessOrEqualLitBigError::LessOrEqualViolated) } else { Ok(()) }
        }
        pub closed spec fn spec_post(raw: u128, r: ::core::result::Result<Self, C16U128LessOrEqualLitBigError>) -> bool { r == Self::spec_try_new(raw) }
        pub closed spec fn spec_try_new(raw: u128) -> ::core::result::Result<Self, C16U128LessOrEqualLitBigError> {
            match Self::spec_validate(Self::spec_sanitize(raw)) {
                Ok(_) => Ok(C16U128LessOrEqualLitBig(Self::spec_sanitize(raw))),
                Err(e) => Err(e),
            }
        }
        #[verifier::type_invariant]
        closed spec fn spec_inv(self) -> bool { Self::spec_validate(self.0) is Ok }
    }
    impl C16U128LessOrEqualLitBig {
        pub proof fn lemma_c16_LessOrEqualViolated(x: u128)
            ensures (x <= (100)) <==> (x <= (100)),
        {
        }
    }
}
pub use __nutype_C16U128LessOrEqualLitBig__::C16U128LessOrEqualLitBig;
pub use __nutype_C16U128LessOrEqualLitBig__::C16U128LessOrEqualLitBigError;

}
pub mod d_c16_u128_ge_lt_embed {
    use super::*;
// NUTYPE_VERIF_INPUT #[nutype(validate(greater_or_equal = sym_lo_u128(), less = sym_hi_u128()), derive(Debug))] pub struct C16U128GeLtEmbed(u128);
#[doc(hidden)]
#[allow(
    non_snake_case,
    reason = "we keep original structure name which is probably CamelCase"
)]
mod __nutype_C16U128GeLtEmbed__ {
    use super::*;
    #[derive(Debug)]
    pub struct C16U128GeLtEmbed(u128);
    #[derive(Debug, Clone, PartialEq, Eq)]
    #[allow(clippy::enum_variant_names)]
    pub enum C16U128GeLtEmbedError {
        GreaterOrEqualViolated,
        LessViolated,
    }
    #[verifier::external]
impl ::core::fmt::Display for C16U128GeLtEmbedError {
        fn fmt(&self, f: &mut ::core::fmt::Formatter<'_>) -> ::core::fmt::Result {
            match self {
                C16U128GeLtEmbedError::GreaterOrEqualViolated => write!(
                    f,
                    "{} is too small. The value must be greater or equal to {:#?}.",
                    stringify!(C16U128GeLtEmbed),
                    sym_lo_u128()
                ),
                C16U128GeLtEmbedError::LessViolated => write!(
                    f,
                    "{} is too big. The value must be less than {:#?}.",
                    stringify!(C16U128GeLtEmbed),
                    sym_hi_u128()
                ),
            }
        }
    }
    #[verifier::external]
impl ::core::error::Error for C16U128GeLtEmbedError {
        fn source(&self) -> Option<&(dyn ::core::error::Error + 'static)> {
            None
        }
    }
    impl C16U128GeLtEmbed {
        pub fn try_new(raw_value: u128) -> (r: ::core::result::Result<Self, C16U128GeLtEmbedError>) 
            ensures
                r == Self::spec_try_new(raw_value),
                r is Err ==> Self::spec_validate(Self::spec_sanitize(raw_value)) == Err::<(), C16U128GeLtEmbedError>(r->Err_0),
        {
            let sanitized_value: u128 = Self::__sanitize__(raw_value);
            #[allow(clippy::question_mark)]
            if let Err(e) = Self::__validate__(&sanitized_value) {
                return Err(e);
            }
            Ok(C16U128GeLtEmbed(sanitized_value))
        }
        fn __sanitize__(mut value: u128) -> (r: u128) 
            ensures
                r == Self::spec_sanitize(value),
        {
            value
        }
        fn __validate__(val: &u128) -> (r: ::core::result::Result<(), C16U128GeLtEmbedError>) 
            ensures
                r == Self::spec_validate(*val),
                r is Err ==> r == Self::spec_validate(*val),
        {
            let val = *val;
            if val < sym_lo_u128() {
                return Err(C16U128GeLtEmbedError::GreaterOrEqualViolated);
            }
            if val >= sym_hi_u128() {
                return Err(C16U128GeLtEmbedError::LessViolated);
            }
            Ok(())
        }
    }
    impl C16U128GeLtEmbed {
        #[inline]
        pub fn into_inner(self) -> (r: u128) 
            ensures
                r == self.spec_view(),
        {
            self.0
        }
    }
    #[cfg(test)]
    mod tests {
        use super::*;
        #[test]
        fn should_have_consistent_lower_and_upper_boundaries() {
            assert!
            (sym_hi_u128() >= sym_lo_u128(),
            "\nInconsistent lower and upper boundaries for type `C16U128GeLtEmbed`\nThe upper boundary `sym_hi_u128()` must be greater than or equal to the lower boundary `sym_lo_u128()`\nNote: the test is generated automatically by #[nutype] macro.\n");
        }
    }

    // ======== inserted by the annotator: spec-mode items only ========
    impl C16U128GeLtEmbed {
        pub closed spec fn spec_view(self) -> u128 { self.0 }
        pub closed spec fn spec_sanitize(x: u128) -> u128 { x }
        pub closed spec fn spec_validate(x: u128) -> ::core::result::Result<(), C16U128GeLtEmbedError> {
            if !(x >= (SYM_LO_U128())) { Err(C16U128GeLtEmbedError::GreaterOrEqualViolated) } else if !(x < (SYM_HI_U128())) { Err(C16U128GeLtEmbedError::LessViolated) } else { Ok(()) }
        }
        pub closed spec fn spec_post(raw: u128, r: ::core::result::Result<Self, C16U128GeLtEmbedError>) -> bool { r == Self::spec_try_new(raw) }
        pub closed spec fn spec_try_new(raw: u128) -> ::core::result::Result<Self, C16U128GeLtEmbedError> {
            match Self::spec_validate(Self::spec_sanitize(raw)) {
                Ok(_) => Ok(C16U128GeLtEmbed(Self::spec_sanitize(raw))),
                Err(e) => Err(e),
            }
        }
        #[verifier::type_invariant]
        closed spec fn spec_inv(self) -> bool { Self::spec_validate(self.0) is Ok }
    }
    impl C16U128GeLtEmbed {
        pub proof fn lemma_c16_GreaterOrEqualViolated(x: u128)
            ensures (x >= (SYM_LO_U128())) <==> (x >= (SYM_LO_U128())),
        {
        }
    }
    impl C16U128GeLtEmbed {
        pub proof fn lemma_c16_LessViolated(x: u128)
            ensures (x < (SYM_HI_U128())) <==> (x < (SYM_HI_U128())),
        {
        }
    }
}
pub use __nutype_C16U128GeLtEmbed__::C16U128GeLtEmbed;
pub use __nutype_C16U128GeLtEmbed__::C16U128GeLtEmbedError;

}
pub mod d_c16_u128_le_gt_embed {
    use super::*;
// NUTYPE_VERIF_INPUT #[nutype(validate(less_or_equal = sym_hi_u128(), greater = sym_lo_u128()), derive(Debug))] pub struct C16U128LeGtEmbed(u128);
#[doc(hidden)]
#[allow(
    non_snake_case,
    reason = "we keep original structure name which is probably CamelCase"
)]
mod __nutype_C16U128LeGtEmbed__ {
    use super::*;
    #[derive(Debug)]
    pub struct C16U128LeGtEmbed(u128);
    #[derive(Debug, Clone, PartialEq, Eq)]
    #[allow(clippy::enum_variant_names)]
    pub enum C16U128LeGtEmbedError {
        LessOrEqualViolated,
        GreaterViolated,
    }
    #[verifier::external]
impl ::core::fmt::Display for C16U128LeGtEmbedError {
        fn fmt(&self, f: &mut ::core::fmt::Formatter<'_>) -> ::core::fmt::Result {
            match self {
                C16U128LeGtEmbedError::LessOrEqualViolated => write!(
                    f,
                    "{} is too big. The value must be less or equal to {:#?}.",
                    stringify!(C16U128LeGtEmbed),
                    sym_hi_u128()
                ),
                C16U128LeGtEmbedError::GreaterViolated => write!(
                    f,
                    "{} is too small. The value must be greater than {:#?}.",
                    stringify!(C16U128LeGtEmbed),
                    sym_lo_u128()
                ),
            }
        }
    }
    #[verifier::external]
impl ::core::error::Error for C16U128LeGtEmbedError {
        fn source(&self) -> Option<&(dyn ::core::error::Error + 'static)> {
            None
        }
    }
    impl C16U128LeGtEmbed {
        pub fn try_new(raw_value: u128) -> (r: ::core::result::Result<Self, C16U128LeGtEmbedError>) 
            ensures
                r == Self::spec_try_new(raw_value),
                r is Err ==> Self::spec_validate(Self::spec_sanitize(raw_value)) == Err::<(), C16U128LeGtEmbedError>(r->Err_0),
        {
            let sanitized_value: u128 = Self::__sanitize__(raw_value);
            #[allow(clippy::question_mark)]
            if let Err(e) = Self::__validate__(&sanitized_value) {
                return Err(e);
            }
            Ok(C16U128LeGtEmbed(sanitized_value))
        }
        fn __sanitize__(mut value: u128) -> (r: u128) 
            ensures
                r == Self::spec_sanitize(value),
        {
            value
        }
        fn __validate__(val: &u128) -> (r: ::core::result::Result<(), C16U128LeGtEmbedError>) 
            ensures
                r == Self::spec_validate(*val),
                r is Err ==> r == Self::spec_validate(*val),
        {
            let val = *val;
            if val > sym_hi_u128() {
                return Err(C16U128LeGtEmbedError::LessOrEqualViolated);
            }
            if val <= sym_lo_u128() {
                return Err(C16U128LeGtEmbedError::GreaterViolated);
            }
            Ok(())
        }
    }
    impl C16U128LeGtEmbed {
        #[inline]
        pub fn into_inner(self) -> (r: u128) 
            ensures
                r == self.spec_view(),
        {
            self.0
        }
    }
    #[cfg(test)]
    mod tests {
        use super::*;
        #[test]
        fn should_have_consistent_lower_and_upper_boundaries() {
            assert!
            (sym_hi_u128() >= sym_lo_u128(),
            "\nInconsistent lower and upper boundaries for type `C16U128LeGtEmbed`\nThe upper boundary `sym_hi_u128()` must be greater than or equal to the lower boundary `sym_lo_u128()`\nNote: the test is generated automatically by #[nutype] macro.\n");
        }
    }

    // ======== inserted by the annotator: spec-mode items only ========
    impl C16U128LeGtEmbed {
        pub closed spec fn spec_view(self) -> u128 { self.0 }
        pub closed spec fn spec_sanitize(x: u128) -> u128 { x }
        pub closed spec fn spec_validate(x: u128) -> ::core::result::Result<(), C16U128LeGtEmbedError> {
            if !(x <= (SYM_HI_U128())) { Err(C16U128LeGtEmbedError::LessOrEqualViolated) } else if !(x > (SYM_LO_U128())) { Err(C16U128LeGtEmbedError::GreaterViolated) } else { Ok(()) }
        }
        pub closed spec fn spec_post(raw: u128, r: ::core::result::Result<Self, C16U128LeGtEmbedError>) -> bool { r == Self::spec_try_new(raw) }
        pub closed spec fn spec_try_new(raw: u128) -> ::core::result::Result<Self, C16U128LeGtEmbedError> {
            match Self::spec_validate(Self::spec_sanitize(raw)) {
                Ok(_) => Ok(C16U128LeGtEmbed(Self::spec_sanitize(raw))),
                Err(e) => Err(e),
            }
        }
        #[verifier::type_invariant]
        closed spec fn spec_inv(self) -> bool { Self::spec_validate(self.0) is Ok }
    }
    impl C16U128LeGtEmbed {
        pub proof fn lemma_c16_LessOrEqualViolated(x: u128)
            ensures (x <= (SYM_HI_U128())) <==> (x <= (SYM_HI_U128())),
        {
        }
    }
    impl C16U128LeGtEmbed {
        pub proof fn lemma_c16_GreaterViolated(x: u128)
            ensures (x > (SYM_LO_U128())) <==> (x > (SYM_LO_U128())),
        {
        }
    }
}
pub use __nutype_C16U128LeGtEmbed__::C16U128LeGtEmbed;
pub use __nutype_C16U128LeGtEmbed__::C16U128LeGtEmbedError;

}

// vacuity canary: this MUST fail; if it verifies the assumptions are inconsistent
proof fn __verif_canary() ensures false {}
} // verus!
fn main() {}
