// GENERATED on every run: real expansions of /repo's macro with contracts inserted in place.
#![allow(unused_imports, dead_code, unused_variables, unused_mut, non_snake_case, non_upper_case_globals, non_camel_case_types)]
use vstd::prelude::*;
use vstd::string::*;
use vstd::std_specs::iter::IteratorSpec;
verus! {
// ---- fixed prelude: ASSUMED contracts on the Rust standard library (trusted, listed in evidence) ----
// Every std function the generated code may call gets its own *uninterpreted* spec symbol, so a
// changed call (trim -> trim_start, to_lowercase -> to_ascii_lowercase, chars().count() -> len())
// fails a postcondition instead of turning into "unsupported".
pub uninterp spec fn spec_trim(s: Seq<char>) -> Seq<char>;
pub uninterp spec fn spec_trim_start(s: Seq<char>) -> Seq<char>;
pub uninterp spec fn spec_trim_end(s: Seq<char>) -> Seq<char>;
pub uninterp spec fn spec_lower(s: Seq<char>) -> Seq<char>;
pub uninterp spec fn spec_upper(s: Seq<char>) -> Seq<char>;
pub uninterp spec fn spec_ascii_lower(s: Seq<char>) -> Seq<char>;
pub uninterp spec fn spec_ascii_upper(s: Seq<char>) -> Seq<char>;

pub assume_specification[ str::trim ](s: &str) -> (r: &str)
    ensures r@ == spec_trim(s@);
pub assume_specification[ str::trim_start ](s: &str) -> (r: &str)
    ensures r@ == spec_trim_start(s@);
pub assume_specification[ str::trim_end ](s: &str) -> (r: &str)
    ensures r@ == spec_trim_end(s@);
pub assume_specification[ str::to_lowercase ](s: &str) -> (r: String)
    ensures r@ == spec_lower(s@);
pub assume_specification[ str::to_uppercase ](s: &str) -> (r: String)
    ensures r@ == spec_upper(s@);
pub assume_specification[ str::to_ascii_lowercase ](s: &str) -> (r: String)
    ensures r@ == spec_ascii_lower(s@);
pub assume_specification[ str::to_ascii_uppercase ](s: &str) -> (r: String)
    ensures r@ == spec_ascii_upper(s@);
pub uninterp spec fn spec_string_byte_len(s: Seq<char>) -> usize;
pub assume_specification[ String::len ](s: &String) -> (r: usize)
    ensures r == spec_string_byte_len(s@);
pub assume_specification<'a>[ <core::str::Chars<'a> as Iterator>::count ](c: core::str::Chars<'a>) -> (r: usize)
    ensures r == c.remaining().len();

global size_of usize == 8;

// opaque std error types that appear as payload of the generated `<X>ParseError` enums
#[verifier::external_type_specification]
#[verifier::external_body]
pub struct ExParseIntError(core::num::ParseIntError);
#[verifier::external_type_specification]
#[verifier::external_body]
pub struct ExParseFloatError(core::num::ParseFloatError);

// `impl Into<String>` arguments: the only facts assumed about the conversion.
pub broadcast axiom fn axiom_into_string_from_string(x: String, s: String)
    requires #[trigger] call_ensures(<String as Into<String>>::into, (x,), s)
    ensures s@ == x@;
pub broadcast axiom fn axiom_into_string_from_str(x: &str, s: String)
    requires #[trigger] call_ensures(<&str as Into<String>>::into, (x,), s)
    ensures s@ == x@;

// Algebraic facts about std's trim / case mapping used only by the C11 (canonical form) lemmas.
// A1-A3 idempotence; A4/A5 case mapping neither creates nor removes edge whitespace, i.e. trim and
// case mapping commute "up to" re-application.  Statements about std, not about nutype.
pub broadcast axiom fn axiom_trim_idem(s: Seq<char>)
    ensures #[trigger] spec_trim(spec_trim(s)) == spec_trim(s);
pub broadcast axiom fn axiom_lower_idem(s: Seq<char>)
    ensures #[trigger] spec_lower(spec_lower(s)) == spec_lower(s);
pub broadcast axiom fn axiom_upper_idem(s: Seq<char>)
    ensures #[trigger] spec_upper(spec_upper(s)) == spec_upper(s);
pub broadcast axiom fn axiom_trim_of_lower_of_trim(s: Seq<char>)
    ensures #[trigger] spec_trim(spec_lower(spec_trim(s))) == spec_lower(spec_trim(s));
pub broadcast axiom fn axiom_trim_of_upper_of_trim(s: Seq<char>)
    ensures #[trigger] spec_trim(spec_upper(spec_trim(s))) == spec_upper(spec_trim(s));
pub broadcast axiom fn axiom_lower_of_trim_of_lower(s: Seq<char>)
    ensures #[trigger] spec_lower(spec_trim(spec_lower(s))) == spec_trim(spec_lower(s));
pub broadcast axiom fn axiom_upper_of_trim_of_upper(s: Seq<char>)
    ensures #[trigger] spec_upper(spec_trim(spec_upper(s))) == spec_trim(spec_upper(s));
pub broadcast group group_c11_std_axioms {
    axiom_trim_idem, axiom_lower_idem, axiom_upper_idem,
    axiom_trim_of_lower_of_trim, axiom_trim_of_upper_of_trim,
    axiom_lower_of_trim_of_lower, axiom_upper_of_trim_of_upper,
}

// ---- auxiliary items of the catalogue (symbolic bounds, custom functions) ----
pub uninterp spec fn SYM_HI_U8() -> u8;
#[verifier::external_body]
pub fn sym_hi_u8() -> (r: u8) ensures r == SYM_HI_U8() { 100 }
pub uninterp spec fn SYM_LO_U8() -> u8;
#[verifier::external_body]
pub fn sym_lo_u8() -> (r: u8) ensures r == SYM_LO_U8() { 3 }

pub mod d_c16_u8_less_sym {
    use super::*;
// NUTYPE_VERIF_INPUT #[nutype(validate(less = sym_hi_u8()), derive(Debug))] pub struct C16U8LessSym(u8);
#[doc(hidden)]
#[allow(
    non_snake_case,
    reason = "we keep original structure name which is probably CamelCase"
)]
mod __nutype_C16U8LessSym__ {
    use super::*;
    #[derive(Debug)]
    pub struct C16U8LessSym(u8);
    #[derive(Debug, Clone, PartialEq, Eq)]
    #[allow(clippy::enum_variant_names)]
    pub enum C16U8LessSymError {
        LessViolated,
    }
    #[verifier::external]
impl ::core::fmt::Display for C16U8LessSymError {
        fn fmt(&self, f: &mut ::core::fmt::Formatter<'_>) -> ::core::fmt::Result {
            match self {
                C16U8LessSymError::LessViolated => write!(
                    f,
                    "{} is too big. The value must be less than {:#?}.",
                    stringify!(C16U8LessSym),
                    sym_hi_u8()
                ),
            }
        }
    }
    #[verifier::external]
impl ::core::error::Error for C16U8LessSymError {
        fn source(&self) -> Option<&(dyn ::core::error::Error + 'static)> {
            None
        }
    }
    impl C16U8LessSym {
        pub fn try_new(raw_value: u8) -> (r: ::core::result::Result<Self, C16U8LessSymError>) 
            ensures
                r == Self::spec_try_new(raw_value),
                r is Err ==> Self::spec_validate(Self::spec_sanitize(raw_value)) == Err::<(), C16U8LessSymError>(r->Err_0),
        {
            let sanitized_value: u8 = Self::__sanitize__(raw_value);
            #[allow(clippy::question_mark)]
            if let Err(e) = Self::__validate__(&sanitized_value) {
                return Err(e);
            }
            Ok(C16U8LessSym(sanitized_value))
        }
        fn __sanitize__(mut value: u8) -> (r: u8) 
            ensures
                r == Self::spec_sanitize(value),
        {
            value
        }
        fn __validate__(val: &u8) -> (r: ::core::result::Result<(), C16U8LessSymError>) 
            ensures
                r == Self::spec_validate(*val),
                r is Err ==> r == Self::spec_validate(*val),
        {
            let val = *val;
            if val >= sym_hi_u8() {
                return Err(C16U8LessSymError::LessViolated);
            }
            Ok(())
        }
    }
    impl C16U8LessSym {
        #[inline]
        pub fn into_inner(self) -> (r: u8) 
            ensures
                r == self.spec_view(),
        {
            self.0
        }
    }
    #[cfg(test)]
    mod tests {
        use super::*;
    }

    // ======== inserted by the annotator: spec-mode items only ========
    impl C16U8LessSym {
        pub closed spec fn spec_view(self) -> u8 { self.0 }
        pub closed spec fn spec_sanitize(x: u8) -> u8 { x }
        pub closed spec fn spec_validate(x: u8) -> ::core::result::Result<(), C16U8LessSymError> {
            if !(x < (SYM_HI_U8())) { Err(C16U8LessSymError::LessViolated) } else { Ok(()) }
        }
        pub closed spec fn spec_post(raw: u8, r: ::core::result::Result<Self, C16U8LessSymError>) -> bool { r == Self::spec_try_new(raw) }
        pub closed spec fn spec_try_new(raw: u8) -> ::core::result::Result<Self, C16U8LessSymError> {
            match Self::spec_validate(Self::spec_sanitize(raw)) {
                Ok(_) => Ok(C16U8LessSym(Self::spec_sanitize(raw))),
                Err(e) => Err(e),
            }
        }
        #[verifier::type_invariant]
        closed spec fn spec_inv(self) -> bool { Self::spec_validate(self.0) is Ok }
    }
    impl C16U8LessSym {
        pub proof fn lemma_c16_LessViolated(x: u8)
            ensures (x < (SYM_HI_U8())) <==> (x < (SYM_HI_U8())),
        {
        }
    }
}
pub use __nutype_C16U8LessSym__::C16U8LessSym;
pub use __nutype_C16U8LessSym__::C16U8LessSymError;

}
pub mod d_c16_u8_less_lit_p {
    use super::*;
// NUTYPE_VERIF_INPUT #[nutype(validate(less = 7), derive(Debug))] pub struct C16U8LessLitP(u8);
#[doc(hidden)]
#[allow(
    non_snake_case,
    reason = "we keep original structure name which is probably CamelCase"
)]
mod __nutype_C16U8LessLitP__ {
    use super::*;
    #[derive(Debug)]
    pub struct C16U8LessLitP(u8);
    #[derive(Debug, Clone, PartialEq, Eq)]
    #[allow(clippy::enum_variant_names)]
    pub enum C16U8LessLitPError {
        LessViolated,
    }
    #[verifier::external]
impl ::core::fmt::Display for C16U8LessLitPError {
        fn fmt(&self, f: &mut ::core::fmt::Formatter<'_>) -> ::core::fmt::Result {
            match self {
                C16U8LessLitPError::LessViolated => write!(
                    f,
                    "{} is too big. The value must be less than {:#?}.",
                    stringify!(C16U8LessLitP),
                    7u8
                ),
            }
        }
    }
    #[verifier::external]
impl ::core::error::Error for C16U8LessLitPError {
        fn source(&self) -> Option<&(dyn ::core::error::Error + 'static)> {
            None
        }
    }
    impl C16U8LessLitP {
        pub fn try_new(raw_value: u8) -> (r: ::core::result::Result<Self, C16U8LessLitPError>) 
            ensures
                r == Self::spec_try_new(raw_value),
                r is Err ==> Self::spec_validate(Self::spec_sanitize(raw_value)) == Err::<(), C16U8LessLitPError>(r->Err_0),
        {
            let sanitized_value: u8 = Self::__sanitize__(raw_value);
            #[allow(clippy::question_mark)]
            if let Err(e) = Self::__validate__(&sanitized_value) {
                return Err(e);
            }
            Ok(C16U8LessLitP(sanitized_value))
        }
        fn __sanitize__(mut value: u8) -> (r: u8) 
            ensures
                r == Self::spec_sanitize(value),
        {
            value
        }
        fn __validate__(val: &u8) -> (r: ::core::result::Result<(), C16U8LessLitPError>) 
            ensures
                r == Self::spec_validate(*val),
                r is Err ==> r == Self::spec_validate(*val),
        {
            let val = *val;
            if val >= 7u8 {
                return Err(C16U8LessLitPError::LessViolated);
            }
            Ok(())
        }
    }
    impl C16U8LessLitP {
        #[inline]
        pub fn into_inner(self) -> (r: u8) 
            ensures
                r == self.spec_view(),
        {
            self.0
        }
    }
    #[cfg(test)]
    mod tests {
        use super::*;
    }

    // ======== inserted by the annotator: spec-mode items only ========
    impl C16U8LessLitP {
        pub closed spec fn spec_view(self) -> u8 { self.0 }
        pub closed spec fn spec_sanitize(x: u8) -> u8 { x }
        pub closed spec fn spec_validate(x: u8) -> ::core::result::Result<(), C16U8LessLitPError> {
            if !(x < (7)) { Err(C16U8LessLitPError::LessViolated) } else { Ok(()) }
        }
        pub closed spec fn spec_post(raw: u8, r: ::core::result::Result<Self, C16U8LessLitPError>) -> bool { r == Self::spec_try_new(raw) }
        pub closed spec fn spec_try_new(raw: u8) -> ::core::result::Result<Self, C16U8LessLitPError> {
            match Self::spec_validate(Self::spec_sanitize(raw)) {
                Ok(_) => Ok(C16U8LessLitP(Self::spec_sanitize(raw))),
                Err(e) => Err(e),
            }
        }
        #[verifier::type_invariant]
        closed spec fn spec_inv(self) -> bool { Self::spec_validate(self.0) is Ok }
    }
    impl C16U8LessLitP {
        pub proof fn lemma_c16_LessViolated(x: u8)
            ensures (x < (7)) <==> (x < (7)),
        {
        }
    }
}
pub use __nutype_C16U8LessLitP__::C16U8LessLitP;
pub use __nutype_C16U8LessLitP__::C16U8LessLitPError;

}
pub mod d_c16_u8_less_lit_big {
    use super::*;
// NUTYPE_VERIF_INPUT #[nutype(validate(less = 100), derive(Debug))] pub struct C16U8LessLitBig(u8);
#[doc(hidden)]
#[allow(
    non_snake_case,
    reason = "we keep original structure name which is probably CamelCase"
)]
mod __nutype_C16U8LessLitBig__ {
    use super::*;
    #[derive(Debug)]
    pub struct C16U8LessLitBig(u8);
    #[derive(Debug, Clone, PartialEq, Eq)]
    #[allow(clippy::enum_variant_names)]
    pub enum C16U8LessLitBigError {
        LessViolated,
    }
    #[verifier::external]
impl ::core::fmt::Display for C16U8LessLitBigError {
        fn fmt(&self, f: &mut ::core::fmt::Formatter<'_>) -> ::core::fmt::Result {
            match self {
                C16U8LessLitBigError::LessViolated => write!(
                    f,
                    "{} is too big. The value must be less than {:#?}.",
                    stringify!(C16U8LessLitBig),
                    100u8
                ),
            }
        }
    }
    #[verifier::external]
impl ::core::error::Error for C16U8LessLitBigError {
        fn source(&self) -> Option<&(dyn ::core::error::Error + 'static)> {
            None
        }
    }
    impl C16U8LessLitBig {
        pub fn try_new(raw_value: u8) -> (r: ::core::result::Result<Self, C16U8LessLitBigError>) 
            ensures
                r == Self::spec_try_new(raw_value),
                r is Err ==> Self::spec_validate(Self::spec_sanitize(raw_value)) == Err::<(), C16U8LessLitBigError>(r->Err_0),
        {
            let sanitized_value: u8 = Self::__sanitize__(raw_value);
            #[allow(clippy::question_mark)]
            if let Err(e) = Self::__validate__(&sanitized_value) {
                return Err(e);
            }
            Ok(C16U8LessLitBig(sanitized_value))
        }
        fn __sanitize__(mut value: u8) -> (r: u8) 
            ensures
                r == Self::spec_sanitize(value),
        {
            value
        }
        fn __validate__(val: &u8) -> (r: ::core::result::Result<(), C16U8LessLitBigError>) 
            ensures
                r == Self::spec_validate(*val),
                r is Err ==> r == Self::spec_validate(*val),
        {
            let val = *val;
            if val >= 100u8 {
                return Err(C16U8LessLitBigError::LessViolated);
            }
            Ok(())
        }
    }
    impl C16U8LessLitBig {
        #[inline]
        pub fn into_inner(self) -> (r: u8) 
            ensures
                r == self.spec_view(),
        {
            self.0
        }
    }
    #[cfg(test)]
    mod tests {
        use super::*;
    }

    // ======== inserted by the annotator: spec-mode items only ========
    impl C16U8LessLitBig {
        pub closed spec fn spec_view(self) -> u8 { self.0 }
        pub closed spec fn spec_sanitize(x: u8) -> u8 { x }
        pub closed spec fn spec_validate(x: u8) -> ::core::result::Result<(), C16U8LessLitBigError> {
            if !(x < (100)) { Err(C16U8LessLitBigError::LessViolated) } else { Ok(()) }
        }
        pub closed spec fn spec_post(raw: u8, r: ::core::result::Result<Self, C16U8LessLitBigError>) -> bool { r == Self::spec_try_new(raw) }
        pub closed spec fn spec_try_new(raw: u8) -> ::core::result::Result<Self, C16U8LessLitBigError> {
            match Self::spec_validate(Self::spec_sanitize(raw)) {
                Ok(_) => Ok(C16U8LessLitBig(Self::spec_sanitize(raw))),
                Err(e) => Err(e),
            }
        }
        #[verifier::type_invariant]
        closed spec fn spec_inv(self) -> bool { Self::spec_validate(self.0) is Ok }
    }
    impl C16U8LessLitBig {
        pub proof fn lemma_c16_LessViolated(x: u8)
            ensures (x < (100)) <==> (x < (100)),
        {
        }
    }
}
pub use __nutype_C16U8LessLitBig__::C16U8LessLitBig;
pub use __nutype_C16U8LessLitBig__::C16U8LessLitBigError;

}
pub mod d_c16_u8_less_or_equal_sym {
    use super::*;
// NUTYPE_VERIF_INPUT #[nutype(validate(less_or_equal = sym_hi_u8()), derive(Debug))] pub struct C16U8LessOrEqualSym(u8);
#[doc(hidden)]
#[allow(
    non_snake_case,
    reason = "we keep original structure name which is probably CamelCase"
)]
mod __nutype_C16U8LessOrEqualSym__ {
    use super::*;
    #[derive(Debug)]
    pub struct C16U8LessOrEqualSym(u8);
    #[derive(Debug, Clone, PartialEq, Eq)]
    #[allow(clippy::enum_variant_names)]
    pub enum C16U8LessOrEqualSymError {
        LessOrEqualViolated,
    }
    #[verifier::external]
impl ::core::fmt::Display for C16U8LessOrEqualSymError {
        fn fmt(&self, f: &mut ::core::fmt::Formatter<'_>) -> ::core::fmt::Result {
            match self {
                C16U8LessOrEqualSymError::LessOrEqualViolated => write!(
                    f,
                    "{} is too big. The value must be less or equal to {:#?}.",
                    stringify!(C16U8LessOrEqualSym),
                    sym_hi_u8()
                ),
            }
        }
    }
    #[verifier::external]
impl ::core::error::Error for C16U8LessOrEqualSymError {
        fn source(&self) -> Option<&(dyn ::core::error::Error + 'static)> {
            None
        }
    }
    impl C16U8LessOrEqualSym {
        pub fn try_new(raw_value: u8) -> (r: ::core::result::Result<Self, C16U8LessOrEqualSymError>) 
            ensures
                r == Self::spec_try_new(raw_value),
                r is Err ==> Self::spec_validate(Self::spec_sanitize(raw_value)) == Err::<(), C16U8LessOrEqualSymError>(r->Err_0),
        {
            let sanitized_value: u8 = Self::__sanitize__(raw_value);
            #[allow(clippy::question_mark)]
            if let Err(e) = Self::__validate__(&sanitized_value) {
                return Err(e);
            }
            Ok(C16U8LessOrEqualSym(sanitized_value))
        }
        fn __sanitize__(mut value: u8) -> (r: u8) 
            ensures
                r == Self::spec_sanitize(value),
        {
            value
        }
        fn __validate__(val: &u8) -> (r: ::core::result::Result<(), C16U8LessOrEqualSymError>) 
            ensures
                r == Self::spec_validate(*val),
                r is Err ==> r == Self::spec_validate(*val),
        {
            let val = *val;
            if val > sym_hi_u8() {
                return Err(C16U8LessOrEqualSymError::LessOrEqualViolated);
            }
            Ok(())
        }
    }
    impl C16U8LessOrEqualSym {
        #[inline]
        pub fn into_inner(self) -> (r: u8) 
            ensures
                r == self.spec_view(),
        {
            self.0
        }
    }
    #[cfg(test)]
    mod tests {
        use super::*;
    }

    // ======== inserted by the annotator: spec-mode items only ========
    impl C16U8LessOrEqualSym {
        pub closed spec fn spec_view(self) -> u8 { self.0 }
        pub closed spec fn spec_sanitize(x: u8) -> u8 { x }
        pub closed spec fn spec_validate(x: u8) -> ::core::result::Result<(), C16U8LessOrEqualSymError> {
            if !(x <= (SYM_HI_U8())) { Err(C16U8LessOrEqualSymError::LessOrEqualViolated) } else { Ok(()) }
        }
        pub closed spec fn spec_post(raw: u8, r: ::core::result::Result<Self, C16U8LessOrEqualSymError>) -> bool { r == Self::spec_try_new(raw) }
        pub closed spec fn spec_try_new(raw: u8) -> ::core::result::Result<Self, C16U8LessOrEqualSymError> {
            match Self::spec_validate(Self::spec_sanitize(raw)) {
                Ok(_) => Ok(C16U8LessOrEqualSym(Self::spec_sanitize(raw))),
                Err(e) => Err(e),
            }
        }
        #[verifier::type_invariant]
        closed spec fn spec_inv(self) -> bool { Self::spec_validate(self.0) is Ok }
    }
    impl C16U8LessOrEqualSym {
        pub proof fn lemma_c16_LessOrEqualViolated(x: u8)
            ensures (x <= (SYM_HI_U8())) <==> (x <= (SYM_HI_U8())),
        {
        }
    }
}
pub use __nutype_C16U8LessOrEqualSym__::C16U8LessOrEqualSym;
pub use __nutype_C16U8LessOrEqualSym__::C16U8LessOrEqualSymError;

}
pub mod d_c16_u8_less_or_equal_lit_p {
    use super::*;
// NUTYPE_VERIF_INPUT #[nutype(validate(less_or_equal = 7), derive(Debug))] pub struct C16U8LessOrEqualLitP(u8);
#[doc(hidden)]
#[allow(
    non_snake_case,
    reason = "we keep original structure name which is probably CamelCase"
)]
mod __nutype_C16U8LessOrEqualLitP__ {
    use super::*;
    #[derive(Debug)]
    pub struct C16U8LessOrEqualLitP(u8);
    #[derive(Debug, Clone, PartialEq, Eq)]
    #[allow(clippy::enum_variant_names)]
    pub enum C16U8LessOrEqualLitPError {
        LessOrEqualViolated,
    }
    #[verifier::external]
impl ::core::fmt::Display for C16U8LessOrEqualLitPError {
        fn fmt(&self, f: &mut ::core::fmt::Formatter<'_>) -> ::core::fmt::Result {
            match self {
                C16U8LessOrEqualLitPError::LessOrEqualViolated => write!(
                    f,
                    "{} is too big. The value must be less or equal to {:#?}.",
                    stringify!(C16U8LessOrEqualLitP),
                    7u8
                ),
            }
        }
    }
    #[verifier::external]
impl ::core::error::Error for C16U8LessOrEqualLitPError {
        fn source(&self) -> Option<&(dyn ::core::error::Error + 'static)> {
            None
        }
    }
    impl C16U8LessOrEqualLitP {
        pub fn try_new(raw_value: u8) -> (r: ::core::result::Result<Self, C16U8LessOrEqualLitPError>) 
            ensures
                r == Self::spec_try_new(raw_value),
                r is Err ==> Self::spec_validate(Self::spec_sanitize(raw_value)) == Err::<(), C16U8LessOrEqualLitPError>(r->Err_0),
        {
            let sanitized_value: u8 = Self::__sanitize__(raw_value);
            #[allow(clippy::question_mark)]
            if let Err(e) = Self::__validate__(&sanitized_value) {
                return Err(e);
            }
            Ok(C16U8LessOrEqualLitP(sanitized_value))
        }
        fn __sanitize__(mut value: u8) -> (r: u8) 
            ensures
                r == Self::spec_sanitize(value),
        {
            value
        }
        fn __validate__(val: &u8) -> (r: ::core::result::Result<(), C16U8LessOrEqualLitPError>) 
            ensures
                r == Self::spec_validate(*val),
                r is Err ==> r == Self::spec_validate(*val),
        {
            let val = *val;
            if val > 7u8 {
                return Err(C16U8LessOrEqualLitPError::LessOrEqualViolated);
            }
            Ok(())
        }
    }
    impl C16U8LessOrEqualLitP {
        #[inline]
        pub fn into_inner(self) -> (r: u8) 
            ensures
                r == self.spec_view(),
        {
            self.0
        }
    }
    #[cfg(test)]
    mod tests {
        use super::*;
    }

    // ======== inserted by the annotator: spec-mode items only ========
    impl C16U8LessOrEqualLitP {
        pub closed spec fn spec_view(self) -> u8 { self.0 }
        pub closed spec fn spec_sanitize(x: u8) -> u8 { x }
        pub closed spec fn spec_validate(x: u8) -> ::core::result::Result<(), C16U8LessOrEqualLitPError> {
            if !(x <= (7)) { Err(C16U8LessOrEqualLitPError::LessOrEqualViolated) } else { Ok(()) }
        }
        pub closed spec fn spec_post(raw: u8, r: ::core::result::Result<Self, C16U8LessOrEqualLitPError>) -> bool { r == Self::spec_try_new(raw) }
        pub closed spec fn spec_try_new(raw: u8) -> ::core::result::Result<Self, C16U8LessOrEqualLitPError> {
            match Self::spec_validate(Self::spec_sanitize(raw)) {
                Ok(_) => Ok(C16U8LessOrEqualLitP(Self::spec_sanitize(raw))),
                Err(e) => Err(e),
            }
        }
        #[verifier::type_invariant]
        closed spec fn spec_inv(self) -> bool { Self::spec_validate(self.0) is Ok }
    }
    impl C16U8LessOrEqualLitP {
        pub proof fn lemma_c16_LessOrEqualViolated(x: u8)
            ensures (x <= (7)) <==> (x <= (7)),
        {
        }
    }
}
pub use __nutype_C16U8LessOrEqualLitP__::C16U8LessOrEqualLitP;
pub use __nutype_C16U8LessOrEqualLitP__::C16U8LessOrEqualLitPError;

}
pub mod d_c16_u8_less_or_equal_lit_big {
    use super::*;
// NUTYPE_VERIF_INPUT #[nutype(validate(less_or_equal = 100), derive(Debug))] pub struct C16U8LessOrEqualLitBig(u8);
#[doc(hidden)]
#[allow(
    non_snake_case,
    reason = "we keep original structure name which is probably CamelCase"
)]
mod __nutype_C16U8LessOrEqualLitBig__ {
    use super::*;
    #[derive(Debug)]
    pub struct C16U8LessOrEqualLitBig(u8);
    #[derive(Debug, Clone, PartialEq, Eq)]
    #[allow(clippy::enum_variant_names)]
    pub enum C16U8LessOrEqualLitBigError {
        LessOrEqualViolated,
    }
    #[verifier::external]
impl ::core::fmt::Display for C16U8LessOrEqualLitBigError {
        fn fmt(&self, f: &mut ::core::fmt::Formatter<'_>) -> ::core::fmt::Result {
            match self {
                C16U8LessOrEqualLitBigError::LessOrEqualViolated => write!(
                    f,
                    "{} is too big. The value must be less or equal to {:#?}.",
                    stringify!(C16U8LessOrEqualLitBig),
                    100u8
                ),
            }
        }
    }
    #[verifier::external]
impl ::core::error::Error for C16U8LessOrEqualLitBigError {
        fn source(&self) -> Option<&(dyn ::core::error::Error + 'static)> {
            None
        }
    }
    impl C16U8LessOrEqualLitBig {
        pub fn try_new(raw_value: u8) -> (r: ::core::result::Result<Self, C16U8LessOrEqualLitBigError>) 
            ensures
                r == Self::spec_try_new(raw_value),
                r is Err ==> Self::spec_validate(Self::spec_sanitize(raw_value)) == Err::<(), C16U8LessOrEqualLitBigError>(r->Err_0),
        {
            let sanitized_value: u8 = Self::__sanitize__(raw_value);
            #[allow(clippy::question_mark)]
            if let Err(e) = Self::__validate__(&sanitized_value) {
                return Err(e);
            }
            Ok(C16U8LessOrEqualLitBig(sanitized_value))
        }
        fn __sanitize__(mut value: u8) -> (r: u8) 
            ensures
                r == Self::spec_sanitize(value),
        {
            value
        }
        fn __validate__(val: &u8) -> (r: ::core::result::Result<(), C16U8LessOrEqualLitBigError>) 
            ensures
                r == Self::spec_validate(*val),
                r is Err ==> r == Self::spec_validate(*val),
        {
            let val = *val;
            if val > 100u8 {
                return Err(C16U8LessOrEqualLitBigError::LessOrEqualViolated);
            }
            Ok(())
        }
    }
    impl C16U8LessOrEqualLitBig {
        #[inline]
        pub fn into_inner(self) -> (r: u8) 
            ensures
                r == self.spec_view(),
        {
            self.0
        }
    }
    #[cfg(test)]
    mod tests {
        use super::*;
    }

    // ======== inserted by the annotator: spec-mode items only ========
    impl C16U8LessOrEqualLitBig {
        pub closed spec fn spec_view(self) -> u8 { self.0 }
        pub closed spec fn spec_sanitize(x: u8) -> u8 { x }
        pub closed spec fn spec_validate(x: u8) -> ::core::result::Result<(), C16U8LessOrEqualLitBigError> {
            if !(x <= (100)) { Err(C16U8LessOrEqualLitBigError::LessOrEqualViolated) } else { Ok(()) }
        }
        pub closed spec fn spec_post(raw: u8, r: ::core::result::Result<Self, C16U8LessOrEqualLitBigError>) -> bool { r == Self::spec_try_new(raw) }
        pub closed spec fn spec_try_new(raw: u8) -> ::core::result::Result<Self, C16U8LessOrEqualLitBigError> {
            match Self::spec_validate(Self::spec_sanitize(raw)) {
                Ok(_) => Ok(C16U8LessOrEqualLitBig(Self::spec_sanitize(raw))),
                Err(e) => Err(e),
            }
        }
        #[verifier::type_invariant]
        closed spec fn spec_inv(self) -> bool { Self::spec_validate(self.0) is Ok }
    }
    impl C16U8LessOrEqualLitBig {
        pub proof fn lemma_c16_LessOrEqualViolated(x: u8)
            ensures (x <= (100)) <==> (x <= (100)),
        {
        }
    }
}
pub use __nutype_C16U8LessOrEqualLitBig__::C16U8LessOrEqualLitBig;
pub use __nutype_C16U8LessOrEqualLitBig__::C16U8LessOrEqualLitBigError;

}
pub mod d_c16_u8_ge_lt_embed {
    use super::*;
// NUTYPE_VERIF_INPUT #[nutype(validate(greater_or_equal = sym_lo_u8(), less = sym_hi_u8()), derive(Debug))] pub struct C16U8GeLtEmbed(u8);
#[doc(hidden)]
#[allow(
    non_snake_case,
    reason = "we keep original structure name which is probably CamelCase"
)]
mod __nutype_C16U8GeLtEmbed__ {
    use super::*;
    #[derive(Debug)]
    pub struct C16U8GeLtEmbed(u8);
    #[derive(Debug, Clone, PartialEq, Eq)]
    #[allow(clippy::enum_variant_names)]
    pub enum C16U8GeLtEmbedError {
        GreaterOrEqualViolated,
        LessViolated,
    }
    #[verifier::external]
impl ::core::fmt::Display for C16U8GeLtEmbedError {
        fn fmt(&self, f: &mut ::core::fmt::Formatter<'_>) -> ::core::fmt::Result {
            match self {
                C16U8GeLtEmbedError::GreaterOrEqualViolated => write!(
                    f,
                    "{} is too small. The value must be greater or equal to {:#?}.",
                    stringify!(C16U8GeLtEmbed),
                    sym_lo_u8()
                ),
                C16U8GeLtEmbedError::LessViolated => write!(
                    f,
                    "{} is too big. The value must be less than {:#?}.",
                    stringify!(C16U8GeLtEmbed),
                    sym_hi_u8()
                ),
            }
        }
    }
    #[verifier::external]
impl ::core::error::Error for C16U8GeLtEmbedError {
        fn source(&self) -> Option<&(dyn ::core::error::Error + 'static)> {
            None
        }
    }
    impl C16U8GeLtEmbed {
        pub fn try_new(raw_value: u8) -> (r: ::core::result::Result<Self, C16U8GeLtEmbedError>) 
            ensures
                r == Self::spec_try_new(raw_value),
                r is Err ==> Self::spec_validate(Self::spec_sanitize(raw_value)) == Err::<(), C16U8GeLtEmbedError>(r->Err_0),
        {
            let sanitized_value: u8 = Self::__sanitize__(raw_value);
            #[allow(clippy::question_mark)]
            if let Err(e) = Self::__validate__(&sanitized_value) {
                return Err(e);
            }
            Ok(C16U8GeLtEmbed(sanitized_value))
        }
        fn __sanitize__(mut value: u8) -> (r: u8) 
            ensures
                r == Self::spec_sanitize(value),
        {
            value
        }
        fn __validate__(val: &u8) -> (r: ::core::result::Result<(), C16U8GeLtEmbedError>) 
            ensures
                r == Self::spec_validate(*val),
                r is Err ==> r == Self::spec_validate(*val),
        {
            let val = *val;
            if val < sym_lo_u8() {
                return Err(C16U8GeLtEmbedError::GreaterOrEqualViolated);
            }
            if val >= sym_hi_u8() {
                return Err(C16U8GeLtEmbedError::LessViolated);
            }
            Ok(())
        }
    }
    impl C16U8GeLtEmbed {
        #[inline]
        pub fn into_inner(self) -> (r: u8) 
            ensures
                r == self.spec_view(),
        {
            self.0
        }
    }
    #[cfg(test)]
    mod tests {
        use super::*;
        #[test]
        fn should_have_consistent_lower_and_upper_boundaries() {
            assert!
            (sym_hi_u8() >= sym_lo_u8(),
            "\nInconsistent lower and upper boundaries for type `C16U8GeLtEmbed`\nThe upper boundary `sym_hi_u8()` must be greater than or equal to the lower boundary `sym_lo_u8()`\nNote: the test is generated automatically by #[nutype] macro.\n");
        }
    }

    // ======== inserted by the annotator: spec-mode items only ========
    impl C16U8GeLtEmbed {
        pub closed spec fn spec_view(self) -> u8 { self.0 }
        pub closed spec fn spec_sanitize(x: u8) -> u8 { x }
        pub closed spec fn spec_validate(x: u8) -> ::core::result::Result<(), C16U8GeLtEmbedError> {
            if !(x >= (SYM_LO_U8())) { Err(C16U8GeLtEmbedError::GreaterOrEqualViolated) } else if !(x < (SYM_HI_U8())) { Err(C16U8GeLtEmbedError::LessViolated) } else { Ok(()) }
        }
        pub closed spec fn spec_post(raw: u8, r: ::core::result::Result<Self, C16U8GeLtEmbedError>) -> bool { r == Self::spec_try_new(raw) }
        pub closed spec fn spec_try_new(raw: u8) -> ::core::result::Result<Self, C16U8GeLtEmbedError> {
            match Self::spec_validate(Self::spec_sanitize(raw)) {
                Ok(_) => Ok(C16U8GeLtEmbed(Self::spec_sanitize(raw))),
                Err(e) => Err(e),
            }
        }
        #[verifier::type_invariant]
        closed spec fn spec_inv(self) -> bool { Self::spec_validate(self.0) is Ok }
    }
    impl C16U8GeLtEmbed {
        pub proof fn lemma_c16_GreaterOrEqualViolated(x: u8)
            ensures (x >= (SYM_LO_U8())) <==> (x >= (SYM_LO_U8())),
        {
        }
    }
    impl C16U8GeLtEmbed {
        pub proof fn lemma_c16_LessViolated(x: u8)
            ensures (x < (SYM_HI_U8())) <==> (x < (SYM_HI_U8())),
        {
        }
    }
}
pub use __nutype_C16U8GeLtEmbed__::C16U8GeLtEmbed;
pub use __nutype_C16U8GeLtEmbed__::C16U8GeLtEmbedError;

}
pub mod d_c16_u8_le_gt_embed {
    use super::*;
// NUTYPE_VERIF_INPUT #[nutype(validate(less_or_equal = sym_hi_u8(), greater = sym_lo_u8()), derive(Debug))] pub struct C16U8LeGtEmbed(u8);
#[doc(hidden)]
#[allow(
    non_snake_case,
    reason = "we keep original structure name which is probably CamelCase"
)]
mod __nutype_C16U8LeGtEmbed__ {
    use super::*;
    #[derive(Debug)]
    pub struct C16U8LeGtEmbed(u8);
    #[derive(Debug, Clone, PartialEq, Eq)]
    #[allow(clippy::enum_variant_names)]
    pub enum C16U8LeGtEmbedError {
        LessOrEqualViolated,
        GreaterViolated,
    }
    #[verifier::external]
impl ::core::fmt::Display for C16U8LeGtEmbedError {
        fn fmt(&self, f: &mut ::core::fmt::Formatter<'_>) -> ::core::fmt::Result {
            match self {
                C16U8LeGtEmbedError::LessOrEqualViolated => write!(
                    f,
                    "{} is too big. The value must be less or equal to {:#?}.",
                    stringify!(C16U8LeGtEmbed),
                    sym_hi_u8()
                ),
                C16U8LeGtEmbedError::GreaterViolated => write!(
                    f,
                    "{} is too small. The value must be greater than {:#?}.",
                    stringify!(C16U8LeGtEmbed),
                    sym_lo_u8()
                ),
            }
        }
    }
    #[verifier::external]
impl ::core::error::Error for C16U8LeGtEmbedError {
        fn source(&self) -> Option<&(dyn ::core::error::Error + 'static)> {
            None
        }
    }
    impl C16U8LeGtEmbed {
        pub fn try_new(raw_value: u8) -> (r: ::core::result::Result<Self, C16U8LeGtEmbedError>) 
            ensures
                r == Self::spec_try_new(raw_value),
                r is Err ==> Self::spec_validate(Self::spec_sanitize(raw_value)) == Err::<(), C16U8LeGtEmbedError>(r->Err_0),
        {
            let sanitized_value: u8 = Self::__sanitize__(raw_value);
            #[allow(clippy::question_mark)]
            if let Err(e) = Self::__validate__(&sanitized_value) {
                return Err(e);
            }
            Ok(C16U8LeGtEmbed(sanitized_value))
        }
        fn __sanitize__(mut value: u8) -> (r: u8) 
            ensures
                r == Self::spec_sanitize(value),
        {
            value
        }
        fn __validate__(val: &u8) -> (r: ::core::result::Result<(), C16U8LeGtEmbedError>) 
            ensures
                r == Self::spec_validate(*val),
                r is Err ==> r == Self::spec_validate(*val),
        {
            let val = *val;
            if val > sym_hi_u8() {
                return Err(C16U8LeGtEmbedError::LessOrEqualViolated);
            }
            if val <= sym_lo_u8() {
                return Err(C16U8LeGtEmbedError::GreaterViolated);
            }
            Ok(())
        }
    }
    impl C16U8LeGtEmbed {
        #[inline]
        pub fn into_inner(self) -> (r: u8) 
            ensures
                r == self.spec_view(),
        {
            self.0
        }
    }
    #[cfg(test)]
    mod tests {
        use super::*;
        #[test]
        fn should_have_consistent_lower_and_upper_boundaries() {
            assert!
            (sym_hi_u8() >= sym_lo_u8(),
            "\nInconsistent lower and upper boundaries for type `C16U8LeGtEmbed`\nThe upper boundary `sym_hi_u8()` must be greater than or equal to the lower boundary `sym_lo_u8()`\nNote: the test is generated automatically by #[nutype] macro.\n");
        }
    }

    // ======== inserted by the annotator: spec-mode items only ========
    impl C16U8LeGtEmbed {
        pub closed spec fn spec_view(self) -> u8 { self.0 }
        pub closed spec fn spec_sanitize(x: u8) -> u8 { x }
        pub closed spec fn spec_validate(x: u8) -> ::core::result::Result<(), C16U8LeGtEmbedError> {
            if !(x <= (SYM_HI_U8())) { Err(C16U8LeGtEmbedError::LessOrEqualViolated) } else if !(x > (SYM_LO_U8())) { Err(C16U8LeGtEmbedError::GreaterViolated) } else { Ok(()) }
        }
        pub closed spec fn spec_post(raw: u8, r: ::core::result::Result<Self, C16U8LeGtEmbedError>) -> bool { r == Self::spec_try_new(raw) }
        pub closed spec fn spec_try_new(raw: u8) -> ::core::result::Result<Self, C16U8LeGtEmbedError> {
            match Self::spec_validate(Self::spec_sanitize(raw)) {
                Ok(_) => Ok(C16U8LeGtEmbed(Self::spec_sanitize(raw))),
                Err(e) => Err(e),
            }
        }
        #[verifier::type_invariant]
        closed spec fn spec_inv(self) -> bool { Self::spec_validate(self.0) is Ok }
    }
    impl C16U8LeGtEmbed {
        pub proof fn lemma_c16_LessOrEqualViolated(x: u8)
            ensures (x <= (SYM_HI_U8())) <==> (x <= (SYM_HI_U8())),
        {
        }
    }
    impl C16U8LeGtEmbed {
        pub proof fn lemma_c16_GreaterViolated(x: u8)
            ensures (x > (SYM_LO_U8())) <==> (x > (SYM_LO_U8())),
        {
        }
    }
}
pub use __nutype_C16U8LeGtEmbed__::C16U8LeGtEmbed;
pub use __nutype_C16U8LeGtEmbed__::C16U8LeGtEmbedError;

}

// vacuity canary: this MUST fail; if it verifies the assumptions are inconsistent
proof fn __verif_canary() ensures false {}
} // verus!
fn main() {}
