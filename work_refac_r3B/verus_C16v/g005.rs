// GENERATED on every run: real expansions of /repo's macro with contracts inserted in place.
#![allow(unused_imports, dead_code, unused_variables, unused_mut, non_snake_case, non_upper_case_globals, non_camel_case_types)]
use vstd::prelude::*;
use vstd::string::*;
use vstd::std_specs::iter::IteratorSpec;
verus! {
// ---- fixed prelude: ASSUMED contracts on the Rust standard library (trusted, listed in evidence) ----
// Every std function the generated code may call gets its own *uninterpreted* spec symbol, so a
// changed call (trim -> trim_start, to_lowercase -> to_ascii_lowercase, chars().count() -> len())
// fails a postcondition instead of turning into "unsupported".
pub uninterp spec fn spec_trim(s: Seq<char>) -> Seq<char>;
pub uninterp spec fn spec_trim_start(s: Seq<char>) -> Seq<char>;
pub uninterp spec fn spec_trim_end(s: Seq<char>) -> Seq<char>;
pub uninterp spec fn spec_lower(s: Seq<char>) -> Seq<char>;
pub uninterp spec fn spec_upper(s: Seq<char>) -> Seq<char>;
pub uninterp spec fn spec_ascii_lower(s: Seq<char>) -> Seq<char>;
pub uninterp spec fn spec_ascii_upper(s: Seq<char>) -> Seq<char>;

pub assume_specification[ str::trim ](s: &str) -> (r: &str)
    ensures r@ == spec_trim(s@);
pub assume_specification[ str::trim_start ](s: &str) -> (r: &str)
    ensures r@ == spec_trim_start(s@);
pub assume_specification[ str::trim_end ](s: &str) -> (r: &str)
    ensures r@ == spec_trim_end(s@);
pub assume_specification[ str::to_lowercase ](s: &str) -> (r: String)
    ensures r@ == spec_lower(s@);
pub assume_specification[ str::to_uppercase ](s: &str) -> (r: String)
    ensures r@ == spec_upper(s@);
pub assume_specification[ str::to_ascii_lowercase ](s: &str) -> (r: String)
    ensures r@ == spec_ascii_lower(s@);
pub assume_specification[ str::to_ascii_uppercase ](s: &str) -> (r: String)
    ensures r@ == spec_ascii_upper(s@);
pub uninterp spec fn spec_string_byte_len(s: Seq<char>) -> usize;
pub assume_specification[ String::len ](s: &String) -> (r: usize)
    ensures r == spec_string_byte_len(s@);
pub assume_specification<'a>[ <core::str::Chars<'a> as Iterator>::count ](c: core::str::Chars<'a>) -> (r: usize)
    ensures r == c.remaining().len();

global size_of usize == 8;

// opaque std error types that appear as payload of the generated `<X>ParseError` enums
#[verifier::external_type_specification]
#[verifier::external_body]
pub struct ExParseIntError(core::num::ParseIntError);
#[verifier::external_type_specification]
#[verifier::external_body]
pub struct ExParseFloatError(core::num::ParseFloatError);

// `impl Into<String>` arguments: the only facts assumed about the conversion.
pub broadcast axiom fn axiom_into_string_from_string(x: String, s: String)
    requires #[trigger] call_ensures(<String as Into<String>>::into, (x,), s)
    ensures s@ == x@;
pub broadcast axiom fn axiom_into_string_from_str(x: &str, s: String)
    requires #[trigger] call_ensures(<&str as Into<String>>::into, (x,), s)
    ensures s@ == x@;

// Algebraic facts about std's trim / case mapping used only by the C11 (canonical form) lemmas.
// A1-A3 idempotence; A4/A5 case mapping neither creates nor removes edge whitespace, i.e. trim and
// case mapping commute "up to" re-application.  Statements about std, not about nutype.
pub broadcast axiom fn axiom_trim_idem(s: Seq<char>)
    ensures #[trigger] spec_trim(spec_trim(s)) == spec_trim(s);
pub broadcast axiom fn axiom_lower_idem(s: Seq<char>)
    ensures #[trigger] spec_lower(spec_lower(s)) == spec_lower(s);
pub broadcast axiom fn axiom_upper_idem(s: Seq<char>)
    ensures #[trigger] spec_upper(spec_upper(s)) == spec_upper(s);
pub broadcast axiom fn axiom_trim_of_lower_of_trim(s: Seq<char>)
    ensures #[trigger] spec_trim(spec_lower(spec_trim(s))) == spec_lower(spec_trim(s));
pub broadcast axiom fn axiom_trim_of_upper_of_trim(s: Seq<char>)
    ensures #[trigger] spec_trim(spec_upper(spec_trim(s))) == spec_upper(spec_trim(s));
pub broadcast axiom fn axiom_lower_of_trim_of_lower(s: Seq<char>)
    ensures #[trigger] spec_lower(spec_trim(spec_lower(s))) == spec_trim(spec_lower(s));
pub broadcast axiom fn axiom_upper_of_trim_of_upper(s: Seq<char>)
    ensures #[trigger] spec_upper(spec_trim(spec_upper(s))) == spec_trim(spec_upper(s));
pub broadcast group group_c11_std_axioms {
    axiom_trim_idem, axiom_lower_idem, axiom_upper_idem,
    axiom_trim_of_lower_of_trim, axiom_trim_of_upper_of_trim,
    axiom_lower_of_trim_of_lower, axiom_upper_of_trim_of_upper,
}

// ---- auxiliary items of the catalogue (symbolic bounds, custom functions) ----
pub uninterp spec fn SYM_HI_I64() -> i64;
#[verifier::external_body]
pub fn sym_hi_i64() -> (r: i64) ensures r == SYM_HI_I64() { 100 }

pub mod d_c16_i64_less_sym {
    use super::*;
// NUTYPE_VERIF_INPUT #[nutype(validate(less = sym_hi_i64()), derive(Debug))] pub struct C16I64LessSym(i64);
#[doc(hidden)]
#[allow(
    non_snake_case,
    reason = "we keep original structure name which is probably CamelCase"
)]
mod __nutype_C16I64LessSym__ {
    use super::*;
    #[derive(Debug)]
    pub struct C16I64LessSym(i64);
    #[derive(Debug, Clone, PartialEq, Eq)]
    #[allow(clippy::enum_variant_names)]
    pub enum C16I64LessSymError {
        LessViolated,
    }
    #[verifier::external]
impl ::core::fmt::Display for C16I64LessSymError {
        fn fmt(&self, f: &mut ::core::fmt::Formatter<'_>) -> ::core::fmt::Result {
            match self {
                C16I64LessSymError::LessViolated => write!(
                    f,
                    "{} is too big. The value must be less than {:#?}.",
                    stringify!(C16I64LessSym),
                    sym_hi_i64()
                ),
            }
        }
    }
    #[verifier::external]
impl ::core::error::Error for C16I64LessSymError {
        fn source(&self) -> Option<&(dyn ::core::error::Error + 'static)> {
            None
        }
    }
    impl C16I64LessSym {
        pub fn try_new(raw_value: i64) -> (r: ::core::result::Result<Self, C16I64LessSymError>) 
            ensures
                r == Self::spec_try_new(raw_value),
                r is Err ==> Self::spec_validate(Self::spec_sanitize(raw_value)) == Err::<(), C16I64LessSymError>(r->Err_0),
        {
            let sanitized_value: i64 = Self::__sanitize__(raw_value);
            #[allow(clippy::question_mark)]
            if let Err(e) = Self::__validate__(&sanitized_value) {
                return Err(e);
            }
            Ok(C16I64LessSym(sanitized_value))
        }
        fn __sanitize__(mut value: i64) -> (r: i64) 
            ensures
                r == Self::spec_sanitize(value),
        {
            value
        }
        fn __validate__(val: &i64) -> (r: ::core::result::Result<(), C16I64LessSymError>) 
            ensures
                r == Self::spec_validate(*val),
                r is Err ==> r == Self::spec_validate(*val),
        {
            let val = *val;
            if val >= sym_hi_i64() {
                return Err(C16I64LessSymError::LessViolated);
            }
            Ok(())
        }
    }
    impl C16I64LessSym {
        #[inline]
        pub fn into_inner(self) -> (r: i64) 
            ensures
                r == self.spec_view(),
        {
            self.0
        }
    }
    #[cfg(test)]
    mod tests {
        use super::*;
    }

    // ======== inserted by the annotator: spec-mode items only ========
    impl C16I64LessSym {
        pub closed spec fn spec_view(self) -> i64 { self.0 }
        pub closed spec fn spec_sanitize(x: i64) -> i64 { x }
        pub closed spec fn spec_validate(x: i64) -> ::core::result::Result<(), C16I64LessSymError> {
            if !(x < (SYM_HI_I64())) { Err(C16I64LessSymError::LessViolated) } else { Ok(()) }
        }
        pub closed spec fn spec_post(raw: i64, r: ::core::result::Result<Self, C16I64LessSymError>) -> bool { r == Self::spec_try_new(raw) }
        pub closed spec fn spec_try_new(raw: i64) -> ::core::result::Result<Self, C16I64LessSymError> {
            match Self::spec_validate(Self::spec_sanitize(raw)) {
                Ok(_) => Ok(C16I64LessSym(Self::spec_sanitize(raw))),
                Err(e) => Err(e),
            }
        }
        #[verifier::type_invariant]
        closed spec fn spec_inv(self) -> bool { Self::spec_validate(self.0) is Ok }
    }
    impl C16I64LessSym {
        pub proof fn lemma_c16_LessViolated(x: i64)
            ensures (x < (SYM_HI_I64())) <==> (x < (SYM_HI_I64())),
        {
        }
    }
}
pub use __nutype_C16I64LessSym__::C16I64LessSym;
pub use __nutype_C16I64LessSym__::C16I64LessSymError;

}
pub mod d_c16_i64_less_lit_p {
    use super::*;
// NUTYPE_VERIF_INPUT #[nutype(validate(less = 7), derive(Debug))] pub struct C16I64LessLitP(i64);
#[doc(hidden)]
#[allow(
    non_snake_case,
    reason = "we keep original structure name which is probably CamelCase"
)]
mod __nutype_C16I64LessLitP__ {
    use super::*;
    #[derive(Debug)]
    pub struct C16I64LessLitP(i64);
    #[derive(Debug, Clone, PartialEq, Eq)]
    #[allow(clippy::enum_variant_names)]
    pub enum C16I64LessLitPError {
        LessViolated,
    }
    #[verifier::external]
impl ::core::fmt::Display for C16I64LessLitPError {
        fn fmt(&self, f: &mut ::core::fmt::Formatter<'_>) -> ::core::fmt::Result {
            match self {
                C16I64LessLitPError::LessViolated => write!(
                    f,
                    "{} is too big. The value must be less than {:#?}.",
                    stringify!(C16I64LessLitP),
                    7i64
                ),
            }
        }
    }
    #[verifier::external]
impl ::core::error::Error for C16I64LessLitPError {
        fn source(&self) -> Option<&(dyn ::core::error::Error + 'static)> {
            None
        }
    }
    impl C16I64LessLitP {
        pub fn try_new(raw_value: i64) -> (r: ::core::result::Result<Self, C16I64LessLitPError>) 
            ensures
                r == Self::spec_try_new(raw_value),
                r is Err ==> Self::spec_validate(Self::spec_sanitize(raw_value)) == Err::<(), C16I64LessLitPError>(r->Err_0),
        {
            let sanitized_value: i64 = Self::__sanitize__(raw_value);
            #[allow(clippy::question_mark)]
            if let Err(e) = Self::__validate__(&sanitized_value) {
                return Err(e);
            }
            Ok(C16I64LessLitP(sanitized_value))
        }
        fn __sanitize__(mut value: i64) -> (r: i64) 
            ensures
                r == Self::spec_sanitize(value),
        {
            value
        }
        fn __validate__(val: &i64) -> (r: ::core::result::Result<(), C16I64LessLitPError>) 
            ensures
                r == Self::spec_validate(*val),
                r is Err ==> r == Self::spec_validate(*val),
        {
            let val = *val;
            if val >= 7i64 {
                return Err(C16I64LessLitPError::LessViolated);
            }
            Ok(())
        }
    }
    impl C16I64LessLitP {
        #[inline]
        pub fn into_inner(self) -> (r: i64) 
            ensures
                r == self.spec_view(),
        {
            self.0
        }
    }
    #[cfg(test)]
    mod tests {
        use super::*;
    }

    // ======== inserted by the annotator: spec-mode items only ========
    impl C16I64LessLitP {
        pub closed spec fn spec_view(self) -> i64 { self.0 }
        pub closed spec fn spec_sanitize(x: i64) -> i64 { x }
        pub closed spec fn spec_validate(x: i64) -> ::core::result::Result<(), C16I64LessLitPError> {
            if !(x < (7)) { Err(C16I64LessLitPError::LessViolated) } else { Ok(()) }
        }
        pub closed spec fn spec_post(raw: i64, r: ::core::result::Result<Self, C16I64LessLitPError>) -> bool { r == Self::spec_try_new(raw) }
        pub closed spec fn spec_try_new(raw: i64) -> ::core::result::Result<Self, C16I64LessLitPError> {
            match Self::spec_validate(Self::spec_sanitize(raw)) {
                Ok(_) => Ok(C16I64LessLitP(Self::spec_sanitize(raw))),
                Err(e) => Err(e),
            }
        }
        #[verifier::type_invariant]
        closed spec fn spec_inv(self) -> bool { Self::spec_validate(self.0) is Ok }
    }
    impl C16I64LessLitP {
        pub proof fn lemma_c16_LessViolated(x: i64)
            ensures (x < (7)) <==> (x < (7)),
        {
        }
    }
}
pub use __nutype_C16I64LessLitP__::C16I64LessLitP;
pub use __nutype_C16I64LessLitP__::C16I64LessLitPError;

}
pub mod d_c16_i64_less_lit_n {
    use super::*;
// NUTYPE_VERIF_INPUT #[nutype(validate(less = -7), derive(Debug))] pub struct C16I64LessLitN(i64);
#[doc(hidden)]
#[allow(
    non_snake_case,
    reason = "we keep original structure name which is probably CamelCase"
)]
mod __nutype_C16I64LessLitN__ {
    use super::*;
    #[derive(Debug)]
    pub struct C16I64LessLitN(i64);
    #[derive(Debug, Clone, PartialEq, Eq)]
    #[allow(clippy::enum_variant_names)]
    pub enum C16I64LessLitNError {
        LessViolated,
    }
    #[verifier::external]
impl ::core::fmt::Display for C16I64LessLitNError {
        fn fmt(&self, f: &mut ::core::fmt::Formatter<'_>) -> ::core::fmt::Result {
            match self {
                C16I64LessLitNError::LessViolated => write!(
                    f,
                    "{} is too big. The value must be less than {:#?}.",
                    stringify!(C16I64LessLitN),
                    -7i64
                ),
            }
        }
    }
    #[verifier::external]
impl ::core::error::Error for C16I64LessLitNError {
        fn source(&self) -> Option<&(dyn ::core::error::Error + 'static)> {
            None
        }
    }
    impl C16I64LessLitN {
        pub fn try_new(raw_value: i64) -> (r: ::core::result::Result<Self, C16I64LessLitNError>) 
            ensures
                r == Self::spec_try_new(raw_value),
                r is Err ==> Self::spec_validate(Self::spec_sanitize(raw_value)) == Err::<(), C16I64LessLitNError>(r->Err_0),
        {
            let sanitized_value: i64 = Self::__sanitize__(raw_value);
            #[allow(clippy::question_mark)]
            if let Err(e) = Self::__validate__(&sanitized_value) {
                return Err(e);
            }
            Ok(C16I64LessLitN(sanitized_value))
        }
        fn __sanitize__(mut value: i64) -> (r: i64) 
            ensures
                r == Self::spec_sanitize(value),
        {
            value
        }
        fn __validate__(val: &i64) -> (r: ::core::result::Result<(), C16I64LessLitNError>) 
            ensures
                r == Self::spec_validate(*val),
                r is Err ==> r == Self::spec_validate(*val),
        {
            let val = *val;
            if val >= -7i64 {
                return Err(C16I64LessLitNError::LessViolated);
            }
            Ok(())
        }
    }
    impl C16I64LessLitN {
        #[inline]
        pub fn into_inner(self) -> (r: i64) 
            ensures
                r == self.spec_view(),
        {
            self.0
        }
    }
    #[cfg(test)]
    mod tests {
        use super::*;
    }

    // ======== inserted by the annotator: spec-mode items only ========
    impl C16I64LessLitN {
        pub closed spec fn spec_view(self) -> i64 { self.0 }
        pub closed spec fn spec_sanitize(x: i64) -> i64 { x }
        pub closed spec fn spec_validate(x: i64) -> ::core::result::Result<(), C16I64LessLitNError> {
            if !(x < ((-7))) { Err(C16I64LessLitNError::LessViolated) } else { Ok(()) }
        }
        pub closed spec fn spec_post(raw: i64, r: ::core::result::Result<Self, C16I64LessLitNError>) -> bool { r == Self::spec_try_new(raw) }
        pub closed spec fn spec_try_new(raw: i64) -> ::core::result::Result<Self, C16I64LessLitNError> {
            match Self::spec_validate(Self::spec_sanitize(raw)) {
                Ok(_) => Ok(C16I64LessLitN(Self::spec_sanitize(raw))),
                Err(e) => Err(e),
            }
        }
        #[verifier::type_invariant]
        closed spec fn spec_inv(self) -> bool { Self::spec_validate(self.0) is Ok }
    }
    impl C16I64LessLitN {
        pub proof fn lemma_c16_LessViolated(x: i64)
            ensures (x < ((-7))) <==> (x < ((-7))),
        {
        }
    }
}
pub use __nutype_C16I64LessLitN__::C16I64LessLitN;
pub use __nutype_C16I64LessLitN__::C16I64LessLitNError;

}
pub mod d_c16_i64_less_lit_big {
    use super::*;
// NUTYPE_VERIF_INPUT #[nutype(validate(less = 100), derive(Debug))] pub struct C16I64LessLitBig(i64);
#[doc(hidden)]
#[allow(
    non_snake_case,
    reason = "we keep original structure name which is probably CamelCase"
)]
mod __nutype_C16I64LessLitBig__ {
    use super::*;
    #[derive(Debug)]
    pub struct C16I64LessLitBig(i64);
    #[derive(Debug, Clone, PartialEq, Eq)]
    #[allow(clippy::enum_variant_names)]
    pub enum C16I64LessLitBigError {
        LessViolated,
    }
    #[verifier::external]
impl ::core::fmt::Display for C16I64LessLitBigError {
        fn fmt(&self, f: &mut ::core::fmt::Formatter<'_>) -> ::core::fmt::Result {
            match self {
                C16I64LessLitBigError::LessViolated => write!(
                    f,
                    "{} is too big. The value must be less than {:#?}.",
                    stringify!(C16I64LessLitBig),
                    100i64
                ),
            }
        }
    }
    #[verifier::external]
impl ::core::error::Error for C16I64LessLitBigError {
        fn source(&self) -> Option<&(dyn ::core::error::Error + 'static)> {
            None
        }
    }
    impl C16I64LessLitBig {
        pub fn try_new(raw_value: i64) -> (r: ::core::result::Result<Self, C16I64LessLitBigError>) 
            ensures
                r == Self::spec_try_new(raw_value),
                r is Err ==> Self::spec_validate(Self::spec_sanitize(raw_value)) == Err::<(), C16I64LessLitBigError>(r->Err_0),
        {
            let sanitized_value: i64 = Self::__sanitize__(raw_value);
            #[allow(clippy::question_mark)]
            if let Err(e) = Self::__validate__(&sanitized_value) {
                return Err(e);
            }
            Ok(C16I64LessLitBig(sanitized_value))
        }
        fn __sanitize__(mut value: i64) -> (r: i64) 
            ensures
                r == Self::spec_sanitize(value),
        {
            value
        }
        fn __validate__(val: &i64) -> (r: ::core::result::Result<(), C16I64LessLitBigError>) 
            ensures
                r == Self::spec_validate(*val),
                r is Err ==> r == Self::spec_validate(*val),
        {
            let val = *val;
            if val >= 100i64 {
                return Err(C16I64LessLitBigError::LessViolated);
            }
            Ok(())
        }
    }
    impl C16I64LessLitBig {
        #[inline]
        pub fn into_inner(self) -> (r: i64) 
            ensures
                r == self.spec_view(),
        {
            self.0
        }
    }
    #[cfg(test)]
    mod tests {
        use super::*;
    }

    // ======== inserted by the annotator: spec-mode items only ========
    impl C16I64LessLitBig {
        pub closed spec fn spec_view(self) -> i64 { self.0 }
        pub closed spec fn spec_sanitize(x: i64) -> i64 { x }
        pub closed spec fn spec_validate(x: i64) -> ::core::result::Result<(), C16I64LessLitBigError> {
            if !(x < (100)) { Err(C16I64LessLitBigError::LessViolated) } else { Ok(()) }
        }
        pub closed spec fn spec_post(raw: i64, r: ::core::result::Result<Self, C16I64LessLitBigError>) -> bool { r == Self::spec_try_new(raw) }
        pub closed spec fn spec_try_new(raw: i64) -> ::core::result::Result<Self, C16I64LessLitBigError> {
            match Self::spec_validate(Self::spec_sanitize(raw)) {
                Ok(_) => Ok(C16I64LessLitBig(Self::spec_sanitize(raw))),
                Err(e) => Err(e),
            }
        }
        #[verifier::type_invariant]
        closed spec fn spec_inv(self) -> bool { Self::spec_validate(self.0) is Ok }
    }
    impl C16I64LessLitBig {
        pub proof fn lemma_c16_LessViolated(x: i64)
            ensures (x < (100)) <==> (x < (100)),
        {
        }
    }
}
pub use __nutype_C16I64LessLitBig__::C16I64LessLitBig;
pub use __nutype_C16I64LessLitBig__::C16I64LessLitBigError;

}
pub mod d_c16_i64_less_or_equal_sym {
    use super::*;
// NUTYPE_VERIF_INPUT #[nutype(validate(less_or_equal = sym_hi_i64()), derive(Debug))] pub struct C16I64LessOrEqualSym(i64);
#[doc(hidden)]
#[allow(
    non_snake_case,
    reason = "we keep original structure name which is probably CamelCase"
)]
mod __nutype_C16I64LessOrEqualSym__ {
    use super::*;
    #[derive(Debug)]
    pub struct C16I64LessOrEqualSym(i64);
    #[derive(Debug, Clone, PartialEq, Eq)]
    #[allow(clippy::enum_variant_names)]
    pub enum C16I64LessOrEqualSymError {
        LessOrEqualViolated,
    }
    #[verifier::external]
impl ::core::fmt::Display for C16I64LessOrEqualSymError {
        fn fmt(&self, f: &mut ::core::fmt::Formatter<'_>) -> ::core::fmt::Result {
            match self {
                C16I64LessOrEqualSymError::LessOrEqualViolated => write!(
                    f,
                    "{} is too big. The value must be less or equal to {:#?}.",
                    stringify!(C16I64LessOrEqualSym),
                    sym_hi_i64()
                ),
            }
        }
    }
    #[verifier::external]
impl ::core::error::Error for C16I64LessOrEqualSymError {
        fn source(&self) -> Option<&(dyn ::core::error::Error + 'static)> {
            None
        }
    }
    impl C16I64LessOrEqualSym {
        pub fn try_new(raw_value: i64) -> (r: ::core::result::Result<Self, C16I64LessOrEqualSymError>) 
            ensures
                r == Self::spec_try_new(raw_value),
                r is Err ==> Self::spec_validate(Self::spec_sanitize(raw_value)) == Err::<(), C16I64LessOrEqualSymError>(r->Err_0),
        {
            let sanitized_value: i64 = Self::__sanitize__(raw_value);
            #[allow(clippy::question_mark)]
            if let Err(e) = Self::__validate__(&sanitized_value) {
                return Err(e);
            }
            Ok(C16I64LessOrEqualSym(sanitized_value))
        }
        fn __sanitize__(mut value: i64) -> (r: i64) 
            ensures
                r == Self::spec_sanitize(value),
        {
            value
        }
        fn __validate__(val: &i64) -> (r: ::core::result::Result<(), C16I64LessOrEqualSymError>) 
            ensures
                r == Self::spec_validate(*val),
                r is Err ==> r == Self::spec_validate(*val),
        {
            let val = *val;
            if val > sym_hi_i64() {
                return Err(C16I64LessOrEqualSymError::LessOrEqualViolated);
            }
            Ok(())
        }
    }
    impl C16I64LessOrEqualSym {
        #[inline]
        pub fn into_inner(self) -> (r: i64) 
            ensures
                r == self.spec_view(),
        {
            self.0
        }
    }
    #[cfg(test)]
    mod tests {
        use super::*;
    }

    // ======== inserted by the annotator: spec-mode items only ========
    impl C16I64LessOrEqualSym {
        pub closed spec fn spec_view(self) -> i64 { self.0 }
        pub closed spec fn spec_sanitize(x: i64) -> i64 { x }
        pub closed spec fn spec_validate(x: i64) -> ::core::result::Result<(), C16I64LessOrEqualSymError> {
            if !(x <= (SYM_HI_I64())) { Err(C16I64LessOrEqualSymError::LessOrEqualViolated) } else { Ok(()) }
        }
        pub closed spec fn spec_post(raw: i64, r: ::core::result::Result<Self, C16I64LessOrEqualSymError>) -> bool { r == Self::spec_try_new(raw) }
        pub closed spec fn spec_try_new(raw: i64) -> ::core::result::Result<Self, C16I64LessOrEqualSymError> {
            match Self::spec_validate(Self::spec_sanitize(raw)) {
                Ok(_) => Ok(C16I64LessOrEqualSym(Self::spec_sanitize(raw))),
                Err(e) => Err(e),
            }
        }
        #[verifier::type_invariant]
        closed spec fn spec_inv(self) -> bool { Self::spec_validate(self.0) is Ok }
    }
    impl C16I64LessOrEqualSym {
        pub proof fn lemma_c16_LessOrEqualViolated(x: i64)
            ensures (x <= (SYM_HI_I64())) <==> (x <= (SYM_HI_I64())),
        {
        }
    }
}
pub use __nutype_C16I64LessOrEqualSym__::C16I64LessOrEqualSym;
pub use __nutype_C16I64LessOrEqualSym__::C16I64LessOrEqualSymError;

}
pub mod d_c16_i64_less_or_equal_lit_p {
    use super::*;
// NUTYPE_VERIF_INPUT #[nutype(validate(less_or_equal = 7), derive(Debug))] pub struct C16I64LessOrEqualLitP(i64);
#[doc(hidden)]
#[allow(
    non_snake_case,
    reason = "we keep original structure name which is probably CamelCase"
)]
mod __nutype_C16I64LessOrEqualLitP__ {
    use super::*;
    #[derive(Debug)]
    pub struct C16I64LessOrEqualLitP(i64);
    #[derive(Debug, Clone, PartialEq, Eq)]
    #[allow(clippy::enum_variant_names)]
    pub enum C16I64LessOrEqualLitPError {
        LessOrEqualViolated,
    }
    #[verifier::external]
impl ::core::fmt::Display for C16I64LessOrEqualLitPError {
        fn fmt(&self, f: &mut ::core::fmt::Formatter<'_>) -> ::core::fmt::Result {
            match self {
                C16I64LessOrEqualLitPError::LessOrEqualViolated => write!(
                    f,
                    "{} is too big. The value must be less or equal to {:#?}.",
                    stringify!(C16I64LessOrEqualLitP),
                    7i64
                ),
            }
        }
    }
    #[verifier::external]
impl ::core::error::Error for C16I64LessOrEqualLitPError {
        fn source(&self) -> Option<&(dyn ::core::error::Error + 'static)> {
            None
        }
    }
    impl C16I64LessOrEqualLitP {
        pub fn try_new(raw_value: i64) -> (r: ::core::result::Result<Self, C16I64LessOrEqualLitPError>) 
            ensures
                r == Self::spec_try_new(raw_value),
                r is Err ==> Self::spec_validate(Self::spec_sanitize(raw_value)) == Err::<(), C16I64LessOrEqualLitPError>(r->Err_0),
        {
            let sanitized_value: i64 = Self::__sanitize__(raw_value);
            #[allow(clippy::question_mark)]
            if let Err(e) = Self::__validate__(&sanitized_value) {
                return Err(e);
            }
            Ok(C16I64LessOrEqualLitP(sanitized_value))
        }
        fn __sanitize__(mut value: i64) -> (r: i64) 
            ensures
                r == Self::spec_sanitize(value),
        {
            value
        }
        fn __validate__(val: &i64) -> (r: ::core::result::Result<(), C16I64LessOrEqualLitPError>) 
            ensures
                r == Self::spec_validate(*val),
                r is Err ==> r == Self::spec_validate(*val),
        {
            let val = *val;
            if val > 7i64 {
                return Err(C16I64LessOrEqualLitPError::LessOrEqualViolated);
            }
            Ok(())
        }
    }
    impl C16I64LessOrEqualLitP {
        #[inline]
        pub fn into_inner(self) -> (r: i64) 
            ensures
                r == self.spec_view(),
        {
            self.0
        }
    }
    #[cfg(test)]
    mod tests {
        use super::*;
    }

    // ======== inserted by the annotator: spec-mode items only ========
    impl C16I64LessOrEqualLitP {
        pub closed spec fn spec_view(self) -> i64 { self.0 }
        pub closed spec fn spec_sanitize(x: i64) -> i64 { x }
        pub closed spec fn spec_validate(x: i64) -> ::core::result::Result<(), C16I64LessOrEqualLitPError> {
            if !(x <= (7)) { Err(C16I64LessOrEqualLitPError::LessOrEqualViolated) } else { Ok(()) }
        }
        pub closed spec fn spec_post(raw: i64, r: ::core::result::Result<Self, C16I64LessOrEqualLitPError>) -> bool { r == Self::spec_try_new(raw) }
        pub closed spec fn spec_try_new(raw: i64) -> ::core::result::Result<Self, C16I64LessOrEqualLitPError> {
            match Self::spec_validate(Self::spec_sanitize(raw)) {
                Ok(_) => Ok(C16I64LessOrEqualLitP(Self::spec_sanitize(raw))),
                Err(e) => Err(e),
            }
        }
        #[verifier::type_invariant]
        closed spec fn spec_inv(self) -> bool { Self::spec_validate(self.0) is Ok }
    }
    impl C16I64LessOrEqualLitP {
        pub proof fn lemma_c16_LessOrEqualViolated(x: i64)
            ensures (x <= (7)) <==> (x <= (7)),
        {
        }
    }
}
pub use __nutype_C16I64LessOrEqualLitP__::C16I64LessOrEqualLitP;
pub use __nutype_C16I64LessOrEqualLitP__::C16I64LessOrEqualLitPError;

}
pub mod d_c16_i64_less_or_equal_lit_n {
    use super::*;
// NUTYPE_VERIF_INPUT #[nutype(validate(less_or_equal = -7), derive(Debug))] pub struct C16I64LessOrEqualLitN(i64);
#[doc(hidden)]
#[allow(
    non_snake_case,
    reason = "we keep original structure name which is probably CamelCase"
)]
mod __nutype_C16I64LessOrEqualLitN__ {
    use super::*;
    #[derive(Debug)]
    pub struct C16I64LessOrEqualLitN(i64);
    #[derive(Debug, Clone, PartialEq, Eq)]
    #[allow(clippy::enum_variant_names)]
    pub enum C16I64LessOrEqualLitNError {
        LessOrEqualViolated,
    }
    #[verifier::external]
impl ::core::fmt::Display for C16I64LessOrEqualLitNError {
        fn fmt(&self, f: &mut ::core::fmt::Formatter<'_>) -> ::core::fmt::Result {
            match self {
                C16I64LessOrEqualLitNError::LessOrEqualViolated => write!(
                    f,
                    "{} is too big. The value must be less or equal to {:#?}.",
                    stringify!(C16I64LessOrEqualLitN),
                    -7i64
                ),
            }
        }
    }
    #[verifier::external]
impl ::core::error::Error for C16I64LessOrEqualLitNError {
        fn source(&self) -> Option<&(dyn ::core::error::Error + 'static)> {
            None
        }
    }
    impl C16I64LessOrEqualLitN {
        pub fn try_new(raw_value: i64) -> (r: ::core::result::Result<Self, C16I64LessOrEqualLitNError>) 
            ensures
                r == Self::spec_try_new(raw_value),
                r is Err ==> Self::spec_validate(Self::spec_sanitize(raw_value)) == Err::<(), C16I64LessOrEqualLitNError>(r->Err_0),
        {
            let sanitized_value: i64 = Self::__sanitize__(raw_value);
            #[allow(clippy::question_mark)]
            if let Err(e) = Self::__validate__(&sanitized_value) {
                return Err(e);
            }
            Ok(C16I64LessOrEqualLitN(sanitized_value))
        }
        fn __sanitize__(mut value: i64) -> (r: i64) 
            ensures
                r == Self::spec_sanitize(value),
        {
            value
        }
        fn __validate__(val: &i64) -> (r: ::core::result::Result<(), C16I64LessOrEqualLitNError>) 
            ensures
                r == Self::spec_validate(*val),
                r is Err ==> r == Self::spec_validate(*val),
        {
            let val = *val;
            if val > -7i64 {
                return Err(C16I64LessOrEqualLitNError::LessOrEqualViolated);
            }
            Ok(())
        }
    }
    impl C16I64LessOrEqualLitN {
        #[inline]
        pub fn into_inner(self) -> (r: i64) 
            ensures
                r == self.spec_view(),
        {
            self.0
        }
    }
    #[cfg(test)]
    mod tests {
        use super::*;
    }

    // ======== inserted by the annotator: spec-mode items only ========
    impl C16I64LessOrEqualLitN {
        pub closed spec fn spec_view(self) -> i64 { self.0 }
        pub closed spec fn spec_sanitize(x: i64) -> i64 { x }
        pub closed spec fn spec_validate(x: i64) -> ::core::result::Result<(), C16I64LessOrEqualLitNError> {
            if !(x <= ((-7))) { Err(C16I64LessOrEqualLitNError::LessOrEqualViolated) } else { Ok(()) }
        }
        pub closed spec fn spec_post(raw: i64, r: ::core::result::Result<Self, C16I64LessOrEqualLitNError>) -> bool { r == Self::spec_try_new(raw) }
        pub closed spec fn spec_try_new(raw: i64) -> ::core::result::Result<Self, C16I64LessOrEqualLitNError> {
            match Self::spec_validate(Self::spec_sanitize(raw)) {
                Ok(_) => Ok(C16I64LessOrEqualLitN(Self::spec_sanitize(raw))),
                Err(e) => Err(e),
            }
        }
        #[verifier::type_invariant]
        closed spec fn spec_inv(self) -> bool { Self::spec_validate(self.0) is Ok }
    }
    impl C16I64LessOrEqualLitN {
        pub proof fn lemma_c16_LessOrEqualViolated(x: i64)
            ensures (x <= ((-7))) <==> (x <= ((-7))),
        {
        }
    }
}
pub use __nutype_C16I64LessOrEqualLitN__::C16I64LessOrEqualLitN;
pub use __nutype_C16I64LessOrEqualLitN__::C16I64LessOrEqualLitNError;

}
pub mod d_c16_i64_less_or_equal_lit_big {
    use super::*;
// NUTYPE_VERIF_INPUT #[nutype(validate(less_or_equal = 100), derive(Debug))] pub struct C16I64LessOrEqualLitBig(i64);
#[doc(hidden)]
#[allow(
    non_snake_case,
    reason = "we keep original structure name which is probably CamelCase"
)]
mod __nutype_C16I64LessOrEqualLitBig__ {
    use super::*;
    #[derive(Debug)]
    pub struct C16I64LessOrEqualLitBig(i64);
    #[derive(Debug, Clone, PartialEq, Eq)]
    #[allow(clippy::enum_variant_names)]
    pub enum C16I64LessOrEqualLitBigError {
        LessOrEqualViolated,
    }
    #[verifier::external]
impl ::core::fmt::Display for C16I64LessOrEqualLitBigError {
        fn fmt(&self, f: &mut ::core::fmt::Formatter<'_>) -> ::core::fmt::Result {
            match self {
                C16I64LessOrEqualLitBigError::LessOrEqualViolated => write!(
                    f,
                    "{} is too big. The value must be less or equal to {:#?}.",
                    stringify!(C16I64LessOrEqualLitBig),
                    100i64
                ),
            }
        }
    }
    #[verifier::external]
impl ::core::error::Error for C16I64LessOrEqualLitBigError {
        fn source(&self) -> Option<&(dyn ::core::error::Error + 'static)> {
            None
        }
    }
    impl C16I64LessOrEqualLitBig {
        pub fn try_new(
            raw_value: i64,
        ) -> (r: ::core::result::Result<Self, C16I64LessOrEqualLitBigError>) 
            ensures
                r == Self::spec_try_new(raw_value),
                r is Err ==> Self::spec_validate(Self::spec_sanitize(raw_value)) == Err::<(), C16I64LessOrEqualLitBigError>(r->Err_0),
        {
            let sanitized_value: i64 = Self::__sanitize__(raw_value);
            #[allow(clippy::question_mark)]
            if let Err(e) = Self::__validate__(&sanitized_value) {
                return Err(e);
            }
            Ok(C16I64LessOrEqualLitBig(sanitized_value))
        }
        fn __sanitize__(mut value: i64) -> (r: i64) 
            ensures
                r == Self::spec_sanitize(value),
        {
            value
        }
        fn __validate__(val: &i64) -> (r: ::core::result::Result<(), C16I64LessOrEqualLitBigError>) 
            ensures
                r == Self::spec_validate(*val),
                r is Err ==> r == Self::spec_validate(*val),
        {
            let val = *val;
            if val > 100i64 {
                return Err(C16I64LessOrEqualLitBigError::LessOrEqualViolated);
            }
            Ok(())
        }
    }
    impl C16I64LessOrEqualLitBig {
        #[inline]
        pub fn into_inner(self) -> (r: i64) 
            ensures
                r == self.spec_view(),
        {
            self.0
        }
    }
    #[cfg(test)]
    mod tests {
        use super::*;
    }

    // ======== inserted by the annotator: spec-mode items only ========
    impl C16I64LessOrEqualLitBig {
        pub closed spec fn spec_view(self) -> i64 { self.0 }
        pub closed spec fn spec_sanitize(x: i64) -> i64 { x }
        pub closed spec fn spec_validate(x: i64) -> ::core::result::Result<(), C16I64LessOrEqualLitBigError> {
            if !(x <= (100)) { Err(C16I64LessOrEqualLitBigError::LessOrEqualViolated) } else { Ok(()) }
        }
        pub closed spec fn spec_post(raw: i64, r: ::core::result::Result<Self, C16I64LessOrEqualLitBigError>) -> bool { r == Self::spec_try_new(raw) }
        pub closed spec fn spec_try_new(raw: i64) -> ::core::result::Result<Self, C16I64LessOrEqualLitBigError> {
            match Self::spec_validate(Self::spec_sanitize(raw)) {
                Ok(_) => Ok(C16I64LessOrEqualLitBig(Self::spec_sanitize(raw))),
                Err(e) => Err(e),
            }
        }
        #[verifier::type_invariant]
        closed spec fn spec_inv(self) -> bool { Self::spec_validate(self.0) is Ok }
    }
    impl C16I64LessOrEqualLitBig {
        pub proof fn lemma_c16_LessOrEqualViolated(x: i64)
            ensures (x <= (100)) <==> (x <= (100)),
        {
        }
    }
}
pub use __nutype_C16I64LessOrEqualLitBig__::C16I64LessOrEqualLitBig;
pub use __nutype_C16I64LessOrEqualLitBig__::C16I64LessOrEqualLitBigError;

}

// vacuity canary: this MUST fail; if it verifies the assumptions are inconsistent
proof fn __verif_canary() ensures false {}
} // verus!
fn main() {}
