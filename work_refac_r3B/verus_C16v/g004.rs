// GENERATED on every run: real expansions of /repo's macro with contracts inserted in place.
#![allow(unused_imports, dead_code, unused_variables, unused_mut, non_snake_case, non_upper_case_globals, non_camel_case_types)]
use vstd::prelude::*;
use vstd::string::*;
use vstd::std_specs::iter::IteratorSpec;
verus! {
// ---- fixed prelude: ASSUMED contracts on the Rust standard library (trusted, listed in evidence) ----
// Every std function the generated code may call gets its own *uninterpreted* spec symbol, so a
// changed call (trim -> trim_start, to_lowercase -> to_ascii_lowercase, chars().count() -> len())
// fails a postcondition instead of turning into "unsupported".
pub uninterp spec fn spec_trim(s: Seq<char>) -> Seq<char>;
pub uninterp spec fn spec_trim_start(s: Seq<char>) -> Seq<char>;
pub uninterp spec fn spec_trim_end(s: Seq<char>) -> Seq<char>;
pub uninterp spec fn spec_lower(s: Seq<char>) -> Seq<char>;
pub uninterp spec fn spec_upper(s: Seq<char>) -> Seq<char>;
pub uninterp spec fn spec_ascii_lower(s: Seq<char>) -> Seq<char>;
pub uninterp spec fn spec_ascii_upper(s: Seq<char>) -> Seq<char>;

pub assume_specification[ str::trim ](s: &str) -> (r: &str)
    ensures r@ == spec_trim(s@);
pub assume_specification[ str::trim_start ](s: &str) -> (r: &str)
    ensures r@ == spec_trim_start(s@);
pub assume_specification[ str::trim_end ](s: &str) -> (r: &str)
    ensures r@ == spec_trim_end(s@);
pub assume_specification[ str::to_lowercase ](s: &str) -> (r: String)
    ensures r@ == spec_lower(s@);
pub assume_specification[ str::to_uppercase ](s: &str) -> (r: String)
    ensures r@ == spec_upper(s@);
pub assume_specification[ str::to_ascii_lowercase ](s: &str) -> (r: String)
    ensures r@ == spec_ascii_lower(s@);
pub assume_specification[ str::to_ascii_uppercase ](s: &str) -> (r: String)
    ensures r@ == spec_ascii_upper(s@);
pub uninterp spec fn spec_string_byte_len(s: Seq<char>) -> usize;
pub assume_specification[ String::len ](s: &String) -> (r: usize)
    ensures r == spec_string_byte_len(s@);
pub assume_specification<'a>[ <core::str::Chars<'a> as Iterator>::count ](c: core::str::Chars<'a>) -> (r: usize)
    ensures r == c.remaining().len();

global size_of usize == 8;

// opaque std error types that appear as payload of the generated `<X>ParseError` enums
#[verifier::external_type_specification]
#[verifier::external_body]
pub struct ExParseIntError(core::num::ParseIntError);
#[verifier::external_type_specification]
#[verifier::external_body]
pub struct ExParseFloatError(core::num::ParseFloatError);

// `impl Into<String>` arguments: the only facts assumed about the conversion.
pub broadcast axiom fn axiom_into_string_from_string(x: String, s: String)
    requires #[trigger] call_ensures(<String as Into<String>>::into, (x,), s)
    ensures s@ == x@;
pub broadcast axiom fn axiom_into_string_from_str(x: &str, s: String)
    requires #[trigger] call_ensures(<&str as Into<String>>::into, (x,), s)
    ensures s@ == x@;

// Algebraic facts about std's trim / case mapping used only by the C11 (canonical form) lemmas.
// A1-A3 idempotence; A4/A5 case mapping neither creates nor removes edge whitespace, i.e. trim and
// case mapping commute "up to" re-application.  Statements about std, not about nutype.
pub broadcast axiom fn axiom_trim_idem(s: Seq<char>)
    ensures #[trigger] spec_trim(spec_trim(s)) == spec_trim(s);
pub broadcast axiom fn axiom_lower_idem(s: Seq<char>)
    ensures #[trigger] spec_lower(spec_lower(s)) == spec_lower(s);
pub broadcast axiom fn axiom_upper_idem(s: Seq<char>)
    ensures #[trigger] spec_upper(spec_upper(s)) == spec_upper(s);
pub broadcast axiom fn axiom_trim_of_lower_of_trim(s: Seq<char>)
    ensures #[trigger] spec_trim(spec_lower(spec_trim(s))) == spec_lower(spec_trim(s));
pub broadcast axiom fn axiom_trim_of_upper_of_trim(s: Seq<char>)
    ensures #[trigger] spec_trim(spec_upper(spec_trim(s))) == spec_upper(spec_trim(s));
pub broadcast axiom fn axiom_lower_of_trim_of_lower(s: Seq<char>)
    ensures #[trigger] spec_lower(spec_trim(spec_lower(s))) == spec_trim(spec_lower(s));
pub broadcast axiom fn axiom_upper_of_trim_of_upper(s: Seq<char>)
    ensures #[trigger] spec_upper(spec_trim(spec_upper(s))) == spec_trim(spec_upper(s));
pub broadcast group group_c11_std_axioms {
    axiom_trim_idem, axiom_lower_idem, axiom_upper_idem,
    axiom_trim_of_lower_of_trim, axiom_trim_of_upper_of_trim,
    axiom_lower_of_trim_of_lower, axiom_upper_of_trim_of_upper,
}

// ---- auxiliary items of the catalogue (symbolic bounds, custom functions) ----
pub uninterp spec fn SYM_LO_I64() -> i64;
#[verifier::external_body]
pub fn sym_lo_i64() -> (r: i64) ensures r == SYM_LO_I64() { 3 }

pub mod d_c16_i64_greater_sym {
    use super::*;
// NUTYPE_VERIF_INPUT #[nutype(validate(greater = sym_lo_i64()), derive(Debug))] pub struct C16I64GreaterSym(i64);
#[doc(hidden)]
#[allow(
    non_snake_case,
    reason = "we keep original structure name which is probably CamelCase"
)]
mod __nutype_C16I64GreaterSym__ {
    use super::*;
    #[derive(Debug)]
    pub struct C16I64GreaterSym(i64);
    #[derive(Debug, Clone, PartialEq, Eq)]
    #[allow(clippy::enum_variant_names)]
    pub enum C16I64GreaterSymError {
        GreaterViolated,
    }
    #[verifier::external]
impl ::core::fmt::Display for C16I64GreaterSymError {
        fn fmt(&self, f: &mut ::core::fmt::Formatter<'_>) -> ::core::fmt::Result {
            match self {
                C16I64GreaterSymError::GreaterViolated => write!(
                    f,
                    "{} is too small. The value must be greater than {:#?}.",
                    stringify!(C16I64GreaterSym),
                    sym_lo_i64()
                ),
            }
        }
    }
    #[verifier::external]
impl ::core::error::Error for C16I64GreaterSymError {
        fn source(&self) -> Option<&(dyn ::core::error::Error + 'static)> {
            None
        }
    }
    impl C16I64GreaterSym {
        pub fn try_new(raw_value: i64) -> (r: ::core::result::Result<Self, C16I64GreaterSymError>) 
            ensures
                r == Self::spec_try_new(raw_value),
                r is Err ==> Self::spec_validate(Self::spec_sanitize(raw_value)) == Err::<(), C16I64GreaterSymError>(r->Err_0),
        {
            let sanitized_value: i64 = Self::__sanitize__(raw_value);
            #[allow(clippy::question_mark)]
            if let Err(e) = Self::__validate__(&sanitized_value) {
                return Err(e);
            }
            Ok(C16I64GreaterSym(sanitized_value))
        }
        fn __sanitize__(mut value: i64) -> (r: i64) 
            ensures
                r == Self::spec_sanitize(value),
        {
            value
        }
        fn __validate__(val: &i64) -> (r: ::core::result::Result<(), C16I64GreaterSymError>) 
            ensures
                r == Self::spec_validate(*val),
                r is Err ==> r == Self::spec_validate(*val),
        {
            let val = *val;
            if val <= sym_lo_i64() {
                return Err(C16I64GreaterSymError::GreaterViolated);
            }
            Ok(())
        }
    }
    impl C16I64GreaterSym {
        #[inline]
        pub fn into_inner(self) -> (r: i64) 
            ensures
                r == self.spec_view(),
        {
            self.0
        }
    }
    #[cfg(test)]
    mod tests {
        use super::*;
    }

    // ======== inserted by the annotator: spec-mode items only ========
    impl C16I64GreaterSym {
        pub closed spec fn spec_view(self) -> i64 { self.0 }
        pub closed spec fn spec_sanitize(x: i64) -> i64 { x }
        pub closed spec fn spec_validate(x: i64) -> ::core::result::Result<(), C16I64GreaterSymError> {
            if !(x > (SYM_LO_I64())) { Err(C16I64GreaterSymError::GreaterViolated) } else { Ok(()) }
        }
        pub closed spec fn spec_post(raw: i64, r: ::core::result::Result<Self, C16I64GreaterSymError>) -> bool { r == Self::spec_try_new(raw) }
        pub closed spec fn spec_try_new(raw: i64) -> ::core::result::Result<Self, C16I64GreaterSymError> {
            match Self::spec_validate(Self::spec_sanitize(raw)) {
                Ok(_) => Ok(C16I64GreaterSym(Self::spec_sanitize(raw))),
                Err(e) => Err(e),
            }
        }
        #[verifier::type_invariant]
        closed spec fn spec_inv(self) -> bool { Self::spec_validate(self.0) is Ok }
    }
    impl C16I64GreaterSym {
        pub proof fn lemma_c16_GreaterViolated(x: i64)
            ensures (x > (SYM_LO_I64())) <==> (x > (SYM_LO_I64())),
        {
        }
    }
}
pub use __nutype_C16I64GreaterSym__::C16I64GreaterSym;
pub use __nutype_C16I64GreaterSym__::C16I64GreaterSymError;

}
pub mod d_c16_i64_greater_lit_p {
    use super::*;
// NUTYPE_VERIF_INPUT #[nutype(validate(greater = 7), derive(Debug))] pub struct C16I64GreaterLitP(i64);
#[doc(hidden)]
#[allow(
    non_snake_case,
    reason = "we keep original structure name which is probably CamelCase"
)]
mod __nutype_C16I64GreaterLitP__ {
    use super::*;
    #[derive(Debug)]
    pub struct C16I64GreaterLitP(i64);
    #[derive(Debug, Clone, PartialEq, Eq)]
    #[allow(clippy::enum_variant_names)]
    pub enum C16I64GreaterLitPError {
        GreaterViolated,
    }
    #[verifier::external]
impl ::core::fmt::Display for C16I64GreaterLitPError {
        fn fmt(&self, f: &mut ::core::fmt::Formatter<'_>) -> ::core::fmt::Result {
            match self {
                C16I64GreaterLitPError::GreaterViolated => write!(
                    f,
                    "{} is too small. The value must be greater than {:#?}.",
                    stringify!(C16I64GreaterLitP),
                    7i64
                ),
            }
        }
    }
    #[verifier::external]
impl ::core::error::Error for C16I64GreaterLitPError {
        fn source(&self) -> Option<&(dyn ::core::error::Error + 'static)> {
            None
        }
    }
    impl C16I64GreaterLitP {
        pub fn try_new(raw_value: i64) -> (r: ::core::result::Result<Self, C16I64GreaterLitPError>) 
            ensures
                r == Self::spec_try_new(raw_value),
                r is Err ==> Self::spec_validate(Self::spec_sanitize(raw_value)) == Err::<(), C16I64GreaterLitPError>(r->Err_0),
        {
            let sanitized_value: i64 = Self::__sanitize__(raw_value);
            #[allow(clippy::question_mark)]
            if let Err(e) = Self::__validate__(&sanitized_value) {
                return Err(e);
            }
            Ok(C16I64GreaterLitP(sanitized_value))
        }
        fn __sanitize__(mut value: i64) -> (r: i64) 
            ensures
                r == Self::spec_sanitize(value),
        {
            value
        }
        fn __validate__(val: &i64) -> (r: ::core::result::Result<(), C16I64GreaterLitPError>) 
            ensures
                r == Self::spec_validate(*val),
                r is Err ==> r == Self::spec_validate(*val),
        {
            let val = *val;
            if val <= 7i64 {
                return Err(C16I64GreaterLitPError::GreaterViolated);
            }
            Ok(())
        }
    }
    impl C16I64GreaterLitP {
        #[inline]
        pub fn into_inner(self) -> (r: i64) 
            ensures
                r == self.spec_view(),
        {
            self.0
        }
    }
    #[cfg(test)]
    mod tests {
        use super::*;
    }

    // ======== inserted by the annotator: spec-mode items only ========
    impl C16I64GreaterLitP {
        pub closed spec fn spec_view(self) -> i64 { self.0 }
        pub closed spec fn spec_sanitize(x: i64) -> i64 { x }
        pub closed spec fn spec_validate(x: i64) -> ::core::result::Result<(), C16I64GreaterLitPError> {
            if !(x > (7)) { Err(C16I64GreaterLitPError::GreaterViolated) } else { Ok(()) }
        }
        pub closed spec fn spec_post(raw: i64, r: ::core::result::Result<Self, C16I64GreaterLitPError>) -> bool { r == Self::spec_try_new(raw) }
        pub closed spec fn spec_try_new(raw: i64) -> ::core::result::Result<Self, C16I64GreaterLitPError> {
            match Self::spec_validate(Self::spec_sanitize(raw)) {
                Ok(_) => Ok(C16I64GreaterLitP(Self::spec_sanitize(raw))),
                Err(e) => Err(e),
            }
        }
        #[verifier::type_invariant]
        closed spec fn spec_inv(self) -> bool { Self::spec_validate(self.0) is Ok }
    }
    impl C16I64GreaterLitP {
        pub proof fn lemma_c16_GreaterViolated(x: i64)
            ensures (x > (7)) <==> (x > (7)),
        {
        }
    }
}
pub use __nutype_C16I64GreaterLitP__::C16I64GreaterLitP;
pub use __nutype_C16I64GreaterLitP__::C16I64GreaterLitPError;

}
pub mod d_c16_i64_greater_lit_n {
    use super::*;
// NUTYPE_VERIF_INPUT #[nutype(validate(greater = -7), derive(Debug))] pub struct C16I64GreaterLitN(i64);
#[doc(hidden)]
#[allow(
    non_snake_case,
    reason = "we keep original structure name which is probably CamelCase"
)]
mod __nutype_C16I64GreaterLitN__ {
    use super::*;
    #[derive(Debug)]
    pub struct C16I64GreaterLitN(i64);
    #[derive(Debug, Clone, PartialEq, Eq)]
    #[allow(clippy::enum_variant_names)]
    pub enum C16I64GreaterLitNError {
        GreaterViolated,
    }
    #[verifier::external]
impl ::core::fmt::Display for C16I64GreaterLitNError {
        fn fmt(&self, f: &mut ::core::fmt::Formatter<'_>) -> ::core::fmt::Result {
            match self {
                C16I64GreaterLitNError::GreaterViolated => write!(
                    f,
                    "{} is too small. The value must be greater than {:#?}.",
                    stringify!(C16I64GreaterLitN),
                    -7i64
                ),
            }
        }
    }
    #[verifier::external]
impl ::core::error::Error for C16I64GreaterLitNError {
        fn source(&self) -> Option<&(dyn ::core::error::Error + 'static)> {
            None
        }
    }
    impl C16I64GreaterLitN {
        pub fn try_new(raw_value: i64) -> (r: ::core::result::Result<Self, C16I64GreaterLitNError>) 
            ensures
                r == Self::spec_try_new(raw_value),
                r is Err ==> Self::spec_validate(Self::spec_sanitize(raw_value)) == Err::<(), C16I64GreaterLitNError>(r->Err_0),
        {
            let sanitized_value: i64 = Self::__sanitize__(raw_value);
            #[allow(clippy::question_mark)]
            if let Err(e) = Self::__validate__(&sanitized_value) {
                return Err(e);
            }
            Ok(C16I64GreaterLitN(sanitized_value))
        }
        fn __sanitize__(mut value: i64) -> (r: i64) 
            ensures
                r == Self::spec_sanitize(value),
        {
            value
        }
        fn __validate__(val: &i64) -> (r: ::core::result::Result<(), C16I64GreaterLitNError>) 
            ensures
                r == Self::spec_validate(*val),
                r is Err ==> r == Self::spec_validate(*val),
        {
            let val = *val;
            if val <= -7i64 {
                return Err(C16I64GreaterLitNError::GreaterViolated);
            }
            Ok(())
        }
    }
    impl C16I64GreaterLitN {
        #[inline]
        pub fn into_inner(self) -> (r: i64) 
            ensures
                r == self.spec_view(),
        {
            self.0
        }
    }
    #[cfg(test)]
    mod tests {
        use super::*;
    }

    // ======== inserted by the annotator: spec-mode items only ========
    impl C16I64GreaterLitN {
        pub closed spec fn spec_view(self) -> i64 { self.0 }
        pub closed spec fn spec_sanitize(x: i64) -> i64 { x }
        pub closed spec fn spec_validate(x: i64) -> ::core::result::Result<(), C16I64GreaterLitNError> {
            if !(x > ((-7))) { Err(C16I64GreaterLitNError::GreaterViolated) } else { Ok(()) }
        }
        pub closed spec fn spec_post(raw: i64, r: ::core::result::Result<Self, C16I64GreaterLitNError>) -> bool { r == Self::spec_try_new(raw) }
        pub closed spec fn spec_try_new(raw: i64) -> ::core::result::Result<Self, C16I64GreaterLitNError> {
            match Self::spec_validate(Self::spec_sanitize(raw)) {
                Ok(_) => Ok(C16I64GreaterLitN(Self::spec_sanitize(raw))),
                Err(e) => Err(e),
            }
        }
        #[verifier::type_invariant]
        closed spec fn spec_inv(self) -> bool { Self::spec_validate(self.0) is Ok }
    }
    impl C16I64GreaterLitN {
        pub proof fn lemma_c16_GreaterViolated(x: i64)
            ensures (x > ((-7))) <==> (x > ((-7))),
        {
        }
    }
}
pub use __nutype_C16I64GreaterLitN__::C16I64GreaterLitN;
pub use __nutype_C16I64GreaterLitN__::C16I64GreaterLitNError;

}
pub mod d_c16_i64_greater_lit_big {
    use super::*;
// NUTYPE_VERIF_INPUT #[nutype(validate(greater = 100), derive(Debug))] pub struct C16I64GreaterLitBig(i64);
#[doc(hidden)]
#[allow(
    non_snake_case,
    reason = "we keep original structure name which is probably CamelCase"
)]
mod __nutype_C16I64GreaterLitBig__ {
    use super::*;
    #[derive(Debug)]
    pub struct C16I64GreaterLitBig(i64);
    #[derive(Debug, Clone, PartialEq, Eq)]
    #[allow(clippy::enum_variant_names)]
    pub enum C16I64GreaterLitBigError {
        GreaterViolated,
    }
    #[verifier::external]
impl ::core::fmt::Display for C16I64GreaterLitBigError {
        fn fmt(&self, f: &mut ::core::fmt::Formatter<'_>) -> ::core::fmt::Result {
            match self {
                C16I64GreaterLitBigError::GreaterViolated => write!(
                    f,
                    "{} is too small. The value must be greater than {:#?}.",
                    stringify!(C16I64GreaterLitBig),
                    100i64
                ),
            }
        }
    }
    #[verifier::external]
impl ::core::error::Error for C16I64GreaterLitBigError {
        fn source(&self) -> Option<&(dyn ::core::error::Error + 'static)> {
            None
        }
    }
    impl C16I64GreaterLitBig {
        pub fn try_new(raw_value: i64) -> (r: ::core::result::Result<Self, C16I64GreaterLitBigError>) 
            ensures
                r == Self::spec_try_new(raw_value),
                r is Err ==> Self::spec_validate(Self::spec_sanitize(raw_value)) == Err::<(), C16I64GreaterLitBigError>(r->Err_0),
        {
            let sanitized_value: i64 = Self::__sanitize__(raw_value);
            #[allow(clippy::question_mark)]
            if let Err(e) = Self::__validate__(&sanitized_value) {
                return Err(e);
            }
            Ok(C16I64GreaterLitBig(sanitized_value))
        }
        fn __sanitize__(mut value: i64) -> (r: i64) 
            ensures
                r == Self::spec_sanitize(value),
        {
            value
        }
        fn __validate__(val: &i64) -> (r: ::core::result::Result<(), C16I64GreaterLitBigError>) 
            ensures
                r == Self::spec_validate(*val),
                r is Err ==> r == Self::spec_validate(*val),
        {
            let val = *val;
            if val <= 100i64 {
                return Err(C16I64GreaterLitBigError::GreaterViolated);
            }
            Ok(())
        }
    }
    impl C16I64GreaterLitBig {
        #[inline]
        pub fn into_inner(self) -> (r: i64) 
            ensures
                r == self.spec_view(),
        {
            self.0
        }
    }
    #[cfg(test)]
    mod tests {
        use super::*;
    }

    // ======== inserted by the annotator: spec-mode items only ========
    impl C16I64GreaterLitBig {
        pub closed spec fn spec_view(self) -> i64 { self.0 }
        pub closed spec fn spec_sanitize(x: i64) -> i64 { x }
        pub closed spec fn spec_validate(x: i64) -> ::core::result::Result<(), C16I64GreaterLitBigError> {
            if !(x > (100)) { Err(C16I64GreaterLitBigError::GreaterViolated) } else { Ok(()) }
        }
        pub closed spec fn spec_post(raw: i64, r: ::core::result::Result<Self, C16I64GreaterLitBigError>) -> bool { r == Self::spec_try_new(raw) }
        pub closed spec fn spec_try_new(raw: i64) -> ::core::result::Result<Self, C16I64GreaterLitBigError> {
            match Self::spec_validate(Self::spec_sanitize(raw)) {
                Ok(_) => Ok(C16I64GreaterLitBig(Self::spec_sanitize(raw))),
                Err(e) => Err(e),
            }
        }
        #[verifier::type_invariant]
        closed spec fn spec_inv(self) -> bool { Self::spec_validate(self.0) is Ok }
    }
    impl C16I64GreaterLitBig {
        pub proof fn lemma_c16_GreaterViolated(x: i64)
            ensures (x > (100)) <==> (x > (100)),
        {
        }
    }
}
pub use __nutype_C16I64GreaterLitBig__::C16I64GreaterLitBig;
pub use __nutype_C16I64GreaterLitBig__::C16I64GreaterLitBigError;

}
pub mod d_c16_i64_greater_or_equal_sym {
    use super::*;
// NUTYPE_VERIF_INPUT #[nutype(validate(greater_or_equal = sym_lo_i64()), derive(Debug))] pub struct C16I64GreaterOrEqualSym(i64);
#[doc(hidden)]
#[allow(
    non_snake_case,
    reason = "we keep original structure name which is probably CamelCase"
)]
mod __nutype_C16I64GreaterOrEqualSym__ {
    use super::*;
    #[derive(Debug)]
    pub struct C16I64GreaterOrEqualSym(i64);
    #[derive(Debug, Clone, PartialEq, Eq)]
    #[allow(clippy::enum_variant_names)]
    pub enum C16I64GreaterOrEqualSymError {
        GreaterOrEqualViolated,
    }
    #[verifier::external]
impl ::core::fmt::Display for C16I64GreaterOrEqualSymError {
        fn fmt(&self, f: &mut ::core::fmt::Formatter<'_>) -> ::core::fmt::Result {
            match self {
                C16I64GreaterOrEqualSymError::GreaterOrEqualViolated => write!(
                    f,
                    "{} is too small. The value must be greater or equal to {:#?}.",
                    stringify!(C16I64GreaterOrEqualSym),
                    sym_lo_i64()
                ),
            }
        }
    }
    #[verifier::external]
impl ::core::error::Error for C16I64GreaterOrEqualSymError {
        fn source(&self) -> Option<&(dyn ::core::error::Error + 'static)> {
            None
        }
    }
    impl C16I64GreaterOrEqualSym {
        pub fn try_new(
            raw_value: i64,
        ) -> (r: ::core::result::Result<Self, C16I64GreaterOrEqualSymError>) 
            ensures
                r == Self::spec_try_new(raw_value),
                r is Err ==> Self::spec_validate(Self::spec_sanitize(raw_value)) == Err::<(), C16I64GreaterOrEqualSymError>(r->Err_0),
        {
            let sanitized_value: i64 = Self::__sanitize__(raw_value);
            #[allow(clippy::question_mark)]
            if let Err(e) = Self::__validate__(&sanitized_value) {
                return Err(e);
            }
            Ok(C16I64GreaterOrEqualSym(sanitized_value))
        }
        fn __sanitize__(mut value: i64) -> (r: i64) 
            ensures
                r == Self::spec_sanitize(value),
        {
            value
        }
        fn __validate__(val: &i64) -> (r: ::core::result::Result<(), C16I64GreaterOrEqualSymError>) 
            ensures
                r == Self::spec_validate(*val),
                r is Err ==> r == Self::spec_validate(*val),
        {
            let val = *val;
            if val < sym_lo_i64() {
                return Err(C16I64GreaterOrEqualSymError::GreaterOrEqualViolated);
            }
            Ok(())
        }
    }
    impl C16I64GreaterOrEqualSym {
        #[inline]
        pub fn into_inner(self) -> (r: i64) 
            ensures
                r == self.spec_view(),
        {
            self.0
        }
    }
    #[cfg(test)]
    mod tests {
        use super::*;
    }

    // ======== inserted by the annotator: spec-mode items only ========
    impl C16I64GreaterOrEqualSym {
        pub closed spec fn spec_view(self) -> i64 { self.0 }
        pub closed spec fn spec_sanitize(x: i64) -> i64 { x }
        pub closed spec fn spec_validate(x: i64) -> ::core::result::Result<(), C16I64GreaterOrEqualSymError> {
            if !(x >= (SYM_LO_I64())) { Err(C16I64GreaterOrEqualSymError::GreaterOrEqualViolated) } else { Ok(()) }
        }
        pub closed spec fn spec_post(raw: i64, r: ::core::result::Result<Self, C16I64GreaterOrEqualSymError>) -> bool { r == Self::spec_try_new(raw) }
        pub closed spec fn spec_try_new(raw: i64) -> ::core::result::Result<Self, C16I64GreaterOrEqualSymError> {
            match Self::spec_validate(Self::spec_sanitize(raw)) {
                Ok(_) => Ok(C16I64GreaterOrEqualSym(Self::spec_sanitize(raw))),
                Err(e) => Err(e),
            }
        }
        #[verifier::type_invariant]
        closed spec fn spec_inv(self) -> bool { Self::spec_validate(self.0) is Ok }
    }
    impl C16I64GreaterOrEqualSym {
        pub proof fn lemma_c16_GreaterOrEqualViolated(x: i64)
            ensures (x >= (SYM_LO_I64())) <==> (x >= (SYM_LO_I64())),
        {
        }
    }
}
pub use __nutype_C16I64GreaterOrEqualSym__::C16I64GreaterOrEqualSym;
pub use __nutype_C16I64GreaterOrEqualSym__::C16I64GreaterOrEqualSymError;

}
pub mod d_c16_i64_greater_or_equal_lit_p {
    use super::*;
// NUTYPE_VERIF_INPUT #[nutype(validate(greater_or_equal = 7), derive(Debug))] pub struct C16I64GreaterOrEqualLitP(i64);
#[doc(hidden)]
#[allow(
    non_snake_case,
    reason = "we keep original structure name which is probably CamelCase"
)]
mod __nutype_C16I64GreaterOrEqualLitP__ {
    use super::*;
    #[derive(Debug)]
    pub struct C16I64GreaterOrEqualLitP(i64);
    #[derive(Debug, Clone, PartialEq, Eq)]
    #[allow(clippy::enum_variant_names)]
    pub enum C16I64GreaterOrEqualLitPError {
        GreaterOrEqualViolated,
    }
    #[verifier::external]
impl ::core::fmt::Display for C16I64GreaterOrEqualLitPError {
        fn fmt(&self, f: &mut ::core::fmt::Formatter<'_>) -> ::core::fmt::Result {
            match self {
                C16I64GreaterOrEqualLitPError::GreaterOrEqualViolated => write!(
                    f,
                    "{} is too small. The value must be greater or equal to {:#?}.",
                    stringify!(C16I64GreaterOrEqualLitP),
                    7i64
                ),
            }
        }
    }
    #[verifier::external]
impl ::core::error::Error for C16I64GreaterOrEqualLitPError {
        fn source(&self) -> Option<&(dyn ::core::error::Error + 'static)> {
            None
        }
    }
    impl C16I64GreaterOrEqualLitP {
        pub fn try_new(
            raw_value: i64,
        ) -> (r: ::core::result::Result<Self, C16I64GreaterOrEqualLitPError>) 
            ensures
                r == Self::spec_try_new(raw_value),
                r is Err ==> Self::spec_validate(Self::spec_sanitize(raw_value)) == Err::<(), C16I64GreaterOrEqualLitPError>(r->Err_0),
        {
            let sanitized_value: i64 = Self::__sanitize__(raw_value);
            #[allow(clippy::question_mark)]
            if let Err(e) = Self::__validate__(&sanitized_value) {
                return Err(e);
            }
            Ok(C16I64GreaterOrEqualLitP(sanitized_value))
        }
        fn __sanitize__(mut value: i64) -> (r: i64) 
            ensures
                r == Self::spec_sanitize(value),
        {
            value
        }
        fn __validate__(val: &i64) -> (r: ::core::result::Result<(), C16I64GreaterOrEqualLitPError>) 
            ensures
                r == Self::spec_validate(*val),
                r is Err ==> r == Self::spec_validate(*val),
        {
            let val = *val;
            if val < 7i64 {
                return Err(C16I64GreaterOrEqualLitPError::GreaterOrEqualViolated);
            }
            Ok(())
        }
    }
    impl C16I64GreaterOrEqualLitP {
        #[inline]
        pub fn into_inner(self) -> (r: i64) 
            ensures
                r == self.spec_view(),
        {
            self.0
        }
    }
    #[cfg(test)]
    mod tests {
        use super::*;
    }

    // ======== inserted by the annotator: spec-mode items only ========
    impl C16I64GreaterOrEqualLitP {
        pub closed spec fn spec_view(self) -> i64 { self.0 }
        pub closed spec fn spec_sanitize(x: i64) -> i64 { x }
        pub closed spec fn spec_validate(x: i64) -> ::core::result::Result<(), C16I64GreaterOrEqualLitPError> {
            if !(x >= (7)) { Err(C16I64GreaterOrEqualLitPError::GreaterOrEqualViolated) } else { Ok(()) }
        }
        pub closed spec fn spec_post(raw: i64, r: ::core::result::Result<Self, C16I64GreaterOrEqualLitPError>) -> bool { r == Self::spec_try_new(raw) }
        pub closed spec fn spec_try_new(raw: i64) -> ::core::result::Result<Self, C16I64GreaterOrEqualLitPError> {
            match Self::spec_validate(Self::spec_sanitize(raw)) {
                Ok(_) => Ok(C16I64GreaterOrEqualLitP(Self::spec_sanitize(raw))),
                Err(e) => Err(e),
            }
        }
        #[verifier::type_invariant]
        closed spec fn spec_inv(self) -> bool { Self::spec_validate(self.0) is Ok }
    }
    impl C16I64GreaterOrEqualLitP {
        pub proof fn lemma_c16_GreaterOrEqualViolated(x: i64)
            ensures (x >= (7)) <==> (x >= (7)),
        {
        }
    }
}
pub use __nutype_C16I64GreaterOrEqualLitP__::C16I64GreaterOrEqualLitP;
pub use __nutype_C16I64GreaterOrEqualLitP__::C16I64GreaterOrEqualLitPError;

}
pub mod d_c16_i64_greater_or_equal_lit_n {
    use super::*;
// NUTYPE_VERIF_INPUT #[nutype(validate(greater_or_equal = -7), derive(Debug))] pub struct C16I64GreaterOrEqualLitN(i64);
#[doc(hidden)]
#[allow(
    non_snake_case,
    reason = "we keep original structure name which is probably CamelCase"
)]
mod __nutype_C16I64GreaterOrEqualLitN__ {
    use super::*;
    #[derive(Debug)]
    pub struct C16I64GreaterOrEqualLitN(i64);
    #[derive(Debug, Clone, PartialEq, Eq)]
    #[allow(clippy::enum_variant_names)]
    pub enum C16I64GreaterOrEqualLitNError {
        GreaterOrEqualViolated,
    }
    #[verifier::external]
impl ::core::fmt::Display for C16I64GreaterOrEqualLitNError {
        fn fmt(&self, f: &mut ::core::fmt::Formatter<'_>) -> ::core::fmt::Result {
            match self {
                C16I64GreaterOrEqualLitNError::GreaterOrEqualViolated => write!(
                    f,
                    "{} is too small. The value must be greater or equal to {:#?}.",
                    stringify!(C16I64GreaterOrEqualLitN),
                    -7i64
                ),
            }
        }
    }
    #[verifier::external]
impl ::core::error::Error for C16I64GreaterOrEqualLitNError {
        fn source(&self) -> Option<&(dyn ::core::error::Error + 'static)> {
            None
        }
    }
    impl C16I64GreaterOrEqualLitN {
        pub fn try_new(
            raw_value: i64,
        ) -> (r: ::core::result::Result<Self, C16I64GreaterOrEqualLitNError>) 
            ensures
                r == Self::spec_try_new(raw_value),
                r is Err ==> Self::spec_validate(Self::spec_sanitize(raw_value)) == Err::<(), C16I64GreaterOrEqualLitNError>(r->Err_0),
        {
            let sanitized_value: i64 = Self::__sanitize__(raw_value);
            #[allow(clippy::question_mark)]
            if let Err(e) = Self::__validate__(&sanitized_value) {
                return Err(e);
            }
            Ok(C16I64GreaterOrEqualLitN(sanitized_value))
        }
        fn __sanitize__(mut value: i64) -> (r: i64) 
            ensures
                r == Self::spec_sanitize(value),
        {
            value
        }
        fn __validate__(val: &i64) -> (r: ::core::result::Result<(), C16I64GreaterOrEqualLitNError>) 
            ensures
                r == Self::spec_validate(*val),
                r is Err ==> r == Self::spec_validate(*val),
        {
            let val = *val;
            if val < -7i64 {
                return Err(C16I64GreaterOrEqualLitNError::GreaterOrEqualViolated);
            }
            Ok(())
        }
    }
    impl C16I64GreaterOrEqualLitN {
        #[inline]
        pub fn into_inner(self) -> (r: i64) 
            ensures
                r == self.spec_view(),
        {
            self.0
        }
    }
    #[cfg(test)]
    mod tests {
        use super::*;
    }

    // ======== inserted by the annotator: spec-mode items only ========
    impl C16I64GreaterOrEqualLitN {
        pub closed spec fn spec_view(self) -> i64 { self.0 }
        pub closed spec fn spec_sanitize(x: i64) -> i64 { x }
        pub closed spec fn spec_validate(x: i64) -> ::core::result::Result<(), C16I64GreaterOrEqualLitNError> {
            if !(x >= ((-7))) { Err(C16I64GreaterOrEqualLitNError::GreaterOrEqualViolated) } else { Ok(()) }
        }
        pub closed spec fn spec_post(raw: i64, r: ::core::result::Result<Self, C16I64GreaterOrEqualLitNError>) -> bool { r == Self::spec_try_new(raw) }
        pub closed spec fn spec_try_new(raw: i64) -> ::core::result::Result<Self, C16I64GreaterOrEqualLitNError> {
            match Self::spec_validate(Self::spec_sanitize(raw)) {
                Ok(_) => Ok(C16I64GreaterOrEqualLitN(Self::spec_sanitize(raw))),
                Err(e) => Err(e),
            }
        }
        #[verifier::type_invariant]
        closed spec fn spec_inv(self) -> bool { Self::spec_validate(self.0) is Ok }
    }
    impl C16I64GreaterOrEqualLitN {
        pub proof fn lemma_c16_GreaterOrEqualViolated(x: i64)
            ensures (x >= ((-7))) <==> (x >= ((-7))),
        {
        }
    }
}
pub use __nutype_C16I64GreaterOrEqualLitN__::C16I64GreaterOrEqualLitN;
pub use __nutype_C16I64GreaterOrEqualLitN__::C16I64GreaterOrEqualLitNError;

}
pub mod d_c16_i64_greater_or_equal_lit_big {
    use super::*;
// NUTYPE_VERIF_INPUT #[nutype(validate(greater_or_equal = 100), derive(Debug))] pub struct C16I64GreaterOrEqualLitBig(i64);
#[doc(hidden)]
#[allow(
    non_snake_case,
    reason = "we keep original structure name which is probably CamelCase"
)]
mod __nutype_C16I64GreaterOrEqualLitBig__ {
    use super::*;
    #[derive(Debug)]
    pub struct C16I64GreaterOrEqualLitBig(i64);
    #[derive(Debug, Clone, PartialEq, Eq)]
    #[allow(clippy::enum_variant_names)]
    pub enum C16I64GreaterOrEqualLitBigError {
        GreaterOrEqualViolated,
    }
    #[verifier::external]
impl ::core::fmt::Display for C16I64GreaterOrEqualLitBigError {
        fn fmt(&self, f: &mut ::core::fmt::Formatter<'_>) -> ::core::fmt::Result {
            match self {
                C16I64GreaterOrEqualLitBigError::GreaterOrEqualViolated => write!(
                    f,
                    "{} is too small. The value must be greater or equal to {:#?}.",
                    stringify!(C16I64GreaterOrEqualLitBig),
                    100i64
                ),
            }
        }
    }
    #[verifier::external]
impl ::core::error::Error for C16I64GreaterOrEqualLitBigError {
        fn source(&self) -> Option<&(dyn ::core::error::Error + 'static)> {
            None
        }
    }
    impl C16I64GreaterOrEqualLitBig {
        pub fn try_new(
            raw_value: i64,
        ) -> (r: ::core::result::Result<Self, C16I64GreaterOrEqualLitBigError>) 
            ensures
                r == Self::spec_try_new(raw_value),
                r is Err ==> Self::spec_validate(Self::spec_sanitize(raw_value)) == Err::<(), C16I64GreaterOrEqualLitBigError>(r->Err_0),
        {
            let sanitized_value: i64 = Self::__sanitize__(raw_value);
            #[allow(clippy::question_mark)]
            if let Err(e) = Self::__validate__(&sanitized_value) {
                return Err(e);
            }
            Ok(C16I64GreaterOrEqualLitBig(sanitized_value))
        }
        fn __sanitize__(mut value: i64) -> (r: i64) 
            ensures
                r == Self::spec_sanitize(value),
        {
            value
        }
        fn __validate__(val: &i64) -> (r: ::core::result::Result<(), C16I64GreaterOrEqualLitBigError>) 
            ensures
                r == Self::spec_validate(*val),
                r is Err ==> r == Self::spec_validate(*val),
        {
            let val = *val;
            if val < 100i64 {
                return Err(C16I64GreaterOrEqualLitBigError::GreaterOrEqualViolated);
            }
            Ok(())
        }
    }
    impl C16I64GreaterOrEqualLitBig {
        #[inline]
        pub fn into_inner(self) -> (r: i64) 
            ensures
                r == self.spec_view(),
        {
            self.0
        }
    }
    #[cfg(test)]
    mod tests {
        use super::*;
    }

    // ======== inserted by the annotator: spec-mode items only ========
    impl C16I64GreaterOrEqualLitBig {
        pub closed spec fn spec_view(self) -> i64 { self.0 }
        pub closed spec fn spec_sanitize(x: i64) -> i64 { x }
        pub closed spec fn spec_validate(x: i64) -> ::core::result::Result<(), C16I64GreaterOrEqualLitBigError> {
            if !(x >= (100)) { Err(C16I64GreaterOrEqualLitBigError::GreaterOrEqualViolated) } else { Ok(()) }
        }
        pub closed spec fn spec_post(raw: i64, r: ::core::result::Result<Self, C16I64GreaterOrEqualLitBigError>) -> bool { r == Self::spec_try_new(raw) }
        pub closed spec fn spec_try_new(raw: i64) -> ::core::result::Result<Self, C16I64GreaterOrEqualLitBigError> {
            match Self::spec_validate(Self::spec_sanitize(raw)) {
                Ok(_) => Ok(C16I64GreaterOrEqualLitBig(Self::spec_sanitize(raw))),
                Err(e) => Err(e),
            }
        }
        #[verifier::type_invariant]
        closed spec fn spec_inv(self) -> bool { Self::spec_validate(self.0) is Ok }
    }
    impl C16I64GreaterOrEqualLitBig {
        pub proof fn lemma_c16_GreaterOrEqualViolated(x: i64)
            ensures (x >= (100)) <==> (x >= (100)),
        {
        }
    }
}
pub use __nutype_C16I64GreaterOrEqualLitBig__::C16I64GreaterOrEqualLitBig;
pub use __nutype_C16I64GreaterOrEqualLitBig__::C16I64GreaterOrEqualLitBigError;

}

// vacuity canary: this MUST fail; if it verifies the assumptions are inconsistent
proof fn __verif_canary() ensures false {}
} // verus!
fn main() {}
